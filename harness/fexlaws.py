"""The identities of `Arith.Exact` (lean/NdeVerif/Calc/FEx.lean) sampled on torch tensors in both precisions.

This is a TEST of the trusted statement "IEEE-754 arithmetic as implemented by torch on this machine satisfies the laws"
(values compared numerically, so -0 = +0); the laws themselves are hypotheses of the generated theorems, not axioms."""
import random


def sample(n=400, seed=0):
    import torch
    rng = random.Random(seed)
    bad, count = [], 0
    for dt in (torch.float32, torch.float64):
        fi = torch.finfo(dt)
        vals = [0.0, -0.0, 1.0, -1.0, fi.tiny, -fi.tiny, fi.tiny / 8, fi.max, -fi.max, fi.eps, 1 + fi.eps, 3.0e-5, 7.25, 1.0e20, -2.5e-30]
        vals += [rng.uniform(-1, 1) * 10.0 ** rng.randint(-30, 30) for _ in range(n)]
        x = torch.tensor(vals, dtype=dt)
        zero, one = torch.zeros_like(x), torch.ones_like(x)
        nz = x != 0
        laws = {
            'add_zero': ((x + zero), x), 'zero_add': ((zero + x), x), 'neg_add_self': ((-x) + x, zero), 'add_neg_self': (x + (-x), zero),
            'sub_zero': (x - zero, x), 'sub_self': (x - x, zero), 'mul_zero': (x * zero, zero), 'zero_mul': (zero * x, zero),
            'mul_one': (x * one, x), 'one_mul': (one * x, x), 'div_one': (x / one, x),
            'zero_div': ((zero / x)[nz], zero[nz]), 'div_self': ((x / x)[nz], one[nz]),
            'neg_zero': (-zero, zero), 'pow_zero': (x ** 0, one), 'pow_one': (x ** 1, x), 'zero_pow': (zero ** 2, zero), 'zero_pow3': (zero ** 3, zero),
            'one_pow': (one ** 7, one),
            'exp_zero': (torch.exp(zero), one), 'cos_zero': (torch.cos(zero), one), 'sin_zero': (torch.sin(zero), zero),
            'tanh_zero': (torch.tanh(zero), zero), 'sqrt_zero': (torch.sqrt(zero), zero), 'abs_zero': (torch.abs(zero), zero),
            'sqrt_one': (torch.sqrt(one), one), 'abs_one': (torch.abs(one), one), 'log_one': (torch.log(one), zero),
            # the same identities with a python scalar on one side (how the library writes them: `1 - t_tilde`, `x * 0`)
            'scalar one_sub_one': (1 - one, zero), 'scalar mul_zero': (x * 0, zero), 'scalar exp(-0)': (torch.exp(-zero), one),
        }
        for name, (got, want) in laws.items():
            count += 1
            if got.shape != want.shape or not bool((got == want).all()):
                k = int((got != want).nonzero()[0]) if got.shape == want.shape and got.numel() else -1
                bad.append(dict(law=name, dtype=str(dt), example=None if k < 0 else dict(got=float(got[k]), want=float(want[k]))))
    return dict(laws_sampled=count, values_per_law=n + 15, failed=bad)
