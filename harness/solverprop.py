"""Shared correspondence campaign for the solver model (C04, C05, C15): script generation, real vs model
comparison, parsing of dumps/logs, and the property predicates evaluated on the REAL observations."""
import random
import re

from .runner import run_driver, split_blocks
from .solverworld import run_script, loss_formula, metric_formula, addl_formula, grad_formula, addl_grad_formula

KINDS = ['1d', '2d', 'spherical', 'generic', 'bundle']


def gen_script(rng, tier):
    theta0 = rng.randint(-40, 40)
    opt = rng.choice(['plain', 'plain', 'closure'])
    n_train = rng.randint(1, 3)
    n_valid = rng.choice([0, 0, 1, 2, 3])
    n_metrics = rng.randint(0, 2)
    lines = [f'init {theta0} {opt} {n_train} {n_valid} {n_metrics}']
    with_addl = rng.random() < 0.5
    if with_addl:
        lines.append('addl 1')
    # plateaus / ties / adversarial trajectories: override some draws' losses (multiples of 12: exact means for 1..4 batches)
    if not with_addl and rng.random() < 0.75:
        train = n_valid == 0
        vals = rng.choice([[60, 24, 24, 96, 24, 12, 12, 120], [12, 12, 12, 12], [120, 108, 96, 84, 72], [24, 120, 24, 0, 0, 36]])
        per = n_train if train else n_valid
        for e, v in enumerate(vals):
            for b in range(per):
                lines.append(f'override {1 if train else 0} {e * per + b} {v}')
    n_fits = rng.randint(1, 4)
    fits = [rng.randint(0, 6) for _ in range(n_fits)]
    for call, m in enumerate(fits):
        for e in range(1, m + 1):
            r = rng.random()
            if r < 0.08:
                lines.append(f'sched {call} {e} stop')
            elif r < 0.16:
                lines.append(f'sched {call} {e} batches {rng.randint(1, 3)}')
            elif r < 0.22:
                lines.append(f'sched {call} {e} opt {rng.choice(["plain", "closure"])}')
            elif r < 0.28:
                lines.append(f'sched {call} {e} loss {rng.randint(0, 3)}')
    lines += [f'fit {m}' for m in fits]
    kind = rng.choice(KINDS)
    n_funcs = rng.randint(1, 3)
    kw = dict(kind=kind, n_funcs=n_funcs, shared=rng.random() < 0.4, n_points=rng.randint(1, 4), vary_points=rng.random() < 0.5,
              loss_scale=rng.choice([1.0, 1.0, 2.0 ** -40, 2.0 ** -30, 2.0 ** 23]), late_valid0=rng.random() < 0.5)      # powers of two: ties and means stay exact
    if kind == 'bundle':
        n_theta = rng.randint(0, 3)
        idx = rng.sample(range(n_theta), rng.randint(0, n_theta)) if n_theta else []
        kw.update(n_theta=n_theta, eq_param_index=tuple(idx))
    return lines, kw


FIELD = re.compile(r'(\w+)=(\S*)')


def parse_dump(line):
    d = dict(FIELD.findall(line))
    lst = lambda s: [int(x) for x in s.strip('[]').split(',') if x]
    out = dict(theta=int(d['theta']), opt=d['opt'], loss=int(d['loss']), nT=int(d['nT']), nV=int(d['nV']),
               train=lst(d['train']), valid=lst(d['valid']),
               tm=[lst(x) for x in d['tm'].split('|')] if d['tm'] else [],
               vm=[lst(x) for x in d['vm'].split('|')] if d['vm'] else [],
               lowest=None if d['lowest'] == 'None' else int(d['lowest']),
               best=None if d['best'] == 'None' else int(d['best']),
               local=int(d['local']), max=int(d['max']), stop=d['stop'] == 'true', td=int(d['td']), vd=int(d['vd']),
               steps=int(d['steps']))
    return out


def split_epochs(log):
    """LOG line -> list of per-epoch event lists (each ends with its C event)"""
    evs = log.split()[1:] if log.startswith('LOG') else log.split()
    eps, cur = [], []
    for e in evs:
        cur.append(e)
        if e.startswith('C'):
            eps.append(cur)
            cur = []
    return eps, cur


class Campaign:
    def __init__(self, tier, seed, n_quick=40, n_thorough=600):
        self.rng = random.Random(seed)
        self.scripts = [gen_script(self.rng, tier) for _ in range(n_quick if tier == 'quick' else n_thorough)]
        self.results = []          # (lines, kw, real_out, run) or (lines, kw, exception)
        self.mismatches = []
        self.hist = dict(kinds={}, opt={}, nValid0=0, fits=0, epochs=0, stops=0, switches=0, overrides=0, shared=0)

    def run(self):
        blocks = []
        for lines, kw in self.scripts:
            try:
                out, run = run_script(lines, **kw)
                self.results.append((lines, kw, out, run))
            except Exception as e:   # the real code raised on a valid script
                self.results.append((lines, kw, e, None))
            blocks.append('\n'.join(lines) + '\n---')
            self.hist['kinds'][kw['kind']] = self.hist['kinds'].get(kw['kind'], 0) + 1
            o = lines[0].split()[2]
            self.hist['opt'][o] = self.hist['opt'].get(o, 0) + 1
            self.hist['nValid0'] += lines[0].split()[4] == '0'
            self.hist['fits'] += sum(l.startswith('fit') for l in lines)
            self.hist['stops'] += sum('stop' in l for l in lines)
            self.hist['switches'] += sum((' opt ' in l or ' loss ' in l or ' batches ' in l) and l.startswith('sched') for l in lines)
            self.hist['overrides'] += any(l.startswith('override') for l in lines)
            self.hist['shared'] += bool(kw.get('shared'))
        mlines, dt = run_driver('Solver', '\n'.join(blocks) + '\n')
        self.driver_seconds = dt
        mblocks = split_blocks(mlines)
        for (lines, kw, out, run), mb in zip(self.results, mblocks):
            if isinstance(out, Exception):
                self.mismatches.append(dict(script=lines, kw=kw, real_error=f'{type(out).__name__}: {out}'))
                continue
            self.hist['epochs'] += sum(l.startswith('E ') for l in out)
            if out != mb:
                first = next((i for i, (a, b) in enumerate(zip(out, mb)) if a != b), min(len(out), len(mb)))
                self.mismatches.append(dict(script=lines, kw=kw, first_difference=first,
                                            real=out[first:first + 1], model=mb[first:first + 1]))
            if any('agree=false' in l for l in mb):
                self.mismatches.append(dict(script=lines, error='model: stepping epochs disagrees with fit'))
        if len(mblocks) != len(self.results):
            self.mismatches.append(dict(error='driver block count', got=len(mblocks), want=len(self.results)))
        return self

    def observations(self):
        """yield (script lines, kw, [per fit: (epoch dumps, final dump, epochs' events)], initial θ, run)"""
        for lines, kw, out, run in self.results:
            if isinstance(out, Exception):
                continue
            fits, cur = [], []
            for l in out:
                if l.startswith('E '):
                    cur.append(parse_dump(l[2:]))
                elif l.startswith('F '):
                    final = parse_dump(l[2:])
                elif l.startswith('LOG'):
                    eps, rest = split_epochs(l)
                    fits.append(dict(epochs=cur, final=final, events=eps, trailing=rest, grads=None))
                    cur = []
                elif l.startswith('GRADS') and fits:
                    fits[-1]['grads'] = [int(x) for x in l.split(' ', 1)[1].strip('[]').split(',') if x]
            yield lines, kw, fits, int(lines[0].split()[1]), run

    def coverage(self):
        return dict(programs=len(self.scripts), traces_validated_against_impl=len(self.results) - len(self.mismatches),
                    evaluations=self.hist['epochs'],
                    distinct_nontrivial=len({(tuple(l), str(sorted(k.items()))) for l, k in self.scripts
                                             if sum(int(x.split()[1]) for x in l if x.startswith('fit')) >= 2}),
                    rule='a script = initial θ, optimiser kind, batch counts, metrics, per-draw loss overrides (ties/plateaus), a '
                         'callback schedule (stop / batch count / optimiser / loss swaps) and up to 4 fit() calls with max_epochs 0..6, '
                         'run on a random solver class (1D, 2D, spherical, generic, bundle) with 1..3 unknowns, shared or separate nets; '
                         'non-trivial = at least 2 epochs in total; real solver vs Lean model compared on per-epoch state dumps and '
                         'the full event log (draws, loss evaluations, zero_grad, optimiser steps, callbacks)',
                    input_distribution=self.hist, driver_seconds=round(self.driver_seconds, 1))


def loss_of(lines):
    ov = {}
    for l in lines:
        if l.startswith('override'):
            p = l.split()
            ov[(p[1] == '1', int(p[2]))] = int(p[3])
    addl = any(l.strip() == 'addl 1' for l in lines)
    return lambda lid, th, tr, idx: ov.get((tr, idx), loss_formula(lid, th, tr, idx)) + (addl_formula(th, tr, idx) if addl else 0)


def manual_campaign(tier, seed):
    """histories that mix epochs run by hand (run_train_epoch / run_valid_epoch) with fit() calls: the real solver vs the model, exact comparison
    (ties Proofs/AnyHistory.lean to the code), plus the C05 / C15 invariants evaluated on every dump of the real run"""
    rng = random.Random(seed * 7 + 3)
    scripts = []
    for _ in range(12 if tier == 'quick' else 150):
        lines, kw = gen_script(rng, tier)
        kw = dict(kw, late_valid0=False)
        head = [l for l in lines if not l.startswith('fit')]
        fits = [l for l in lines if l.startswith('fit')]
        body = []
        for f in fits:
            for _ in range(rng.randint(0, 3)):
                body.append(rng.choice(['train', 'valid', 'train']))
            body.append(f)
        for _ in range(rng.randint(0, 3)):
            body.append(rng.choice(['train', 'valid']))
        scripts.append((head + body, kw))
    blocks, results, mism, bad = [], [], [], []
    n_manual = 0
    for lines, kw in scripts:
        n_manual += sum(l in ('train', 'valid') for l in lines)
        try:
            out, run = run_script(lines, **kw)
        except Exception as e:
            out = e
        results.append(out)
        blocks.append('\n'.join(lines) + '\n---')
    mlines, dt = run_driver('Solver', '\n'.join(blocks) + '\n')
    mblocks = split_blocks(mlines)
    if len(mblocks) != len(results):
        mism.append(dict(error='driver block count', got=len(mblocks), want=len(results)))
    for (lines, kw), out, mb in zip(scripts, results, mblocks):
        if isinstance(out, Exception):
            mism.append(dict(script=lines, kw=kw, real_error=f'{type(out).__name__}: {out}'))
            continue
        if out != mb:
            first = next((i for i, (a, b) in enumerate(zip(out, mb)) if a != b), min(len(out), len(mb)))
            mism.append(dict(script=lines, kw=kw, first_difference=first, real=out[first:first + 1], model=mb[first:first + 1]))
        for l in out:
            if l[:2] in ('E ', 'F ', 'M '):
                d = parse_dump(l.split(' ', 2)[2] if l.startswith('M ') else (l[2:].split(' ', 1)[1] if l.startswith('F ') else l[2:]))
                tracked = d['valid'] if d['nV'] > 0 else d['train']
                if (d['lowest'] is None) != (not tracked) or (tracked and d['lowest'] != min(tracked)):
                    bad.append(dict(script=lines, kw=kw, violated='after a history with hand-run epochs, lowest_loss is not the minimum of the tracked series',
                                    lowest=d['lowest'], tracked=tracked[-8:], dump=l[:60]))
                    break
                if any(len(m) != len(d['train']) for m in d['tm']) or any(len(m) != len(d['valid']) for m in d['vm']):
                    bad.append(dict(script=lines, kw=kw, violated='after a history with hand-run epochs, a metric series does not have one entry per epoch of its phase',
                                    train=len(d['train']), valid=len(d['valid']), tm=[len(m) for m in d['tm']], vm=[len(m) for m in d['vm']]))
                    break
    return dict(mismatches=mism, bad=bad, scripts=len(scripts), manual_epochs=n_manual, driver_seconds=round(dt, 1))
