"""check flow shared by the calc-engine (translator) properties"""
import os
import traceback
from .runner import Report, kernel_phase, LEAN, ROOT
from .sym import Untranslatable


def check_calc(mod, tier, seed, extra_modules=()):
    """mod provides PID, generate(seeds, tier) -> (GenFile, stats), search(seed, tier) -> list of failing inputs,
    optional STATIC = [(module, namespace, [theorem names])] of hand-written theorems."""
    rep = Report(mod.PID, tier, seed)
    from . import disturb
    if getattr(mod, 'DISTURB', True):
        disturb.install()      # decoy instances and warm-up calls around every condition's enforce (see disturb.py)
    broken = []          # reasons why the proof / tie does not stand
    n_seeds = 3 if tier == 'quick' else 12
    seeds = [seed * 1000 + i for i in range(n_seeds)]
    g = None
    try:
        g, stats = mod.generate(seeds=seeds, tier=tier)
    except AssertionError as e:
        broken.append(dict(kind='tie', detail=str(e)[:2000]))
    except Untranslatable as e:
        broken.append(dict(kind='untranslatable', detail=str(e), where=traceback.format_exc()[-800:]))
    except Exception as e:   # the traced code raised: a scenario that worked on the pinned tree no longer runs
        broken.append(dict(kind='scenario-error', detail=f'{type(e).__name__}: {e}', where=traceback.format_exc()[-1500:]))
    if g is not None:
        path = os.path.join(LEAN, 'NdeVerif', 'Gen', f'{mod.PID}.lean')
        g.write(path)
        names = [o.name for o in g.obligations]
        for part in getattr(g, 'parts', []):
            part.write(os.path.join(LEAN, 'NdeVerif', 'Gen', f'{part.pid}.lean'))
        if getattr(g, 'parts', []):
            # one lake invocation for all modules of the property: independent modules are elaborated in parallel; the
            # kernel_phase calls below then find them built (or rebuild just the failing one to collect its errors)
            from .runner import Lock, run
            with Lock():
                run(['lake', 'build', f'NdeVerif.Gen.{mod.PID}'] + [f'NdeVerif.Gen.{part.pid}' for part in g.parts], cwd=LEAN, timeout=3000)
        ok, hits = kernel_phase(rep, f'NdeVerif.Gen.{mod.PID}', g.ns, names)
        if hits:
            print('forbidden tokens in Lean sources:', hits)
            rep.finish()
            return 2
        for part in getattr(g, 'parts', []):
            ok2, hits2 = kernel_phase(rep, f'NdeVerif.Gen.{part.pid}', part.ns, [o.name for o in part.obligations], tag=part.pid)
            ok = ok and ok2
            if part.failures:
                rep.coverage.setdefault('certificates_not_found', []).extend(part.failures)
        for module, ns, thms in getattr(mod, 'STATIC', []):
            ok2, _ = kernel_phase(rep, module, ns, thms, tag=mod.PID + '_static')
            ok = ok and ok2
        if g.failures:
            rep.coverage.setdefault('certificates_not_found', []).extend(g.failures)
        if not ok:
            broken.append(dict(kind='proof', failed=rep.failed))
        rep.coverage.update(
            programs=len(stats), traces_validated_against_impl=sum(s.get('replays', 0) for s in stats.values()),
            worst_replay_rel_err=max([s.get('worst_rel_err', 0) for s in stats.values()] or [0]),
            evaluations=sum(s.get('replays', 0) for s in stats.values()),
            distinct_nontrivial=len({o.statement for o in g.obligations} | {o.statement for part in getattr(g, 'parts', []) for o in part.obligations}),
            rule='one scenario per configuration of the traced code (all enumerated); an obligation is one kernel-checked '
                 'theorem, distinct by statement; every trace is replayed numerically against the real code on random '
                 'float64 inputs/nets for each seed and row count',
            generated_file=os.path.relpath(path, ROOT))
        if getattr(g, 'exact_info', None):
            rep.coverage['operation_order_model'] = g.exact_info
            if g.exact_info.get('ieee_identities_sampled', {}).get('failed'):
                broken.append(dict(kind='trusted-base', detail='an identity of Arith.Exact does not hold in torch on this machine',
                                   failed=g.exact_info['ieee_identities_sampled']['failed'][:3]))
        allobl = g.obligations + [o for part in getattr(g, 'parts', []) for o in part.obligations]
        rep.samples = [dict(theorem=o.name, statement=o.statement[:400], meaning=o.what) for o in allobl[:: max(1, len(allobl) // 10)]]
    rep.coverage['hostile_environment'] = disturb.stats()
    rep.assumptions = list(getattr(mod, 'ASSUMPTIONS', []))
    # optional second engine of the property (a hand-written model with its own correspondence)
    extra_failing = []
    if hasattr(mod, 'extra_phase'):
        try:
            eb, extra_failing = mod.extra_phase(rep, tier, seed)
            broken += eb
        except Exception as e:
            rep.notes.append(f'extra_phase crashed: {type(e).__name__}: {e}')
            broken.append(dict(kind='extra-phase-error', detail=f'{type(e).__name__}: {e}', where=traceback.format_exc()[-800:]))
    for f in extra_failing[:3]:
        rep.violation(dict(kind='failing-input', input=f, broken=broken))
    if extra_failing:
        return rep.finish(checker_cmd=f'cd lean && lake build NdeVerif.Gen.{mod.PID}')
    # exact observations on the real code that are part of the property (rejection paths, output widths): every run
    always = []
    if hasattr(mod, 'runtime_checks'):
        try:
            always = mod.runtime_checks() or []
        except Exception as e:
            # the observations could not be evaluated: what the code does no longer fits the harness, the property is not shown to hold
            rep.notes.append(f'runtime_checks crashed: {type(e).__name__}: {e}')
            broken.append(dict(kind='harness-evaluation-error', detail=f'runtime_checks: {type(e).__name__}: {e}', where=traceback.format_exc()[-1200:]))
    always = list(always) + [dict(hostile_environment=f) for f in disturb.FAILS[:3]]
    rep.coverage['runtime_observations_failed'] = len(always)
    for f in always[:3]:
        rep.violation(dict(kind='failing-input', input=f, broken=broken))
    if always:
        return rep.finish(checker_cmd=f'cd lean && lake build NdeVerif.Gen.{mod.PID}')
    if broken:
        found = []
        try:
            found = mod.search(seed, tier) or []
        except Exception as e:
            rep.notes.append(f'search crashed: {type(e).__name__}: {e}')
        if found:
            for f in found[:5]:
                rep.violation(dict(kind='failing-input', input=f, broken=broken))
        else:
            rep.violation(dict(kind='unproved', broken=broken,
                               note='the proof/tie no longer checks and no failing input was found by the search'),
                          found_input=False, name='unproved')
    return rep.finish(checker_cmd=f'cd lean && lake build NdeVerif.Gen.{mod.PID} && lake env lean .lake/Audit_{mod.PID}.lean')
