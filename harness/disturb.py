"""A hostile-but-legal environment around the condition classes (harness-side wrapping, nothing in /repo changes).

The properties quantify over every use of a condition object, including uses that a one-shot scenario never makes:
  * other condition objects of the same process constructed and used between the construction and the use of the
    object under test (systems of equations have one condition per unknown)         -> `decoys()`
  * an earlier `enforce` on the same object, at the same coordinates ('warm-same': a user who precomputes boundary data
    gets the *same tensor objects* back from his functions, so in-place updates of user data or of cached tensors show)
    and at other coordinates with other boundary data ('warm-other': user callables are stateful Python objects, the data
    they return may change between calls, so values cached across calls show)       -> warm-up calls
`install()` wraps the `enforce` method of every condition class with  decoys -> warm-same -> warm-other -> the real call.
Only the real call's result is returned.  On code that satisfies the property none of this can change the result.
The warm-ups run only on concrete tensors (the symbolic trace gets the decoys only); a disagreement between the symbolic
trace and the concrete run then breaks the tie and starts the failing-input search.
"""
import torch

STATE = dict(active=False, depth=0, phase='real', warmups=0, decoy_rounds=0, installed=False)
_MEMO = {}
FAILS = []          # property-level observations made by the wrappers on the real code (reported as failing inputs)


def phase():
    return STATE['phase'] if STATE['depth'] > 0 else 'outside'


def memo_call(key_name, fn, xs):
    """used by the concrete user functions of the worlds: inside a wrapped enforce, the same inputs give the same tensor object"""
    ph = phase()
    if ph == 'warm-other':
        return fn(*xs) * 1.5 + 0.25
    if ph in ('warm-same', 'real') and all(isinstance(x, torch.Tensor) for x in xs):
        key = (key_name, tuple(x.detach().numpy().tobytes() for x in xs))
        hit = _MEMO.get(key)
        if hit is not None:
            return hit
        out = fn(*xs)
        if ph == 'warm-same':
            _MEMO[key] = out
        return out
    return fn(*xs)


_DECOY_NET = {}


def _net(n_in, n_out):
    k = (n_in, n_out)
    if k not in _DECOY_NET:
        with torch.random.fork_rng():
            torch.manual_seed(12345)
            lin = torch.nn.Linear(n_in, n_out)
        _DECOY_NET[k] = lin
    return _DECOY_NET[k]


def decoys(like=None):
    """construct and use one instance of every closed-form condition class, with parameters unlike any used by the checks;
    `like`: a coordinate of the call under test - the decoys are evaluated on batches of the same layout (shape, dtype)"""
    import neurodiffeq.conditions as C
    STATE['decoy_rounds'] += 1
    if like is not None and torch.is_tensor(like) and like.dim() == 2 and like.shape[0] >= 1:
        base = torch.linspace(0.11, 0.52, like.shape[0], dtype=like.dtype).reshape(-1, 1)
        col = lambda *v: (base + float(v[0]) - 0.11).clone().requires_grad_(True)
    else:
        col = lambda *v: torch.tensor([[float(a)] for a in v], requires_grad=True)
    t = col(0.11, 0.52)
    th = [col(7.1, 7.2), col(8.1, 8.2), col(9.1, 9.2), col(6.1, 6.2)]
    jobs = [
        lambda: C.IVP(t_0=41.5, u_0=43.5, u_0_prime=47.5).enforce(_net(1, 1), t),
        lambda: C.IVP(t_0=41.25, u_0=43.25).enforce(_net(1, 1), t),
        lambda: C.DirichletBVP(t_0=51.5, u_0=53.5, t_1=57.5, u_1=59.5).enforce(_net(1, 1), t),
        lambda: C.BundleIVP(t_0=61.5, u_0=63.5, u_0_prime=67.5, bundle_param_lookup={'u_0': 3}).enforce(_net(5, 1), t, *th),
        lambda: C.BundleDirichletBVP(t_0=71.5, u_0=73.5, t_1=77.5, u_1=79.5, bundle_param_lookup={'t_1': 0, 'u_1': 1}).enforce(_net(5, 1), t, *th),
        lambda: C.DoubleEndedBVP1D(x_min=81.5, x_max=83.5, x_min_val=87.5, x_max_prime=89.5).enforce(_net(1, 1), t),
        lambda: C.DirichletBVP2D(x_min=91.5, x_min_val=lambda y: y * 3.5, x_max=93.5, x_max_val=lambda y: y * 5.5,
                                 y_min=95.5, y_min_val=lambda x: x * 7.5, y_max=97.5, y_max_val=lambda x: x * 9.5).enforce(_net(2, 1), t, th[0]),
        lambda: C.IBVP1D(x_min=21.5, x_max=23.5, t_min=25.5, t_min_val=lambda x: x * 2.5, x_min_val=lambda tt: tt * 4.5,
                         x_max_prime=lambda tt: tt * 6.5).enforce(_net(2, 1), t, th[0]),
        lambda: C.DirichletBVPSpherical(r_0=31.5, f=lambda a, b: a * 1.5 + b, r_1=33.5, g=lambda a, b: a - b * 2.5).enforce(_net(3, 1), t, th[0], th[1]),
        lambda: C.InfDirichletBVPSpherical(r_0=35.5, f=lambda a, b: a * 1.25, g=lambda a, b: b * 2.25, order=3).enforce(_net(3, 1), t, th[0], th[1]),
        lambda: C.DirichletBVPSphericalBasis(r_0=37.5, R_0=39.5, r_1=38.5, R_1=36.5).enforce(_net(1, 1), t),
        lambda: C.InfDirichletBVPSphericalBasis(r_0=27.5, R_0=29.5, R_inf=26.5, order=2).enforce(_net(1, 1), t),
        lambda: C.NoCondition().enforce(_net(1, 1), t),
        lambda: C.EnsembleCondition(C.IVP(t_0=11.5, u_0=13.5), C.DirichletBVP(t_0=15.5, u_0=17.5, t_1=19.5, u_1=18.5)).enforce(_net(1, 2), t),
    ]
    for job in jobs:
        try:
            job()
        except Exception:
            pass       # a decoy that cannot be built on a changed tree is not this check's business


def _concrete(coords):
    # the extra phases re-evaluate on shifted / refilled copies of the coordinates: only for ordinary floating-point tensors
    return all(isinstance(c, torch.Tensor) and c.is_floating_point() for c in coords)


def _fresh(c, shift):
    v = c.detach().clone()
    if shift:
        v = v + 0.37
    return v.requires_grad_(c.requires_grad)


def _wrap(orig):
    def enforce(self, net, *coordinates):
        if not STATE['active'] or STATE['depth'] > 0:
            return orig(self, net, *coordinates)
        STATE['depth'] += 1
        try:
            STATE['phase'] = 'decoy'
            decoys(coordinates[0] if coordinates and _concrete(coordinates) else None)
            if _concrete(coordinates):
                _MEMO.clear()
                for ph in ('warm-same', 'warm-other'):
                    STATE['phase'] = ph
                    STATE['warmups'] += 1
                    try:
                        orig(self, net, *[_fresh(c, ph == 'warm-other') for c in coordinates])
                    except Exception:
                        pass
            if _concrete(coordinates) and isinstance(net, torch.nn.Module):
                # the same coordinate OBJECTS with another state of the same network object (its weights changed in between, as
                # after more training): a forward pass cached per (network, coordinates) objects would now be stale
                STATE['phase'] = 'warm-netchange'
                ps = [p for p in net.parameters()]
                saved = [p.detach().clone() for p in ps]
                try:
                    with torch.no_grad():
                        for p in ps:
                            p.add_(0.173)
                    orig(self, net, *coordinates)
                except Exception:
                    pass
                finally:
                    with torch.no_grad():
                        for p, v in zip(ps, saved):
                            p.copy_(v)          # restored bit for bit
            STATE['phase'] = 'real'
            out = orig(self, net, *coordinates)
            if _concrete(coordinates) and torch.is_tensor(out) and len(FAILS) < 20:
                # the enforced VALUES do not depend on whether the caller's coordinates track gradients (plotting, get_solution
                # on plain tensors) - the boundary terms of Neumann ends are built from derivatives of the network internally
                try:
                    STATE['phase'] = 'nograd-inputs'
                    alt = orig(self, net, *[c.detach().clone() for c in coordinates])
                    scale = 1.0 + float(out.detach().abs().max()) if out.numel() else 1.0
                    if alt.shape != out.shape or not torch.allclose(alt.detach(), out.detach(), rtol=1e-12, atol=1e-12 * scale):
                        FAILS.append(dict(condition=type(self).__name__, violated='enforce() on coordinates that do not require grad gives other '
                                          'values than on the same coordinates requiring grad',
                                          parameters={k: v for k, v in self.__dict__.items() if isinstance(v, (int, float))},
                                          coordinates=[c.detach().reshape(-1).tolist() for c in coordinates],
                                          with_grad=out.detach().reshape(-1).tolist()[:8], without_grad=alt.detach().reshape(-1).tolist()[:8]))
                    # coordinate buffers that do not require grad, refilled in place and used again: the answer is about the values
                    # they hold now; and a result handed out earlier is not overwritten by a later call
                    STATE['phase'] = 'refill'
                    bufs = [c.detach().clone() for c in coordinates]
                    first = orig(self, net, *bufs)
                    first_copy = first.detach().clone()
                    with torch.no_grad():
                        for b_ in bufs:
                            b_.add_(0.0625)
                    again = orig(self, net, *bufs)
                    fresh = orig(self, net, *[b_.clone() for b_ in bufs])
                    if again.shape != fresh.shape or not torch.allclose(again.detach(), fresh.detach(), rtol=1e-12, atol=1e-12 * scale):
                        FAILS.append(dict(condition=type(self).__name__, violated='coordinate buffers refilled in place: enforce() still answers for the '
                                          'values they held before', parameters={k: v for k, v in self.__dict__.items() if isinstance(v, (int, float))},
                                          refilled=again.detach().reshape(-1).tolist()[:8], fresh_tensors=fresh.detach().reshape(-1).tolist()[:8]))
                    if not torch.equal(first.detach(), first_copy):
                        FAILS.append(dict(condition=type(self).__name__, violated='a result returned by an earlier enforce() call was overwritten by a later call'))
                    # the same inside torch.no_grad() (plotting / inference): an earlier result must survive later calls
                    try:
                        with torch.no_grad():
                            r1 = orig(self, net, *[c.detach().clone() for c in coordinates])
                            keep = r1.clone()
                            orig(self, net, *[c.detach().clone() + 0.25 for c in coordinates])
                            ok_ = torch.equal(r1, keep)
                    except Exception:
                        ok_ = True          # conditions that differentiate the network internally cannot run under no_grad: nothing to observe
                    if not ok_:
                        FAILS.append(dict(condition=type(self).__name__, violated='inside torch.no_grad(): a result returned by an earlier enforce() call '
                                          'was overwritten by a later call on other coordinates'))
                    # a network that overwrites its input batch (in-place normalisation): the batch handed to the network is private
                    # to enforce(), so the coordinates the condition itself reads are untouched
                    STATE['phase'] = 'destroy-input'

                    def eater(x, _net=net):
                        y = _net(x.clone())
                        with torch.no_grad():
                            x.mul_(0).add_(7.5)
                        return y
                    alt2 = orig(self, eater, *coordinates)
                    if alt2.shape != out.shape or not torch.allclose(alt2.detach(), out.detach(), rtol=1e-12, atol=1e-12 * scale):
                        FAILS.append(dict(condition=type(self).__name__, violated='a network that overwrites its input batch in place changes what '
                                          'the condition computes (the condition reads the coordinates back from the network\'s input)',
                                          parameters={k: v for k, v in self.__dict__.items() if isinstance(v, (int, float))},
                                          normal=out.detach().reshape(-1).tolist()[:8], with_input_overwritten=alt2.detach().reshape(-1).tolist()[:8]))
                except Exception as e:
                    FAILS.append(dict(condition=type(self).__name__, violated='enforce() raises on coordinates that do not require grad',
                                      error=f'{type(e).__name__}: {e}'))
                finally:
                    STATE['phase'] = 'real'
            return out
        finally:
            STATE['phase'] = 'real'
            STATE['depth'] -= 1
            if STATE['depth'] == 0:
                _MEMO.clear()
    enforce._verif_wrapped = True
    enforce.__wrapped__ = orig
    return enforce


def _wrap_init(orig):
    """a condition whose numeric parameters are stored verbatim is built here with OTHER values first and then gets the
    intended values assigned to those public attributes - what a user does who re-uses a condition object with new
    parameters.  Anything derived from the parameters at construction time and kept (a cached thickness, a cached sign)
    then disagrees with the attributes.  If any numeric argument is not found verbatim among the attributes (the class
    converts or combines its arguments), or the other values are rejected, the object is built normally."""
    import functools

    @functools.wraps(orig)
    def __init__(self, *args, **kwargs):
        if not STATE['active'] or STATE['depth'] > 0 or STATE.get('init_depth', 0) > 0:
            return orig(self, *args, **kwargs)
        STATE['init_depth'] = 1
        try:
            sub = {}

            def perturb(v):
                if type(v) is float:
                    q = v * 1.25 + 0.625
                    sub[id(q)] = (q, v)
                    return q
                return v
            pa, pk = [perturb(a) for a in args], {k: perturb(v) for k, v in kwargs.items()}
            done = False
            if sub:
                try:
                    orig(self, *pa, **pk)
                    found = set()
                    for key, val in list(self.__dict__.items()):
                        if id(val) in sub and not key.startswith('_'):
                            found.add(id(val))
                    if found == set(sub):
                        for key, val in list(self.__dict__.items()):
                            if id(val) in sub and not key.startswith('_'):
                                setattr(self, key, sub[id(val)][1])
                        STATE['reassigned_ctor'] = STATE.get('reassigned_ctor', 0) + 1
                        done = True
                except Exception:
                    done = False
            if not done:
                try:
                    self.__dict__.clear()
                except Exception:
                    pass
                orig(self, *args, **kwargs)
        finally:
            STATE['init_depth'] = 0
    __init__._verif_wrapped = True
    return __init__


def install():
    """wrap `enforce` (and `__init__`) of every condition class (idempotent); returns the number of wrapped methods"""
    import neurodiffeq.conditions as C
    n = 0
    for cls in list(vars(C).values()):
        if isinstance(cls, type) and issubclass(cls, C.BaseCondition) and 'enforce' in cls.__dict__:
            f = cls.__dict__['enforce']
            if not getattr(f, '_verif_wrapped', False):
                setattr(cls, 'enforce', _wrap(f))
            n += 1
        if isinstance(cls, type) and issubclass(cls, C.BaseCondition) and cls is not C.BaseCondition and '__init__' in cls.__dict__:
            f = cls.__dict__['__init__']
            if not getattr(f, '_verif_wrapped', False):
                setattr(cls, '__init__', _wrap_init(f))
    STATE['installed'] = True
    STATE['active'] = True
    return n


def stats():
    return dict(decoy_rounds=STATE['decoy_rounds'], warmup_calls=STATE['warmups'], installed=STATE['installed'],
                conditions_built_with_reassigned_parameters=STATE.get('reassigned_ctor', 0))
