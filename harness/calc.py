"""Certificate generator for identities between traced expressions.

Given resolved expression trees (see ex.py) and the Lean names of the real variables, computes
  * the *structural* Lean text of `Ex.eval` of the tree (what `simp only [Ex.eval, ...]` produces),
  * a polynomial in atoms (variables, inverse atoms, sin/cos/exp/tanh atoms, symbol applications),
  * the relations between atoms (s^2+c^2=1, a*a^-1=1, exp 0 = 1, ...), each with a Lean proof,
  * an ideal-membership certificate `P = sum q_i g_i` found by sympy (untrusted) that Lean's
    `linear_combination` re-checks.
"""
import re
import sympy as sp
from .ex import tree_size


class CertFailure(Exception):
    """the identity could not be certified (it may be false)"""

    def __init__(self, msg, remainder=None):
        super().__init__(msg)
        self.remainder = remainder


def norm_inv(e):
    """push inverses down exactly as `simp only [mul_inv, ← inv_pow, inv_inv, inv_neg]` does"""
    op = e[0]
    if op in ('var', 'nat', 'rat', 'pi'):
        return e
    if op == 'inv':
        a = norm_inv(e[1])
        return _inv(a)
    if op in ('add', 'mul', 'atan2'):
        return (op, norm_inv(e[1]), norm_inv(e[2]))
    if op == 'neg':
        return ('neg', norm_inv(e[1]))
    if op == 'pow':
        return ('pow', norm_inv(e[1]), e[2])
    if op == 'un':
        return ('un', e[1], norm_inv(e[2]))
    if op == 'app':
        return ('app', e[1], e[2], tuple(norm_inv(a) for a in e[3]))
    raise ValueError(e)


def _inv(a):
    op = a[0]
    if op == 'mul':
        return ('mul', _inv(a[1]), _inv(a[2]))
    if op == 'pow':
        return ('pow', _inv(a[1]), a[2])
    if op == 'neg':
        return ('neg', _inv(a[1]))
    if op == 'inv':
        return a[1]
    return ('inv', a)


class Calc:
    def __init__(self, names, fn='I.fn'):
        self.names = list(names)          # Lean text of each variable (after evaluation of the environment)
        self.fn = fn
        self.varsym = {}                  # lean name -> sympy symbol
        self.atoms = []                   # dicts: sym, text, kind, size
        self.by_text = {}
        self.relations = []               # dicts: poly, hyp (name), decl (Lean line(s) proving it)
        self.pre = []                     # Lean lines (haves) to run before generalize
        self.merges = []                  # names of atom-merging rewrite lemmas
        self.app_canon = {}
        self.need_nonzero = []            # (text, poly) of prime inverse atoms: side conditions
        self._k = 0
        self._G = None
        self.hn_of = {}
        self._pyth = set()
        self.used = set()
        self._last_hn = None

    # ---------------------------------------------------------------------------------------------
    def _fresh(self, p):
        self._k += 1
        return f'{p}{self._k}'

    def _var(self, i):
        name = self.names[i]
        m = re.fullmatch(r'\(?\s*(-?\d+)\s*(:\s*ℝ)?\s*\)?', name)
        if m:   # an environment entry that is a numeral (e.g. evaluation at t = 0)
            return sp.Integer(int(m.group(1)))
        if name not in self.varsym:
            # variable names are Lean identifiers (possibly unicode); sympy symbol must be plain
            self.varsym[name] = sp.Symbol(f'v{len(self.varsym)}_')
        return self.varsym[name]

    def _atom(self, text, kind, size):
        if text in self.by_text:
            return self.by_text[text]
        a = dict(sym=sp.Symbol(self._fresh('a')), text=text, kind=kind, size=size)
        self.atoms.append(a)
        self.by_text[text] = a
        self._G = None
        return a

    def _relation(self, poly, decl_fn):
        name = self._fresh('hr')
        decl = decl_fn(name)
        if self._last_hn is not None:
            self.hn_of[self._last_hn] = name
            self._last_hn = None
        self.relations.append(dict(poly=sp.expand(poly), hyp=name, decl=decl))
        self.pre.append((f'rel:{name}', decl))
        self._G = None
        return name

    # ---------------------------------------------------------------------------------------------
    def gens(self):
        inv = [a['sym'] for a in self.atoms if a['kind'] == 'inv']
        dbl = [a['sym'] for a in self.atoms if a.get('dbl')]
        cos = [a['sym'] for a in self.atoms if a['kind'] == 'cos' and not a.get('dbl')]
        rest = [a['sym'] for a in self.atoms if a['kind'] not in ('inv', 'cos') and not a.get('dbl')]
        inv = [x for x in inv]
        return dbl + cos + inv + rest + list(self.varsym.values())

    def reduce(self, P):
        """(quotients, remainder) of P modulo the current relations"""
        P = sp.expand(P)
        if P == 0:
            return [], sp.Integer(0)
        G = [r['poly'] for r in self.relations]
        if not G:
            return [], P
        gens = [g for g in self.gens()]
        extra = sorted((P.free_symbols | set().union(*[g.free_symbols for g in G])) - set(gens), key=str)
        gens = gens + extra
        Q, rem = sp.reduced(P, G, *gens, order='lex')
        return Q, sp.expand(rem)

    def cert_text(self, Q):
        parts = []
        for q, r in zip(Q, self.relations):
            if q != 0:
                self.used.add(r['hyp'])
                parts.append(f'({self.sym_text(q)}) * {r["hyp"]}')
        return ' + '.join(parts) if parts else '0'

    def sym_text(self, e, raw=False):
        """sympy expression in atom symbols -> Lean text (atoms by generalized name, or raw text)"""
        e = sp.expand(e)
        rep = {}
        for name, s in self.varsym.items():
            rep[s] = sp.Symbol(name)
        for a in self.atoms:
            rep[a['sym']] = sp.Symbol(f"({a['text']})" if raw else a['sym'].name)
        s = sp.sstr(e.xreplace(rep), order='lex')
        return s.replace('**', '^')

    def prove_zero(self, P):
        """Lean tactic text proving `text = 0` style facts: returns certificate or raises"""
        Q, rem = self.reduce(P)
        if rem != 0:
            raise CertFailure('not zero modulo relations', rem)
        return self.cert_text_raw(Q)

    def cert_text_raw(self, Q):
        parts = []
        for q, r in zip(Q, self.relations):
            if q != 0:
                self.used.add(r['hyp'])
                parts.append(f'({self.sym_text(q, raw=True)}) * {r["hyp"]}')
        return ' + '.join(parts) if parts else '0'

    def is_zero(self, P):
        return self.reduce(P)[1] == 0

    # ---------------------------------------------------------------------------------------------
    def poly(self, e):
        """(sympy polynomial, structural Lean text) of a resolved, inverse-normalised tree"""
        op = e[0]
        if op == 'var':
            return self._var(e[1]), self.names[e[1]]
        if op == 'nat':
            return sp.Integer(e[1]), f'({e[1]}:ℝ)'
        if op == 'rat':
            return sp.Rational(e[1], e[2]), f'(({e[1]}:ℝ) / ({e[2]}:ℝ))'
        if op == 'pi':
            return self._atom('Real.pi', 'pi', 1)['sym'], 'Real.pi'
        if op == 'add':
            (p, s), (q, t) = self.poly(e[1]), self.poly(e[2])
            return p + q, f'({s} + {t})'
        if op == 'mul':
            (p, s), (q, t) = self.poly(e[1]), self.poly(e[2])
            return sp.expand(p * q), f'({s} * {t})'
        if op == 'neg':
            p, s = self.poly(e[1])
            return -p, f'(-{s})'
        if op == 'pow':
            p, s = self.poly(e[1])
            return sp.expand(p ** e[2]), f'({s} ^ {e[2]})'
        if op == 'inv':
            p, s = self.poly(e[1])
            if p.is_Number:
                if p == 0:
                    raise CertFailure('inverse of the constant 0')
                return 1 / p, f'({s})⁻¹'
            text = f'({s})⁻¹'
            new = text not in self.by_text
            a = self._atom(text, 'inv', tree_size(e))
            if new:
                hn = self._fresh('hn')
                self.need_nonzero.append(dict(text=s, poly=p, hyp=hn))
                self.pre.append((f'hn:{hn}', f'have {hn} : {s} ≠ 0 := by NZ_TAC'))
                self.hn_of[hn] = None
                self._last_hn = hn
                self._relation(p * a['sym'] - 1,
                               lambda nm, s=s, hn=hn: f'have {nm} : {s} * ({s})⁻¹ = 1 := mul_inv_cancel₀ {hn}')
            return a['sym'], text
        if op == 'un':
            f = e[1]
            p, s = self.poly(e[2])
            lean_f = {'exp': 'Real.exp', 'sin': 'Real.sin', 'cos': 'Real.cos', 'tanh': 'Real.tanh',
                      'log': 'Real.log', 'sqrt': 'Real.sqrt'}.get(f)
            text = f'|{s}|' if f == 'abs' else f'({lean_f} {s})'
            if text in self.by_text:
                return self.by_text[text]['sym'], text
            # same function of an argument that is equal modulo the relations: merge with the first occurrence
            key = ('un', f, sp.srepr(self.reduce(p)[1]))
            if key in self.app_canon:
                canon = self.app_canon[key]
                hm = self._fresh('hm')
                cert = self.prove_zero(p - canon['p'])
                fn = '(fun z_ : ℝ => |z_|)' if f == 'abs' else lean_f
                self.pre.append((None, f'have {hm} : {text} = {canon["text"]} := congrArg {fn} '
                                f'(show ({s} : ℝ) = {canon["s"]} from by linear_combination {cert})'))
                self.merges.append(hm)
                self.by_text[text] = canon['atom']
                return canon['atom']['sym'], text
            a = self._atom(text, f, tree_size(e))
            self.app_canon[key] = dict(atom=a, text=text, p=p, s=s)
            self._un_relations(f, a, p, s)
            return a['sym'], text
        if op == 'app':
            f, mi, args = e[1], e[2], e[3]
            ps = [self.poly(x) for x in args]
            n = len(args)
            mit = '![' + ', '.join(str(m) for m in mi) + ']'
            text = f'({self.fn} {f} {n} {mit} ![' + ', '.join(s for _, s in ps) + '])'
            if text in self.by_text:
                return self.by_text[text]['sym'], text
            # canonical key: arguments modulo the relations
            key = (f, mi, tuple(sp.srepr(self.reduce(p)[1]) for p, _ in ps))
            if key in self.app_canon:
                canon = self.app_canon[key]
                # merge: rewrite this occurrence into the canonical one
                hm = self._fresh('hm')
                steps, chain = [], []
                cur = [s for _, s in ps]
                mit_ = '![' + ', '.join(str(m) for m in mi) + ']'
                for j, ((p, s), (p0, s0)) in enumerate(zip(ps, canon['args'])):
                    if s != s0:
                        cert = self.prove_zero(p - p0)
                        q = f'q{j}_'
                        steps.append(f'have {q} : ({s} : ℝ) = {s0} := by linear_combination {cert}')
                        pat = list(cur)
                        pat[j] = 'z_'
                        chain.append(f'(congrArg (fun z_ : ℝ => {self.fn} {f} {n} {mit_} ![' + ', '.join(pat) + f']) {q})')
                        cur[j] = s0
                if chain:
                    term = chain[-1]
                    for c in reversed(chain[:-1]):
                        term = f'({c}.trans {term})'
                    steps.append(f'exact {term}')
                else:
                    steps.append('rfl')
                self.pre.append((None, f'have {hm} : {text} = {canon["text"]} := by\n    ' + '\n    '.join(steps)))
                self.merges.append(hm)
                self.by_text[text] = canon['atom']
                return canon['atom']['sym'], text
            a = self._atom(text, 'app', tree_size(e))
            self.app_canon[key] = dict(atom=a, text=text, args=ps)
            return a['sym'], text
        if op == 'atan2':
            (p, s), (q, t) = self.poly(e[1]), self.poly(e[2])
            text = f'(atan2R {s} {t})'
            return self._atom(text, 'atan2', tree_size(e))['sym'], text
        raise ValueError(e)

    def _un_relations(self, f, a, p, s):
        zero = self.is_zero(p)
        if zero:
            cert = self.prove_zero(p)
            val = {'exp': 1, 'cos': 1, 'sin': 0, 'tanh': 0, 'abs': 0, 'sqrt': 0}.get(f)
            lem = {'exp': 'Real.exp_zero', 'cos': 'Real.cos_zero', 'sin': 'Real.sin_zero', 'tanh': 'Real.tanh_zero',
                   'abs': 'abs_zero', 'sqrt': 'Real.sqrt_zero'}.get(f)
            if val is not None:
                self._relation(a['sym'] - val, lambda nm: (
                    f'have {nm} : {a["text"]} = {val} := by\n'
                    f'    rw [show ({s} : ℝ) = 0 from by linear_combination {cert}]; exact {lem}'))
            return
        if f in ('sin', 'cos') and len(p.free_symbols) >= 1:
            # double angle: the argument is exactly 2 * q with q the argument of existing sin/cos atoms
            half = sp.expand(p / 2)
            for b in list(self.atoms):
                if b['kind'] in ('sin', 'cos') and b is not a and b.get('argpoly') is not None and sp.expand(b['argpoly'] - half) == 0:
                    st, ct = f'(Real.sin {b["arg"]})', f'(Real.cos {b["arg"]})'
                    # make sure both half-angle atoms exist
                    sa = self.by_text.get(st) or self._atom(st, 'sin', 2)
                    ca = self.by_text.get(ct) or self._atom(ct, 'cos', 2)
                    for x, t_ in ((sa, 'sin'), (ca, 'cos')):
                        x.setdefault('argpoly', half); x.setdefault('arg', b['arg'])
                    if not self._has_pyth(sa, ca):
                        self._pyth.add((sa['sym'], ca['sym']))
                        self._relation(sa['sym'] ** 2 + ca['sym'] ** 2 - 1, lambda nm, sa=sa, ca=ca: (
                            f'have {nm} : {sa["text"]} ^ 2 + {ca["text"]} ^ 2 = 1 := Real.sin_sq_add_cos_sq _'))
                    cert = self.prove_zero(p - 2 * half)
                    a['dbl'] = True
                    self._G = None
                    if f == 'sin':
                        self._relation(a['sym'] - 2 * sa['sym'] * ca['sym'], lambda nm, sa=sa, ca=ca, b=b: (
                            f'have {nm} : {a["text"]} = 2 * {sa["text"]} * {ca["text"]} := by\n'
                            f'    rw [show ({s} : ℝ) = 2 * {b["arg"]} from by linear_combination {cert}]; exact Real.sin_two_mul _'))
                    else:
                        self._relation(a['sym'] - (2 * ca['sym'] ** 2 - 1), lambda nm, ca=ca, b=b: (
                            f'have {nm} : {a["text"]} = 2 * {ca["text"]} ^ 2 - 1 := by\n'
                            f'    rw [show ({s} : ℝ) = 2 * {b["arg"]} from by linear_combination {cert}]; exact Real.cos_two_mul _'))
                    break
        if f in ('sin', 'cos'):
            a['argpoly'], a['arg'] = p, s
            other = 'cos' if f == 'sin' else 'sin'
            ot = f'(Real.{other} {s})'
            if ot in self.by_text and not self._has_pyth(a if f == 'sin' else self.by_text[ot], a if f == 'cos' else self.by_text[ot]):
                sa = a if f == 'sin' else self.by_text[ot]
                ca = a if f == 'cos' else self.by_text[ot]
                self._pyth.add((sa['sym'], ca['sym']))
                self._relation(sa['sym'] ** 2 + ca['sym'] ** 2 - 1, lambda nm: (
                    f'have {nm} : {sa["text"]} ^ 2 + {ca["text"]} ^ 2 = 1 := Real.sin_sq_add_cos_sq _'))
        if f == 'exp':
            # exp a * exp b = 1 when a + b = 0 modulo relations
            for b in self.atoms:
                if b is a or b['kind'] != 'exp' or 'poly' not in b:
                    continue
                if self.is_zero(p + b['poly']):
                    cert = self.prove_zero(p + b['poly'])
                    self._relation(a['sym'] * b['sym'] - 1, lambda nm, b=b: (
                        f'have {nm} : {a["text"]} * {b["text"]} = 1 := by\n'
                        f'    rw [← Real.exp_add, show ({s} + {b["arg"]} : ℝ) = 0 from by linear_combination {cert}]; '
                        f'exact Real.exp_zero'))
            a['poly'], a['arg'] = p, s

    # ---------------------------------------------------------------------------------------------
    def pre_lines(self):
        """the `have` lines actually needed: relations with a non-zero quotient somewhere, and their side conditions"""
        out = []
        for tag, text in self.pre:
            if tag is None:
                out.append(text)
            elif tag.startswith('rel:'):
                if tag[4:] in self.used:
                    out.append(text)
            elif tag.startswith('hn:'):
                if self.hn_of.get(tag[3:]) in self.used:
                    out.append(text)
        return out

    # ---------------------------------------------------------------------------------------------
    def nz_lines(self, p, name, var_tactic, depth=0):
        """Lean lines proving `have <name> : <raw text of p> ≠ 0` for a polynomial p in variable/atom symbols:
        clear the prime inverse atoms (a·d = 1), factor the numerator, prove every factor non-zero
        (factors in the variables only: `var_tactic`; factors ±(1 - exp a): a ≠ 0, recursively)."""
        if depth > 3:
            raise CertFailure('non-vanishing proof too deep')
        p = sp.expand(p)
        text = self.sym_text(p, raw=True)
        inv = {}
        for rec in self.need_nonzero:
            a = self.by_text.get(f'({rec["text"]})⁻¹')
            if a is not None:
                inv[a['sym']] = rec
        D, Dtext = sp.Integer(1), []
        for a, rec in inv.items():
            k = sp.Poly(p, a).degree() if p.has(a) else 0
            if k > 0:
                D = D * rec['poly'] ** k
                Dtext.append(f'(({rec["text"]}) ^ {k})')
                self.used.add(self.hn_of[rec['hyp']])
        num = sp.expand(sp.cancel(sp.together(p.subs({a: 1 / rec['poly'] for a, rec in inv.items()}) * D)))
        if any(num.has(a) for a in inv):
            raise CertFailure('could not clear inverse atoms')
        if num == 0:
            raise CertFailure('coefficient is identically zero')
        c, factors = sp.factor_list(num)
        lines = []
        ftexts, fproofs = [], []
        exp_atoms = {a['sym']: a for a in self.atoms if a['kind'] == 'exp'}
        var_syms = set(self.varsym.values())
        for i, (f, m) in enumerate(factors):
            fn = f'{name}_f{i}'
            ft = self.sym_text(f, raw=True)
            fs = f.free_symbols
            if fs <= var_syms:
                lines.append(f'have {fn} : ({ft}) ≠ 0 := by {var_tactic}')
            else:
                es = [e for e in fs if e in exp_atoms]
                if len(es) == 1 and fs - set(es) <= set() and sp.expand(f - (1 - es[0])) == 0:
                    ea = exp_atoms[es[0]]
                    lines += self.nz_lines(ea['poly'], fn + 'a', var_tactic, depth + 1)
                    et = self.sym_text(ea['poly'], raw=True)
                    lines.append(f'have {fn}b : ({ea["arg"]}) ≠ 0 := by\n    rw [show ({ea["arg"]} : ℝ) = {et} from by ring]; exact {fn}a')
                    lines.append(f'have {fn} : ({ft}) ≠ 0 := by\n    have := NdeVerif.one_sub_exp_ne_zero {fn}b\n    intro hh_; apply this; linear_combination hh_')
                elif len(es) == 1 and fs - set(es) <= set() and sp.expand(f - (es[0] - 1)) == 0:
                    ea = exp_atoms[es[0]]
                    lines += self.nz_lines(ea['poly'], fn + 'a', var_tactic, depth + 1)
                    et = self.sym_text(ea['poly'], raw=True)
                    lines.append(f'have {fn}b : ({ea["arg"]}) ≠ 0 := by\n    rw [show ({ea["arg"]} : ℝ) = {et} from by ring]; exact {fn}a')
                    lines.append(f'have {fn} : ({ft}) ≠ 0 := by\n    have := NdeVerif.exp_sub_one_ne_zero {fn}b\n    intro hh_; apply this; linear_combination hh_')
                else:
                    raise CertFailure(f'no non-vanishing argument for the factor {f}')
            ftexts.append(f'(({ft}) ^ {m})')
            fproofs.append(f'(pow_ne_zero {m} {fn})')
        ct = self.sym_text(c, raw=True)
        prod_text, prod_proof = f'({ct})', f'(by norm_num : ({ct} : ℝ) ≠ 0)'
        for t_, pr in zip(ftexts, fproofs):
            prod_text, prod_proof = f'({prod_text} * {t_})', f'(mul_ne_zero {prod_proof} {pr})'
        Dt = '(1:ℝ)'
        for d_ in Dtext:
            Dt = f'({Dt} * {d_})'
        numf = c
        for f, m in factors:
            numf = numf * f ** m
        Q, rem = self.reduce(p * D - sp.expand(numf))
        if rem != 0:
            raise CertFailure('numerator identity failed', rem)
        cert = self.cert_text_raw(Q)
        lines.append(f'have {name}_id : ({text}) * {Dt} = {prod_text} := by linear_combination {cert}')
        lines.append(f'have {name} : ({text}) ≠ 0 := NdeVerif.ne_zero_of_mul_eq {name}_id {prod_proof}')
        return lines

    def _has_pyth(self, sa, ca):
        return (sa['sym'], ca['sym']) in self._pyth

    def generalize_lines(self):
        """generalize atoms, largest first, so nested atoms are matched in raw form"""
        lines = []
        for a in sorted(self.atoms, key=lambda a: -len(a['text'])):
            lines.append(f'generalize {a["text"]} = {a["sym"].name} at *')
        return lines
