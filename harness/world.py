"""Scenario worlds for the calc engine.

A *scenario* is a function `scen(w)` that builds neurodiffeq objects from `w.coord/param/net/fn` and
returns tensors.  It is run twice: in a `SymWorld` (symbolic tensors → expression DAG → Lean) and in a
`RealWorld` (float64 tensors, FCNN networks).  `replay(dag, realworld)` re-evaluates the DAG with torch
(using torch.autograd for `grad` nodes) and the result is compared with what the real code returned on
the same inputs: this validates the tracer and the scenario wiring on every run.
"""
import math
import random
import numpy as np
import torch
from .sym import SymT, SymNet, SymFn, Node, var, param, Untranslatable
from .ex import Ctx, to_tree

torch.set_default_dtype(torch.float64)


class SymWorld:
    symbolic = True

    def __init__(self):
        self.ctx = Ctx()
        self.params = []
        self.coords = []

    def coord(self, name, lo=None, hi=None):
        self.ctx.var(name)
        self.coords.append(name)
        return var(name)

    def param(self, name, lo=None, hi=None):
        self.ctx.var(name)
        self.params.append(name)
        return param(name)

    def net(self, name, n_in, n_out=1):
        return SymNet(name, n_out)

    def fn(self, name, arity=None, mi=None):
        return SymFn(name, mi)

    def tree(self, t, col=0):
        return to_tree(t.cols[col], self.ctx)

    def lift(self, p, like):
        """a parameter as a column (symbolically it already is one)"""
        return p

    def param_vec(self, name, k):
        """a (k,)-shaped tensor of parameters (broadcast over rows)"""
        from .sym import SymT as _S
        cols = []
        for j in range(k):
            self.ctx.var(f'{name}{j}')
            self.params.append(f'{name}{j}')
            cols.append(Node('var', (), f'{name}{j}'))
        return _S(cols)


class SmoothFn:
    """concrete smooth function of k columns with all mixed partials available through autograd.
    `variant` 0: generic nonlinear; 1: affine in every argument (constant partials: autograd returns gradients that do
    not require grad); 2: nonlinear in the first argument, affine in the others"""

    def __init__(self, rng, name, variant=0):
        self.rng, self.name, self.variant = rng, name, variant
        self.w = {}

    def __call__(self, *xs):
        # inside a wrapped `enforce` (harness/disturb.py) the same inputs give the same tensor object back, and the
        # warm-up call with other data gets other values
        from .disturb import memo_call
        return memo_call(('fn', self.name, id(self)), self.raw, xs)

    def raw(self, *xs):
        k = len(xs)
        if k not in self.w:
            r = random.Random(f'{self.name}/{k}')
            self.w[k] = ([r.uniform(-1.2, 1.2) for _ in range(k)], r.uniform(-1, 1),
                         [r.uniform(-0.8, 0.8) for _ in range(k)], r.uniform(-1, 1))
        a, b, c, d = self.w[k]
        s1 = sum(ai * x for ai, x in zip(a, xs)) + b
        s2 = sum(ci * x for ci, x in zip(c, xs)) + d
        if self.variant == 1:
            return s1 + 0.5 * s2
        if self.variant == 2:
            return torch.sin(a[0] * xs[0] + b) + s2
        return torch.sin(s1) + 0.5 * torch.tanh(s2) + 0.1 * s1 * s2


class RealWorld:
    symbolic = False

    def __init__(self, seed, n_rows=5):
        self.rng = random.Random(seed)
        self.fn_variant = seed % 3
        self.n = n_rows
        self.values = {}
        self.nets = {}
        self.fns = {}
        torch.manual_seed(self.rng.randrange(1 << 30))

    def coord(self, name, lo=-2.0, hi=2.0):
        if name not in self.values:
            v = torch.tensor([[self.rng.uniform(lo, hi)] for _ in range(self.n)], requires_grad=True)
            self.values[name] = v
        return self.values[name]

    def param(self, name, lo=-3.0, hi=3.0):
        if name not in self.values:
            self.values[name] = self.rng.uniform(lo, hi)
        return self.values[name]

    def lift(self, p, like):
        return torch.full_like(like, float(p), requires_grad=True)

    def param_vec(self, name, k):
        vals = [self.param(f'{name}{j}') for j in range(k)]
        return torch.tensor(vals)

    def net(self, name, n_in, n_out=1):
        if name not in self.nets:
            from neurodiffeq.networks import FCNN
            net = FCNN(n_input_units=n_in, n_output_units=n_out, hidden_units=(6, 5), actv=torch.nn.Tanh)
            self.nets[name] = net
        return self.nets[name]

    def fn(self, name, arity=None, mi=None):
        if name not in self.fns:
            self.fns[name] = SmoothFn(self.rng, name, self.fn_variant)
        base = self.fns[name]
        if mi is None or not any(mi):
            return base

        def partial_raw(*xs):
            xs = [x if x.requires_grad else x.clone().requires_grad_(True) for x in xs]
            u = base.raw(*xs)
            for i, m in enumerate(mi):
                for _ in range(m):
                    g, = torch.autograd.grad(u, xs[i], torch.ones_like(u), create_graph=True, allow_unused=True)
                    u = g if g is not None else torch.zeros_like(xs[i])
            return u

        def partial(*xs):
            from .disturb import memo_call
            return memo_call(('fn', name, id(base), tuple(mi)), partial_raw, xs)
        return partial


def replay(node, rw, memo=None):
    """evaluate a DAG node with torch in the concrete world `rw`"""
    memo = {} if memo is None else memo
    if node.id in memo:
        return memo[node.id]
    op = node.op
    ev = lambda n: replay(n, rw, memo)
    n = rw.n
    if op == 'var':
        v = rw.values[node.meta]
        r = v if isinstance(v, torch.Tensor) else torch.full((n, 1), float(v))
    elif op == 'const':
        r = torch.full((n, 1), float(node.meta))
    elif op == 'aux':
        r = torch.full((n, 1), float(node.meta), requires_grad=True)
    elif op == 'pi':
        r = torch.full((n, 1), math.pi)
    elif op == 'add':
        r = ev(node.args[0]) + ev(node.args[1])
    elif op == 'sub':
        r = ev(node.args[0]) - ev(node.args[1])
    elif op == 'mul':
        r = ev(node.args[0]) * ev(node.args[1])
    elif op == 'div':
        r = ev(node.args[0]) / ev(node.args[1])
    elif op == 'neg':
        r = -ev(node.args[0])
    elif op == 'pow':
        r = ev(node.args[0]) ** node.meta
    elif op == 'un':
        r = getattr(torch, node.meta)(ev(node.args[0]))
    elif op == 'atan2':
        r = torch.atan2(ev(node.args[0]), ev(node.args[1]))
    elif op == 'app':
        name, mi = node.meta
        args = [ev(a) for a in node.args]
        if '.' in name and name.split('.')[0] in rw.nets:
            base, j = name.rsplit('.', 1)
            r = rw.nets[base](torch.cat(args, dim=1))[:, int(j)].view(-1, 1)
        elif name in rw.nets:
            r = rw.nets[name](torch.cat(args, dim=1))
        else:
            r = rw.fn(name, mi=mi)(*args)
        if any(mi) and name in rw.nets:
            raise Untranslatable('network symbol with pre-set multi-index')
    elif op == 'grad':
        u, t = ev(node.args[0]), ev(node.args[1])
        if not u.requires_grad:      # a constant (e.g. the gradient of an affine field): its derivative is zero
            r = torch.zeros_like(t)
        else:
            g, = torch.autograd.grad(u, t, torch.ones_like(u), create_graph=True, allow_unused=True)
            r = g if g is not None else torch.zeros_like(t)
    else:
        raise Untranslatable(op)
    memo[node.id] = r
    return r


def tie_check(scen, seeds, n_rows=(1, 5), tol=1e-9, cols=None):
    """run `scen` symbolically and concretely; returns (sym outputs, stats) or raises AssertionError with a replay"""
    sw = SymWorld()
    outs = scen(sw)
    outs = outs if isinstance(outs, (tuple, list)) else (outs,)
    worst = 0.0
    count = 0
    for seed in seeds:
        for n in n_rows:
            rw = RealWorld(seed, n)
            real = scen(rw)
            real = real if isinstance(real, (tuple, list)) else (real,)
            memo = {}
            for so, ro in zip(outs, real):
                if so is None and ro is None:
                    continue
                for j, c in enumerate(so.cols):
                    val = replay(c, rw, memo)
                    rj = ro.reshape(n, -1)[:, j:j + 1]
                    err = ((val - rj).abs().max() / (1.0 + rj.abs().max())).item()
                    worst = max(worst, err)
                    count += 1
                    if not err <= tol:
                        raise AssertionError(dict(seed=seed, n=n, col=j, err=err,
                                                  values={k: (v.detach().reshape(-1).tolist() if isinstance(v, torch.Tensor) else v)
                                                          for k, v in rw.values.items()}))
    return sw, outs, dict(replays=count, worst_rel_err=worst)
