"""equations and boundary functions for the C18 persistence streams (module-level so that dill can pickle them by reference)"""
import torch
from neurodiffeq import diff


def ode(u, t):
    return [diff(u, t) + u]


def zero_ode(u, t):
    """an equation every function solves: the loss is exactly 0.0 from the first epoch on"""
    return [u * 0]


def ode_singular(u, t):
    """singular at t = 0 (u(0) = 1): a validation grid that contains 0 gives an infinite validation loss"""
    return [diff(u, t) + u / t]


def ode2(u, v, t):
    return [diff(u, t) - v, diff(v, t) + u]


def bode(u, t, a):
    return [diff(u, t) + a * u]


def pde(u, x, y):
    return [diff(u, x, order=2) + diff(u, y, order=2)]


def zero(z):
    return z * 0


def sinx(x):
    return torch.sin(x)


def ode_ens(w, t):
    return [diff(w[:, :1], t) - w[:, 1:2], diff(w[:, 1:2], t) + w[:, :1]]


class ClipSGD(torch.optim.SGD):
    """a user's subclass of a stock optimiser (gradient clipping before the step)"""

    def step(self, closure=None):
        for g in self.param_groups:
            torch.nn.utils.clip_grad_norm_(g['params'], 0.5)
        return super().step(closure)


class CountingNet(torch.nn.Module):
    """a network with a buffer that every forward pass updates (as BatchNorm's running statistics do)"""

    def __init__(self):
        super().__init__()
        self.lin = torch.nn.Linear(1, 1)
        self.NN = torch.nn.Sequential()
        self.register_buffer('calls', torch.tensor(0.0))

    def forward(self, x):
        with torch.no_grad():
            self.calls.add_(1.0)
        return self.lin(x)
