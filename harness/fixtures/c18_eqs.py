"""equations and boundary functions for the C18 persistence streams (module-level so that dill can pickle them by reference)"""
import torch
from neurodiffeq import diff


def ode(u, t):
    return [diff(u, t) + u]


def ode2(u, v, t):
    return [diff(u, t) - v, diff(v, t) + u]


def bode(u, t, a):
    return [diff(u, t) + a * u]


def pde(u, x, y):
    return [diff(u, x, order=2) + diff(u, y, order=2)]


def zero(z):
    return z * 0


def sinx(x):
    return torch.sin(x)
