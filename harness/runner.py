"""Common machinery of ./check: kernel runs, axiom audit, forbidden-token scan, evidence, verdicts."""
import fcntl
import hashlib
import json
import os
import re
import subprocess
import sys
import time

ROOT = os.path.dirname(os.path.dirname(os.path.abspath(__file__)))
LEAN = os.path.join(ROOT, 'lean')
ALLOWED_AXIOMS = {'propext', 'Classical.choice', 'Quot.sound'}
FORBIDDEN = re.compile(r'\b(sorry|admit|native_decide|bv_decide|implemented_by)\b|^\s*axiom\s|\bunsafe\s|maxHeartbeats\s+0\b', re.M)

TRUSTED_BASE = [
    'Lean 4.33.0 kernel; Mathlib v4.33.0 definitions (Real, HasDerivAt, HasFDerivAt, Real.exp/sin/cos/tanh, Complex.arg)',
    'axioms allowed: propext, Classical.choice, Quot.sound (audited with #print axioms on every run); no native_decide/bv_decide/sorry',
    'translator: harness/sym.py (tracer) + harness/ex.py, leangen.py (emitter), validated each run by numeric replay of every trace against the real code',
    'correspondence harness (Engine B): harness/*.py drivers, spies and canonicalisation',
    'PyTorch/NumPy elementwise ops compute the real functions they name up to rounding; torch.autograd.grad is modelled by Ex.D (validated in C03)',
    'sympy is untrusted: it only proposes certificates that the kernel re-checks',
]


class ToolFailure(RuntimeError):
    """the verification tooling itself failed (lake / lean driver / time-out): exit code 2, never a verdict"""


class Lock:
    def __init__(self, name='lake'):
        os.makedirs(os.path.join(LEAN, '.lake'), exist_ok=True)
        self.path = os.path.join(LEAN, '.lake', f'verif-{name}.lock')

    def __enter__(self):
        self.f = open(self.path, 'w')
        fcntl.flock(self.f, fcntl.LOCK_EX)
        return self

    def __exit__(self, *a):
        fcntl.flock(self.f, fcntl.LOCK_UN)
        self.f.close()


def run(cmd, cwd=None, timeout=3600, env=None, input=None):
    t = time.time()
    try:
        p = subprocess.run(cmd, cwd=cwd, capture_output=True, text=True, timeout=timeout, env=env, input=input)
        return p.returncode, p.stdout + p.stderr, time.time() - t
    except subprocess.TimeoutExpired as e:
        return 124, (e.stdout or '') + (e.stderr or '') if isinstance(e.stdout, str) else 'timeout', time.time() - t


def strip_comments(src):
    src = re.sub(r'/-.*?-/', '', src, flags=re.S)
    return re.sub(r'--.*', '', src)


def forbidden_scan(paths):
    hits = []
    for p in paths:
        if not os.path.exists(p):
            continue
        src = strip_comments(open(p).read())
        for m in FORBIDDEN.finditer(src):
            hits.append(f'{os.path.relpath(p, ROOT)}: {m.group(0).strip()}')
    return hits


def lean_sources():
    out = []
    for d, _, fs in os.walk(os.path.join(LEAN, 'NdeVerif')):
        for f in fs:
            if f.endswith('.lean'):
                out.append(os.path.join(d, f))
    for f in os.listdir(LEAN):
        if f.endswith('.lean'):
            out.append(os.path.join(LEAN, f))
    return sorted(out)


def theorem_spans(path):
    """[(name, first line, last line)] for every theorem in a Lean file"""
    spans = []
    lines = open(path).read().split('\n')
    cur = None
    for i, l in enumerate(lines, 1):
        m = re.match(r'\s*(?:private\s+)?(?:theorem|lemma)\s+([A-Za-z_][\w\.\']*)', l)
        if m or re.match(r'\s*(def|noncomputable def|namespace|end|example|instance|structure|inductive|abbrev)\b', l):
            if cur:
                spans.append((cur[0], cur[1], i - 1))
                cur = None
        if m:
            cur = (m.group(1), i)
    if cur:
        spans.append((cur[0], cur[1], len(lines)))
    return spans


def lake_build(module, timeout=3000):
    """build one module; returns (ok, per-theorem failures {name: message}, raw output, seconds)"""
    with Lock():
        rc, out, dt = run(['lake', 'build', module], cwd=LEAN, timeout=timeout)
    fails = {}
    if rc != 0:
        by_file = {}
        for m in re.finditer(r'error: (?:\S*?/)?(NdeVerif/[\w/]+\.lean):(\d+):(\d+): (.*)', out):
            by_file.setdefault(m.group(1), []).append((int(m.group(2)), m.group(4)))
        for f, errs in by_file.items():
            path = os.path.join(LEAN, f)
            spans = theorem_spans(path) if os.path.exists(path) else []
            for line, msg in errs:
                name = next((n for n, a, b in spans if a <= line <= b), f'{f}:{line}')
                fails.setdefault(name, msg[:300])
        if not fails:
            fails['<build>'] = out[-600:]
    return rc == 0, fails, out, dt


def audit_axioms(module, namespace, names, tag):
    """#print axioms for every theorem; returns {name: [axioms]} (empty list = no axioms)"""
    path = os.path.join(LEAN, '.lake', f'Audit_{tag}.lean')
    body = f'import {module}\n' + '\n'.join(f'#print axioms {namespace}.{n}' if namespace else f'#print axioms {n}' for n in names) + '\n'
    os.makedirs(os.path.dirname(path), exist_ok=True)
    open(path, 'w').write(body)
    with Lock():
        rc, out, dt = run(['lake', 'env', 'lean', path], cwd=LEAN, timeout=1200)
    res = {}
    for m in re.finditer(r"'([^']+)' depends on axioms: \[([^\]]*)\]", out):
        res[m.group(1).split('.')[-1] if namespace else m.group(1)] = [a.strip() for a in m.group(2).replace('\n', ' ').split(',') if a.strip()]
    for m in re.finditer(r"'([^']+)' does not depend on any axioms", out):
        res[m.group(1).split('.')[-1] if namespace else m.group(1)] = []
    return res, out, rc


class Report:
    """collects what one check run did and writes evidence/<id>.json"""

    def __init__(self, pid, tier, seed):
        self.pid, self.tier, self.seed = pid, tier, seed
        self.t0 = time.time()
        self.obligations = []     # names
        self.discharged = []
        self.failed = {}          # name -> reason
        self.coverage = {}
        self.assumptions = []
        self.violations = []      # (replay path, suffix)
        self.known = []
        self.samples = []
        self.notes = []

    def write_replay(self, payload, name=None):
        d = os.path.join(ROOT, 'replays')
        os.makedirs(d, exist_ok=True)
        h = hashlib.sha1(json.dumps(payload, sort_keys=True, default=str).encode()).hexdigest()[:10]
        path = os.path.join(d, f'{self.pid}-{name or h}.json')
        with open(path, 'w') as f:
            json.dump(payload, f, indent=1, sort_keys=True, default=str)
        return os.path.relpath(path, ROOT)

    def violation(self, payload, found_input=True, name=None):
        payload = dict(payload, property=self.pid, tier=self.tier, seed=self.seed, failing_input_found=found_input)
        path = self.write_replay(payload, name)
        self.violations.append((path, '' if found_input else ' no-failing-input-found'))

    def finish(self, level='proof', checker_cmd='cd lean && lake build', extra_trusted=()):
        cov = dict(self.coverage)
        cov.setdefault('obligations', len(self.obligations))
        cov.setdefault('discharged', len(self.discharged))
        cov.setdefault('checker_cmd', checker_cmd)
        cov.setdefault('trusted_base', TRUSTED_BASE + list(extra_trusted))
        cov.setdefault('samples', self.samples[:12] or [dict(obligation=o) for o in self.obligations[:5]])
        if self.failed:
            cov['failed_obligations'] = self.failed
        if self.known:
            cov['known_findings_reported'] = self.known
        if self.notes:
            cov['notes'] = self.notes
        ev = dict(property_id=self.pid, tier=self.tier, seed=self.seed, level=level, coverage=cov,
                  assumptions=self.assumptions, wall_s=round(time.time() - self.t0, 2), violations=len(self.violations))
        os.makedirs(os.path.join(ROOT, 'evidence'), exist_ok=True)
        with open(os.path.join(ROOT, 'evidence', f'{self.pid}.json'), 'w') as f:
            json.dump(ev, f, indent=1, default=str)
        for k in self.known:
            print(f'KNOWN-FINDING: property={self.pid} {k}')
        for path, sfx in self.violations:
            print(f'VIOLATION property={self.pid} replay={path}{sfx}')
        sys.stdout.flush()
        return 1 if self.violations else 0


def known_findings(pid):
    p = os.path.join(ROOT, 'known_findings.json')
    if not os.path.exists(p):
        return []
    data = json.load(open(p))
    return [f for f in data.get('findings', []) if f.get('property') == pid and f.get('status') == 'known']


def kernel_phase(rep, module, namespace, obligations, tag=None):
    """build `module`, audit axioms of `obligations`; fills rep.obligations/discharged/failed; returns ok"""
    tag = tag or rep.pid
    ok, fails, out, dt = lake_build(module)
    rep.coverage.setdefault('kernel_seconds', 0)
    rep.coverage['kernel_seconds'] = round(rep.coverage['kernel_seconds'] + dt, 1)
    names = list(obligations)
    rep.obligations += [n for n in names if n not in rep.obligations]
    bad = set()
    for n, msg in fails.items():
        base = n.split('.')[-1]
        hit = [o for o in names if o == base or o == n or base == o + '_dval' or base.startswith(o + '_aux')]
        if hit:
            for o in hit:
                rep.failed[o] = msg
                bad.add(o)
        else:
            # an error outside the obligations (definition, helper lemma): everything downstream is unproved
            rep.failed[n] = msg
            bad |= set(names)
    if ok:
        axs, aout, arc = audit_axioms(module, namespace, names, tag)
        for n in names:
            if n not in axs:
                rep.failed[n] = 'missing from #print axioms output (theorem not found)'
                bad.add(n)
            elif not set(axs[n]) <= ALLOWED_AXIOMS:
                rep.failed[n] = f'depends on non-allowed axioms {sorted(set(axs[n]) - ALLOWED_AXIOMS)}'
                bad.add(n)
        rep.coverage['axioms_seen'] = sorted(set(a for v in axs.values() for a in v))
    for n in names:
        if n not in bad and n not in rep.discharged:
            rep.discharged.append(n)
    hits = forbidden_scan(lean_sources())
    if hits:
        rep.coverage['forbidden_tokens'] = hits
    if ok and rep.tier == 'thorough':
        # independent re-check of the compiled module by the toolchain's leanchecker (replays every declaration
        # of the .olean through a fresh kernel instance)
        with Lock():
            rc, out, dt = run(['lake', 'env', 'leanchecker', module], cwd=LEAN, timeout=3000)
        rep.coverage.setdefault('leanchecker', {})[module] = dict(rc=rc, seconds=round(dt, 1))
        if rc != 0:
            rep.failed[f'leanchecker:{module}'] = out[-400:]
            bad |= set(names)
            for n in names:
                if n in rep.discharged:
                    rep.discharged.remove(n)
    return ok and not bad and not hits, hits


def run_driver(driver, stdin_text, timeout=1200):
    """run a Lean line-protocol driver (lean/drivers/<driver>.lean) on the given input; returns stdout lines"""
    with Lock():
        rc, out, dt = run(['lake', 'env', 'lean', '--run', f'drivers/{driver}.lean'], cwd=LEAN, timeout=timeout, input=stdin_text)
    lines = [l for l in out.split('\n') if l and not l.startswith('drivers/') and 'warning' not in l]
    if rc != 0:
        raise ToolFailure(f'driver {driver} failed (rc={rc}): {out[-800:]}')
    return lines, dt


def split_blocks(lines, sep='---'):
    blocks, cur = [], []
    for l in lines:
        if l == sep:
            blocks.append(cur)
            cur = []
        else:
            cur.append(l)
    if cur:
        blocks.append(cur)
    return blocks
