import argparse
import importlib
import os
import sys
import traceback


def main():
    ap = argparse.ArgumentParser()
    ap.add_argument('pid')
    ap.add_argument('--tier', default=os.environ.get('VERIF_TIER', 'quick'), choices=['quick', 'thorough'])
    ap.add_argument('--replay', default=None)
    a = ap.parse_args()
    seed = int(os.environ.get('VERIF_SEED', '0') or 0)
    try:
        mod = importlib.import_module(f'harness.props.{a.pid}')
    except ModuleNotFoundError:
        print(f'no check for {a.pid}')
        return 2
    try:
        if a.replay:
            return mod.replay(a.replay)
        return mod.check(a.tier, seed)
    except SystemExit:
        raise
    except Exception as e:
        traceback.print_exc()
        from .runner import ToolFailure, Report
        import subprocess
        if a.replay or isinstance(e, (ToolFailure, OSError, MemoryError, subprocess.SubprocessError, KeyboardInterrupt)):
            return 2
        # the evaluation of the real code's observations raised: what the code does no longer fits the harness that ties it to the
        # model, so the property is no longer shown to hold (DESIGN.md section 6); no failing input is at hand
        rep = Report(a.pid, a.tier, seed)
        rep.violation(dict(kind='unproved', broken=[dict(kind='harness-evaluation-error', error=f'{type(e).__name__}: {e}',
                                                         where=traceback.format_exc()[-1500:])],
                           note='the check could not evaluate the observations of the real code'), found_input=False, name='unproved')
        return rep.finish()


if __name__ == '__main__':
    sys.exit(main())
