import argparse
import importlib
import os
import sys
import traceback


def main():
    ap = argparse.ArgumentParser()
    ap.add_argument('pid')
    ap.add_argument('--tier', default=os.environ.get('VERIF_TIER', 'quick'), choices=['quick', 'thorough'])
    ap.add_argument('--replay', default=None)
    a = ap.parse_args()
    seed = int(os.environ.get('VERIF_SEED', '0') or 0)
    try:
        mod = importlib.import_module(f'harness.props.{a.pid}')
    except ModuleNotFoundError:
        print(f'no check for {a.pid}')
        return 2
    try:
        if a.replay:
            return mod.replay(a.replay)
        return mod.check(a.tier, seed)
    except SystemExit:
        raise
    except Exception:
        traceback.print_exc()
        return 2


if __name__ == '__main__':
    sys.exit(main())
