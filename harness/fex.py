"""Operation-order ("float-shaped") translation of traced code: Python mirror of lean/NdeVerif/Calc/FEx.lean.

The tracer's DAG keeps every operation of the source as written (`sub`, `div`, the order of the operands).  `to_ftree` turns a DAG
node into an FEx tree (nested tuples); `normC` mirrors the Lean simplifier clause by clause (it is used only to PREDICT the normal
form and to list the side conditions in the generated statement - the kernel evaluates the Lean definition itself); `FGenFile` emits
the module of definitions and "exact value at the constrained point" theorems, all instances of `FEx.exact_at`.

Trees:  ('var', i) ('zero',) ('one',) ('lit', p, q) ('pi',) ('add', a, b) ('sub', a, b) ('mul', a, b) ('div', a, b) ('neg', a)
        ('pow', a, n) ('un', f, a) ('app', f, (args...))   with 1 <= len(args) <= 5
"""
import os
from fractions import Fraction
from .sym import Untranslatable
from .leangen import Obligation


class Unsupported(Exception):
    pass


ZERO, ONE = ('zero',), ('one',)


def _const(q):
    q = Fraction(q)
    if q == 0:
        return ZERO
    if q == 1:
        return ONE
    return ('lit', q.numerator, q.denominator)


def _vars_of(node, ctx, seen=None, acc=None):
    seen = set() if seen is None else seen
    acc = [] if acc is None else acc
    if node.id in seen:
        return acc
    seen.add(node.id)
    if node.op == 'var':
        i = ctx.var(node.meta)
        if i not in acc:
            acc.append(i)
    for a in node.args:
        _vars_of(a, ctx, seen, acc)
    return acc


def to_ftree(node, ctx, memo=None, opaque=None):
    """DAG node -> FEx tree, operation for operation.  A derivative node (autograd inside the traced code) becomes an opaque
    function of the variables it depends on: its VALUE is all that the surrounding arithmetic sees."""
    memo = {} if memo is None else memo
    opaque = {} if opaque is None else opaque
    if node.id in memo:
        return memo[node.id]
    rec = lambda n: to_ftree(n, ctx, memo, opaque)
    op = node.op
    if op == 'var':
        r = ('var', ctx.var(node.meta))
    elif op in ('const', 'aux'):
        r = _const(node.meta)
    elif op == 'pi':
        r = ('pi',)
    elif op in ('add', 'sub', 'mul', 'div'):
        r = (op, rec(node.args[0]), rec(node.args[1]))
    elif op == 'neg':
        r = ('neg', rec(node.args[0]))
    elif op == 'pow':
        r = ('pow', rec(node.args[0]), int(node.meta))
    elif op == 'un':
        r = ('un', node.meta, rec(node.args[0]))
    elif op == 'app':
        name, mi = node.meta
        if any(mi):
            name = f'{name}^{tuple(mi)}'
        if not 1 <= len(node.args) <= 5:
            raise Unsupported(f'function symbol of arity {len(node.args)}')
        r = ('app', ctx.sym('F:' + name, len(node.args)), tuple(rec(a) for a in node.args))
    elif op == 'grad':
        from .ex import to_tree
        key = repr(to_tree(node, ctx))                 # structurally equal derivative nodes are the same opaque value
        vs = sorted(_vars_of(node, ctx))
        if not 1 <= len(vs) <= 5:
            raise Unsupported(f'derivative node depending on {len(vs)} variables')
        if key not in opaque:
            opaque[key] = ctx.sym(f'F:d#{len(opaque)}', len(vs))
        r = ('app', opaque[key], tuple(('var', v) for v in vs))
    else:
        raise Unsupported(f'node {op}')
    memo[node.id] = r
    return r


def subst(t, v, e):
    op = t[0]
    if op == 'var':
        return e if t[1] == v else t
    if op in ('zero', 'one', 'lit', 'pi'):
        return t
    if op in ('add', 'sub', 'mul', 'div'):
        return (op, subst(t[1], v, e), subst(t[2], v, e))
    if op == 'neg':
        return ('neg', subst(t[1], v, e))
    if op == 'pow':
        return ('pow', subst(t[1], v, e), t[2])
    if op == 'un':
        return ('un', t[1], subst(t[2], v, e))
    if op == 'app':
        return ('app', t[1], tuple(subst(a, v, e) for a in t[2]))
    raise Unsupported(op)


# ---- mirror of FEx.normC -------------------------------------------------------------------------------------------

def _finC(e):
    return [] if e[0] in ('zero', 'one', 'lit') else [('fin', e)]


def _mk_add(a, b):
    if a == ZERO:
        return b, []
    if b == ZERO:
        return a, []
    if a == ('neg', b):
        return ZERO, _finC(b)
    if b == ('neg', a):
        return ZERO, _finC(a)
    return ('add', a, b), []


def _mk_sub(a, b):
    if b == ZERO:
        return a, []
    if a == b:
        return ZERO, _finC(a)
    return ('sub', a, b), []


def _mk_mul(a, b):
    if a == ZERO:
        return ZERO, _finC(b)
    if b == ZERO:
        return ZERO, _finC(a)
    if a == ONE:
        return b, []
    if b == ONE:
        return a, []
    return ('mul', a, b), []


def _mk_div(a, b):
    if b == ONE:
        return a, []
    if a == ZERO:
        return ZERO, _finC(b) + [('nz', b)]
    if a == b:
        return ONE, _finC(a) + [('nz', a)]
    return ('div', a, b), []


def _mk_neg(a):
    return (ZERO, []) if a == ZERO else (('neg', a), [])


def _mk_pow(a, n):
    if n == 0:
        return ONE, []
    if n == 1:
        return a, []
    if a == ZERO:
        return ZERO, []
    if a == ONE:
        return ONE, []
    return ('pow', a, n), []


def _mk_un(f, a):
    if a == ZERO:
        return ({'exp': ONE, 'cos': ONE, 'sin': ZERO, 'tanh': ZERO, 'sqrt': ZERO, 'abs': ZERO}.get(f, ('un', f, a)), [])
    if a == ONE:
        return ({'sqrt': ONE, 'abs': ONE, 'log': ZERO}.get(f, ('un', f, a)), [])
    return ('un', f, a), []


def normC(t, memo=None):
    memo = {} if memo is None else memo
    k = id(t)
    if k in memo:
        return memo[k]
    op = t[0]
    if op in ('var', 'zero', 'one', 'lit', 'pi'):
        r = (t, [])
    elif op in ('add', 'sub', 'mul', 'div'):
        (a, ca), (b, cb) = normC(t[1], memo), normC(t[2], memo)
        x, c = {'add': _mk_add, 'sub': _mk_sub, 'mul': _mk_mul, 'div': _mk_div}[op](a, b)
        r = (x, ca + cb + c)
    elif op == 'neg':
        a, ca = normC(t[1], memo)
        x, c = _mk_neg(a)
        r = (x, ca + c)
    elif op == 'pow':
        a, ca = normC(t[1], memo)
        x, c = _mk_pow(a, t[2])
        r = (x, ca + c)
    elif op == 'un':
        a, ca = normC(t[2], memo)
        x, c = _mk_un(t[1], a)
        r = (x, ca + c)
    elif op == 'app':
        rs = [normC(a, memo) for a in t[2]]
        r = (('app', t[1], tuple(x for x, _ in rs)), [c for _, cs in rs for c in cs])
    else:
        raise Unsupported(op)
    memo[k] = r
    return r


def _syms_of(t, acc=None):
    acc = set() if acc is None else acc
    if t[0] == 'app':
        acc.add(t[1])
        for a in t[2]:
            _syms_of(a, acc)
    elif t[0] in ('add', 'sub', 'mul', 'div'):
        _syms_of(t[1], acc); _syms_of(t[2], acc)
    elif t[0] in ('neg', 'pow'):
        _syms_of(t[1], acc)
    elif t[0] == 'un':
        _syms_of(t[2], acc)
    return acc


# ---- printing ------------------------------------------------------------------------------------------------------

def lean_fex(t):
    op = t[0]
    if op == 'var':
        return f'(.var {t[1]})'
    if op == 'zero':
        return '.zero'
    if op == 'one':
        return '.one'
    if op == 'pi':
        return '.pi'
    if op == 'lit':
        p = f'({t[1]})' if t[1] < 0 else str(t[1])
        return f'(.lit {p} {t[2]})'
    if op in ('add', 'sub', 'mul', 'div'):
        return f'(.{op} {lean_fex(t[1])} {lean_fex(t[2])})'
    if op == 'neg':
        return f'(.neg {lean_fex(t[1])})'
    if op == 'pow':
        return f'(.pow {lean_fex(t[1])} {t[2]})'
    if op == 'un':
        return f'(.un .{t[1]} {lean_fex(t[2])})'
    if op == 'app':
        return f'(.app{len(t[2])} {t[1]} ' + ' '.join(lean_fex(a) for a in t[2]) + ')'
    raise Unsupported(op)


def lean_cond(c):
    return f'.{c[0]} {lean_fex(c[1])}'


def show(t, names, syms):
    """human-readable rendering for evidence files"""
    op = t[0]
    if op == 'var':
        return names[t[1]] if t[1] < len(names) else f'v{t[1]}'
    if op == 'zero':
        return '0'
    if op == 'one':
        return '1'
    if op == 'pi':
        return 'pi'
    if op == 'lit':
        return f'{t[1]}/{t[2]}' if t[2] != 1 else str(t[1])
    if op in ('add', 'sub', 'mul', 'div'):
        return '(' + show(t[1], names, syms) + {'add': ' + ', 'sub': ' - ', 'mul': ' * ', 'div': ' / '}[op] + show(t[2], names, syms) + ')'
    if op == 'neg':
        return '-' + show(t[1], names, syms)
    if op == 'pow':
        return show(t[1], names, syms) + f'^{t[2]}'
    if op == 'un':
        return f'{t[1]}(' + show(t[2], names, syms) + ')'
    if op == 'app':
        nm = syms[t[1]] if t[1] < len(syms) else f'f{t[1]}'
        return nm.replace('F:', '') + '(' + ', '.join(show(a, names, syms) for a in t[2]) + ')'
    return '?'


HEADER = """/- GENERATED by /verif/harness from /repo's current working tree. Do not edit.
   Operation-order model of the traced code and exactness of the constrained values in every arithmetic that satisfies
   the IEEE-754 identities `Arith.Exact` (see NdeVerif/Calc/FEx.lean). -/
import NdeVerif.Calc.FExSound
set_option maxRecDepth 8000
open NdeVerif NdeVerif.FEx
"""


class FGenFile:
    """a generated module `NdeVerif.Gen.<pid>` with FEx definitions and exactness theorems; has the interface that
    calcprop.check_calc expects of a part (pid, ns, obligations, failures, write)"""

    def __init__(self, pid, namespace=None):
        self.pid = pid
        self.ns = namespace or f'Gen{pid}'
        self.parts = []
        self.chunks = []
        self.obligations = []
        self.failures = []
        self.skipped = []        # (scenario, reason): traced code outside the FEx fragment
        self.exacts = []         # reduced single-substitution exactness theorems (the T module derives their real-valued corollaries)
        self.summary = []        # human-readable: theorem, value, side conditions

    def add_def(self, name, tree, comment=None):
        c = f'/-- {comment} -/\n' if comment else ''
        self.chunks.append(f'{c}def {name} : FEx :=\n  {lean_fex(tree)}\n')

    def thm_exact(self, name, defname, tree, subs, target, ctx, what=''):
        """subs: [(coordinate variable index, replacement FEx tree)] (one or two); target: FEx tree"""
        t = tree
        for v, e in subs:
            t = subst(t, v, e)
        nt, conds = normC(t)
        uniq = []
        for c in conds:
            if c not in uniq:
                uniq.append(c)
        ok = nt == target and ('nz', ZERO) not in uniq
        if not ok:
            self.failures.append((name, 'the exact identities alone do not reduce the traced code to the prescribed value: '
                                  + show(nt, ctx.vars, ctx.syms)[:300]))
        hl = '[' + ', '.join(lean_cond(c) for c in uniq) + ']'
        if len(subs) == 1:
            (v, e), = subs
            envtxt = f'(upd env {v} (FEx.eval A env {lean_fex(e)}))'
            lemma = f'exact_at L {defname} {v} {lean_fex(e)} {lean_fex(target)}'
        else:
            (v, e), (v2, e2) = subs
            envtxt = f'(upd (upd env {v2} (FEx.eval A env {lean_fex(e2)})) {v} (FEx.eval A (upd env {v2} (FEx.eval A env {lean_fex(e2)})) {lean_fex(e)}))'
            lemma = f'exact_at2 L {defname} {v} {lean_fex(e)} {v2} {lean_fex(e2)} {lean_fex(target)}'
        stmt = f'FEx.eval A {envtxt} {defname} = FEx.eval A env {lean_fex(target)}'
        self.chunks.append(
            f'/-- {what} -/\n'
            f'theorem {name} {{α : Type}} (A : Arith α) (fin : α → Prop) (L : A.Exact fin) (env : Nat → α)\n'
            f'    (hc : AllHold A fin env {hl}) :\n    {stmt} :=\n'
            f'  {lemma} (by decide) (allHold_mono (by decide) hc)\n')
        self.obligations.append(Obligation(name, 'exact', f'AllHold {hl} -> {stmt}', what))
        if ok and len(subs) == 1:
            self.exacts.append(dict(name=name, defname=defname, v=subs[0][0], e=subs[0][1], target=target, conds=uniq, what=what))
        self.summary.append(dict(theorem=name, value=show(target, ctx.vars, ctx.syms),
                                 at=[f'{ctx.vars[v]} := {show(e, ctx.vars, ctx.syms)}' for v, e in subs],
                                 side_conditions=[('finite ' if k == 'fin' else 'non-zero ') + show(e, ctx.vars, ctx.syms) for k, e in uniq],
                                 predicted=ok))
        return ok

    def thm_network_free(self, name, defname, tree, sub, ctx, what=''):
        """the value at the constrained point does not depend on the network, exactly: the normal form mentions neither the network
        symbol(s) nor an opaque derivative of it.  sub: (coordinate variable index, replacement tree)"""
        v, e = sub
        nt, conds = normC(subst(tree, v, e))
        uniq = []
        for c in conds:
            if c not in uniq:
                uniq.append(c)
        netsyms = [i for i, nm in enumerate(ctx.syms) if nm.startswith('F:N') or nm.startswith('F:d#')]
        used = _syms_of(nt)
        ok = not (set(netsyms) & used) and ('nz', ZERO) not in uniq
        if not ok:
            self.failures.append((name, 'the exact identities do not eliminate the network at the constrained point: ' + show(nt, ctx.vars, ctx.syms)[:300]))
        hl = '[' + ', '.join(lean_cond(c) for c in uniq) + ']'
        envtxt = f'(upd env {v} (FEx.eval A env {lean_fex(e)}))'
        mains = [i for i, nm in enumerate(ctx.syms) if nm.startswith('F:N')]
        for k, f in enumerate(mains):
            nm = name if len(mains) == 1 else f'{name}_{k}'
            stmt = f'FEx.eval (A.withApp {f} F\') {envtxt} {defname} = FEx.eval A {envtxt} {defname}'
            self.chunks.append(
                f'/-- {what} -/\n'
                f'theorem {nm} {{α : Type}} (A : Arith α) (fin : α → Prop) (L : A.Exact fin) (env : Nat → α) (F\' : List α → α)\n'
                f'    (hc : AllHold A fin env {hl}) (hc\' : AllHold (A.withApp {f} F\') fin env {hl}) :\n    {stmt} :=\n'
                f'  network_free_at L {defname} {v} {lean_fex(e)} {lean_fex(nt)} {f} F\' (by decide) (by decide) (by decide)\n'
                f'    (allHold_mono (by decide) hc) (allHold_mono (by decide) hc\')\n')
            self.obligations.append(Obligation(nm, 'network-free', f'AllHold {hl} (both networks) -> {stmt}', what))
        for f in netsyms:
            if f not in mains:      # opaque derivatives of the network must not survive either
                self.chunks.append(f'example : ({lean_fex(nt)} : FEx).mentions {f} = false := by decide\n')
        self.summary.append(dict(theorem=name, value=show(nt, ctx.vars, ctx.syms), at=[f'{ctx.vars[v]} := {show(e, ctx.vars, ctx.syms)}'],
                                 side_conditions=[('finite ' if k == 'fin' else 'non-zero ') + show(x, ctx.vars, ctx.syms) for k, x in uniq],
                                 predicted=ok, kind='independent of the network'))
        return ok

    def thm_same_ops(self, name, defname, tree, other, what=''):
        """the definition is, operation for operation, the given expression (decidable syntactic equality: no arithmetic law is used)"""
        ok = tree == other
        if not ok:
            self.failures.append((name, 'the two traces are not the same sequence of operations'))
        stmt = f'{defname} = {lean_fex(other)}'
        self.chunks.append(f'/-- {what} -/\ntheorem {name} :\n    {stmt} := by decide\n')
        self.obligations.append(Obligation(name, 'same-operations', stmt[:600], what))
        return ok

    def text(self):
        return HEADER + f'\nnamespace {self.ns}\n\n' + '\n'.join(self.chunks) + f'\nend {self.ns}\n'

    def write(self, path):
        t = self.text()
        old = open(path).read() if os.path.exists(path) else None
        if old != t:
            os.makedirs(os.path.dirname(path), exist_ok=True)
            with open(path, 'w') as f:
                f.write(t)
            return True
        return False


class TGenFile:
    """generated module `<pid>T`: FEx.toEx σ <scenario>_f = <scenario> (the Ex definition of the same trace), by rfl"""

    def __init__(self, pid, base):
        self.pid, self.base = pid, base
        self.ns = f'Gen{pid}'
        self.parts, self.chunks, self.obligations, self.failures, self.skipped = [], [], [], [], []
        self.imports = {f'NdeVerif.Gen.{base}X'}
        self.ties = {}

    def tie(self, name, sigma, module, ns):
        self.imports.add(module)
        arms = ' '.join(f'| {i} => {j}' for i, j in enumerate(sigma))
        sig = f'(fun {arms} | _ => 0)' if sigma else '(fun _ => 0)'
        thm = f'{name}_f_forgets_to_{name}'
        stmt = f'FEx.toEx {sig} Gen{self.base}X.{name}_f = {ns}.{name}'
        self.chunks.append(f'theorem {thm} :\n    {stmt} := rfl\n')
        self.obligations.append(Obligation(thm, 'same-expression', stmt, f'the operation-order translation of scenario {name} forgets to the Ex translation of the same trace'))
        self.ties[name] = (thm, sig, ns)

    def real_corollary(self, ex):
        """the exactness theorem `ex` (module <base>X), read in the arithmetic of the reals, as a statement about the Ex definition of the same
        scenario: a second, certificate-free derivation of the value clause.  Non-zero side conditions remain as a hypothesis."""
        scen = ex['defname'][:-2]
        if scen not in self.ties:
            return
        thm, sig, ns = self.ties[scen]
        nzs = [c for c in ex['conds'] if c[0] == 'nz']
        hl = '[' + ', '.join(lean_cond(c) for c in ex['conds']) + ']'
        nl = '[' + ', '.join(lean_cond(c) for c in nzs) + ']'
        A = f'(realArithOf I {sig})'
        name = ex['name'] + '_real'
        hyp = f' (hnz : FEx.AllHold {A} (fun _ => True) ρ {nl})' if nzs else ''
        stmt = (f'Ex.eval I (FEx.upd ρ {ex["v"]} (FEx.eval {A} ρ {lean_fex(ex["e"])})) {ns}.{scen} = FEx.eval {A} ρ {lean_fex(ex["target"])}')
        side = (f'(allHold_of_isFin_or _ ρ {hl} {nl} (by decide) hnz)' if nzs else f'(allHold_of_isFin _ ρ {hl} (by decide))')
        self.chunks.append(f'/-- {ex["what"]} - over the reals, about the Ex definition (derived from the operation-order theorem, no certificate) -/\n'
                           f'theorem {name} (I : Interp) (ρ : Nat → ℝ){hyp} :\n    {stmt} := by\n'
                           f'  rw [← {thm}, eval_toEx]\n'
                           f'  exact Gen{self.base}X.{ex["name"]} {A} (fun _ => True) (realArithOf_exact I {sig}) ρ {side}\n')
        self.obligations.append(Obligation(name, 'real-corollary', stmt[:500], ex['what'] + ' (real-valued corollary about the Ex definition)'))

    def text(self):
        head = ("/- GENERATED by /verif/harness from /repo's current working tree. Do not edit.\n   The two translations of every trace agree "
                "(FEx.toEx forgets the order of operations; see NdeVerif/Calc/FExToEx.lean). -/\nimport NdeVerif.Calc.FExToEx\n"
                + ''.join(f'import {m}\n' for m in sorted(self.imports)) + 'set_option maxRecDepth 8000\nopen NdeVerif\n')
        return head + f'\nnamespace {self.ns}\n\n' + '\n'.join(self.chunks) + f'\nend {self.ns}\n'

    def write(self, path):
        t = self.text()
        old = open(path).read() if os.path.exists(path) else None
        if old != t:
            os.makedirs(os.path.dirname(path), exist_ok=True)
            with open(path, 'w') as f:
                f.write(t)
            return True
        return False


def exact_part(g, pid, nodes, ctxs, specs, stats=None, ex_home=None):
    """attach the operation-order module `<pid>X` to the GenFile `g`.
    nodes: {scenario: DAG node of the traced result}; ctxs: {scenario: naming context of the trace};
    specs: [(theorem name, scenario, [(coordinate name, parameter name | 0)], target, what)] where target is a variable name or a
    function (ctx, F) -> FEx tree."""
    from .ex import Ctx
    fg = FGenFile(pid + 'X')
    g.parts.append(fg)
    ftrees, fctx = {}, {}
    for name in dict.fromkeys(s[1] for s in specs):
        if name not in nodes:
            fg.skipped.append((name, 'no such scenario'))
            continue
        c = Ctx()
        c.vars = list(ctxs[name].vars)
        try:
            ftrees[name] = to_ftree(nodes[name], c)
        except (Unsupported, Untranslatable) as e:
            fg.skipped.append((name, str(e)))
            continue
        fctx[name] = c
        fg.add_def(name + '_f', ftrees[name], f'traced from /repo, operation for operation: scenario {name}; variables {c.vars}; symbols {c.syms}')
    for thm, scen, subs, target, what in specs:
        if scen not in ftrees:
            continue
        c = fctx[scen]
        try:
            ss = [(c.vars.index(v), ZERO if at == 0 else ('var', c.vars.index(at))) for v, at in subs]
            if target == 'network-free':
                fg.thm_network_free(thm, scen + '_f', ftrees[scen], ss[0], c, what=what)
                continue
            tgt = ('var', c.vars.index(target)) if isinstance(target, str) else target(c)
        except (ValueError, Unsupported) as e:
            fg.skipped.append((thm, f'{type(e).__name__}: {e}'))
            continue
        fg.thm_exact(thm, scen + '_f', ftrees[scen], ss, tgt, c, what=what)
    g.exact_info = dict(module=f'NdeVerif.Gen.{pid}X', theorems=len(fg.obligations), scenarios_outside_the_fragment=fg.skipped,
                        examples=fg.summary[:: max(1, len(fg.summary) // 6)][:8], not_reduced=[n for n, _ in fg.failures],
                        meaning='the traced code, operation for operation, returns EXACTLY the prescribed value at the constrained point in every '
                                'arithmetic satisfying the IEEE-754 identities Arith.Exact, under the listed finiteness / non-zero side conditions')
    # third module: the two translations of each trace are the same expression once the order of operations is forgotten (rfl in the kernel)
    tg = TGenFile(pid + 'T', pid)
    ex_home = ex_home or {}
    for name, ft in ftrees.items():
        c = fctx[name]
        sigma, ok = [], True
        for nm in c.syms:
            base = nm[2:] if nm.startswith('F:') else nm
            if nm.startswith('F:d#') or '^' in nm or base not in ctxs[name].syms:
                ok = False
                break
            sigma.append(ctxs[name].syms.index(base))
        if not ok:
            tg.skipped.append((name, 'contains an autograd node / a derivative symbol (kept opaque in the operation-order model)'))
            continue
        module, ns = ex_home.get(name, (f'NdeVerif.Gen.{pid}', f'Gen{pid}'))
        tg.tie(name, sigma, module, ns)
    for ex_ in fg.exacts:
        tg.real_corollary(ex_)
    if tg.obligations:
        g.parts.append(tg)
    g.exact_info['same_expression_as_the_real_valued_model'] = dict(module=f'NdeVerif.Gen.{pid}T', theorems=len(tg.obligations),
                                                                   scenarios_with_opaque_derivatives=[n for n, _ in tg.skipped])
    from . import fexlaws
    g.exact_info['ieee_identities_sampled'] = fexlaws.sample()
    return fg


def app_of(name, *argnames):
    """target builder: the opaque function `name` applied to variables"""
    def build(c):
        return ('app', c.sym('F:' + name, len(argnames)), tuple(('var', c.vars.index(a)) for a in argnames))
    return build


def retarget(t, vars_from, vars_to, sym_map):
    """re-index the variables (by name) and the symbols (by the given index map) of an FEx tree"""
    op = t[0]
    if op == 'var':
        return ('var', vars_to.index(vars_from[t[1]]))
    if op in ('zero', 'one', 'lit', 'pi'):
        return t
    if op in ('add', 'sub', 'mul', 'div'):
        return (op, retarget(t[1], vars_from, vars_to, sym_map), retarget(t[2], vars_from, vars_to, sym_map))
    if op == 'neg':
        return ('neg', retarget(t[1], vars_from, vars_to, sym_map))
    if op == 'pow':
        return ('pow', retarget(t[1], vars_from, vars_to, sym_map), t[2])
    if op == 'un':
        return ('un', t[1], retarget(t[2], vars_from, vars_to, sym_map))
    if op == 'app':
        return ('app', sym_map[t[1]], tuple(retarget(a, vars_from, vars_to, sym_map) for a in t[2]))
    raise Unsupported(op)
