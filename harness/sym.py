"""Symbolic tracer: runs the REAL neurodiffeq code on symbolic tensors.

A `SymT` pretends to be a torch tensor of shape (N, k).  Every column is a `Node` of an expression DAG.
`__torch_function__` receives every torch.* call (including torch.autograd.grad) that gets a SymT.
Control flow on tensor *values* raises (`Untranslatable`), so a trace is a complete symbolic execution
of straight-line tensor code; Python-level configuration branches are enumerated by the callers.
"""
import math
from fractions import Fraction
import numpy as np
import torch

N_ROWS = 7  # nominal row count reported by .shape


class Untranslatable(Exception):
    pass


class Node:
    __slots__ = ('op', 'args', 'meta', 'id')
    _n = 0

    def __init__(self, op, args=(), meta=None):
        self.op, self.args, self.meta = op, tuple(args), meta
        Node._n += 1
        self.id = Node._n

    def __repr__(self):
        return f'<{self.op}#{self.id} {self.meta if self.meta is not None else ""}>'


def const_node(x):
    """exact constant from a Python / numpy number"""
    if isinstance(x, bool):
        raise Untranslatable('bool constant')
    if isinstance(x, (int, np.integer)):
        return Node('const', (), Fraction(int(x)))
    if isinstance(x, (float, np.floating)):
        x = float(x)
        if x == math.pi:
            return Node('pi')
        if x != x or x in (float('inf'), float('-inf')):
            raise Untranslatable(f'non-finite constant {x}')
        return Node('const', (), Fraction(repr(x)))
    if isinstance(x, Fraction):
        return Node('const', (), x)
    raise Untranslatable(f'constant of type {type(x)}')


class _Shape(tuple):
    def __new__(cls, n, k, flat=False):
        return super().__new__(cls, (n,) if flat else (n, k))

    def numel(self):
        r = 1
        for a in self:
            r *= a
        return r


class SymT:
    """symbolic tensor with `len(cols)` columns; `flat` means shape (N,) instead of (N,1)"""
    __array_ufunc__ = None
    __array_priority__ = 1000

    def __init__(self, cols, flat=False, row0=False):
        self.cols = list(cols)
        self.flat = flat
        self.row0 = row0  # a probe like x[0, 0]; only legal as argument of ones_like/zeros_like
        self.requires_grad = True
        self.grad_fn = None
        self.dtype = torch.get_default_dtype()
        self.device = torch.device('cpu')

    # ---- shape protocol -------------------------------------------------------------------------
    @property
    def shape(self):
        if self.row0:
            return torch.Size(())
        return torch.Size((N_ROWS,)) if self.flat else torch.Size((N_ROWS, len(self.cols)))

    def size(self, d=None):
        return self.shape if d is None else self.shape[d]

    def dim(self):
        return len(self.shape)

    def __len__(self):
        return N_ROWS

    def view(self, *a):
        return self._reshape(a)

    def reshape(self, *a):
        return self._reshape(a)

    def _reshape(self, a):
        if len(a) == 1 and isinstance(a[0], (tuple, list, torch.Size)):
            a = tuple(a[0])
        if len(self.cols) != 1:
            if tuple(a) in ((-1, len(self.cols)), (N_ROWS, len(self.cols))):
                return self
            raise Untranslatable(f'reshape of a {len(self.cols)}-column tensor to {a}')
        if len(a) == 2 and a[1] == 1:
            return SymT(self.cols)
        if len(a) == 1:
            return SymT(self.cols, flat=True)
        raise Untranslatable(f'reshape to {a}')

    def expand(self, *a):
        return SymT(self.cols, flat=self.flat)

    def expand_as(self, o):
        return SymT(self.cols, flat=self.flat)

    def requires_grad_(self, *a, **k):
        return self

    def clone(self):
        return self

    def to(self, *a, **k):
        return self

    def double(self):
        return self

    def float(self):
        return self

    def squeeze(self, *a):
        return self

    def unsqueeze(self, d):
        if len(self.cols) == 1 and d in (1, -1):
            return SymT(self.cols)
        raise Untranslatable('unsqueeze')

    def __bool__(self):
        raise Untranslatable('control flow depends on a tensor value')

    def __iter__(self):
        raise Untranslatable('iteration over a tensor')

    def __getitem__(self, idx):
        if isinstance(idx, tuple) and len(idx) == 2:
            r, c = idx
            if isinstance(r, int) and isinstance(c, int):
                return SymT([self.cols[c]], row0=True)
            if r == slice(None):
                if isinstance(c, int):
                    return SymT([self.cols[c]], flat=True)
                if isinstance(c, slice):
                    return SymT(self.cols[c])
        raise Untranslatable(f'indexing {idx!r}')

    # ---- arithmetic -----------------------------------------------------------------------------
    def _check(self):
        if self.row0:
            raise Untranslatable('arithmetic on a row-0 probe')

    @staticmethod
    def _lift(o, k):
        """turn `o` into a list of k column nodes (broadcast)"""
        if isinstance(o, SymT):
            o._check()
            if len(o.cols) == k:
                return o.cols
            if len(o.cols) == 1:
                return o.cols * k
            raise Untranslatable(f'broadcast {len(o.cols)} vs {k}')
        if isinstance(o, torch.Tensor):
            if o.dim() == 0:
                return [const_node(o.item())] * k
            vals = o.detach().reshape(-1).tolist()
            if o.dim() in (1, 2) and len(vals) == k and (o.dim() == 1 or o.shape[0] == 1):
                return [const_node(v) for v in vals]
            if len(vals) == 1:
                return [const_node(vals[0])] * k
            raise Untranslatable(f'real tensor of shape {tuple(o.shape)} mixed with symbolic tensor')
        if isinstance(o, np.ndarray):
            if o.ndim == 0:
                return [const_node(o.item())] * k
            raise Untranslatable('ndarray mixed with symbolic tensor')
        return [const_node(o)] * k

    @staticmethod
    def _width(a, b):
        ws = []
        for o in (a, b):
            if isinstance(o, SymT):
                ws.append(len(o.cols))
            elif isinstance(o, torch.Tensor) and o.dim() >= 1:
                ws.append(o.shape[-1])
            else:
                ws.append(1)
        return max(ws)

    @staticmethod
    def _bin(op, a, b):
        k = SymT._width(a, b)
        ca, cb = SymT._lift(a, k), SymT._lift(b, k)
        flat = all(getattr(o, 'flat', True) for o in (a, b) if isinstance(o, SymT))
        return SymT([Node(op, (x, y)) for x, y in zip(ca, cb)], flat=flat)

    def __add__(s, o): return SymT._bin('add', s, o)
    def __radd__(s, o): return SymT._bin('add', o, s)
    def __sub__(s, o): return SymT._bin('sub', s, o)
    def __rsub__(s, o): return SymT._bin('sub', o, s)
    def __mul__(s, o): return SymT._bin('mul', s, o)
    def __rmul__(s, o): return SymT._bin('mul', o, s)
    def __truediv__(s, o): return SymT._bin('div', s, o)
    def __rtruediv__(s, o): return SymT._bin('div', o, s)
    def _inplace(s, o):
        # in-place updates alias autograd buffers (e.g. `a -= b` where `a` is also another gradient output);
        # the expression DAG cannot express that, so the translator refuses instead of guessing
        raise Untranslatable('in-place update of a tensor (aliasing is not modelled)')
    __iadd__ = __isub__ = __imul__ = __itruediv__ = _inplace

    def __neg__(s):
        s._check()
        return SymT([Node('neg', (c,)) for c in s.cols], flat=s.flat)

    def __pos__(s):
        return s

    def __pow__(s, k):
        s._check()
        if isinstance(k, (float, np.floating)) and float(k).is_integer():
            k = int(k)
        if isinstance(k, (int, np.integer)) and k >= 0:
            return SymT([Node('pow', (c,), int(k)) for c in s.cols], flat=s.flat)
        if isinstance(k, (int, np.integer)) and k < 0:
            return SymT([Node('div', (const_node(1), Node('pow', (c,), int(-k)))) for c in s.cols], flat=s.flat)
        if k == 0.5:
            return s._un('sqrt')
        raise Untranslatable(f'power with exponent {k!r}')

    def __rpow__(s, o):
        raise Untranslatable('symbolic exponent')

    def _un(s, f):
        s._check()
        return SymT([Node('un', (c,), f) for c in s.cols], flat=s.flat)

    def exp(s): return s._un('exp')
    def sin(s): return s._un('sin')
    def cos(s): return s._un('cos')
    def tanh(s): return s._un('tanh')
    def log(s): return s._un('log')
    def sqrt(s): return s._un('sqrt')
    def abs(s): return s._un('abs')
    __abs__ = abs

    def sigmoid(s):
        return 1 / (1 + (-s).exp())

    def pow(s, k): return s ** k
    def square(s): return s ** 2
    def reciprocal(s): return 1 / s
    def neg(s): return -s
    def add(s, o): return s + o
    def sub(s, o): return s - o
    def mul(s, o): return s * o
    def div(s, o): return s / o
    true_divide = div

    def sum(s, dim=None, keepdim=False):
        if dim in (1, -1):
            acc = s.cols[0]
            for c in s.cols[1:]:
                acc = Node('add', (acc, c))
            return SymT([acc], flat=not keepdim)
        raise Untranslatable('sum over rows')

    def detach(s):
        raise Untranslatable('detach')

    def numpy(s):
        raise Untranslatable('numpy()')

    def item(s):
        raise Untranslatable('item()')

    def backward(s, *a, **k):
        raise Untranslatable('backward()')

    # ---- torch.* dispatch -----------------------------------------------------------------------
    _UN = {'exp': 'exp', 'sin': 'sin', 'cos': 'cos', 'tanh': 'tanh', 'log': 'log', 'sqrt': 'sqrt', 'abs': 'abs',
           'absolute': 'abs'}

    @classmethod
    def __torch_function__(cls, func, types, args=(), kwargs=None):
        kwargs = kwargs or {}
        name = getattr(func, '__name__', str(func))
        if name in cls._UN:
            return args[0]._un(cls._UN[name])
        if name == 'sigmoid':
            return args[0].sigmoid()
        if name == 'expm1':
            return args[0].exp() - 1
        if name in ('ones_like', 'zeros_like', 'full_like'):
            x = args[0]
            val = {'ones_like': 1, 'zeros_like': 0}.get(name, args[1] if len(args) > 1 else kwargs.get('fill_value'))
            k = len(x.cols)
            if kwargs.get('requires_grad', False) is True:
                # a fresh leaf with known value (the auxiliary boundary tensors of IBVP1D & co.)
                return SymT([Node('aux', (), Fraction(val)) for _ in range(k)], flat=x.flat and not x.row0)
            return SymT([const_node(val)] * k, flat=x.flat and not x.row0, row0=x.row0)
        if name == 'cat':
            ts = args[0]
            dim = kwargs.get('dim', args[1] if len(args) > 1 else 0)
            if dim not in (1, -1):
                raise Untranslatable('cat along rows')
            cols = []
            for t in ts:
                if not isinstance(t, SymT):
                    raise Untranslatable('cat of symbolic and real tensors')
                t._check()
                cols += t.cols
            return SymT(cols)
        if name == 'stack':
            raise Untranslatable('stack')
        if name == 'sum':
            return args[0].sum(dim=kwargs.get('dim', args[1] if len(args) > 1 else None),
                               keepdim=kwargs.get('keepdim', False))
        if name in ('add', '__add__', '__radd__'):
            return SymT._bin('add', args[0], args[1])
        if name in ('sub', '__sub__'):
            return SymT._bin('sub', args[0], args[1])
        if name == '__rsub__':
            return SymT._bin('sub', args[1], args[0])
        if name in ('mul', '__mul__', '__rmul__', 'multiply'):
            return SymT._bin('mul', args[0], args[1])
        if name in ('div', 'true_divide', '__truediv__', 'divide'):
            return SymT._bin('div', args[0], args[1])
        if name == '__rtruediv__':
            return SymT._bin('div', args[1], args[0])
        if name == 'neg':
            return -args[0]
        if name in ('pow', '__pow__'):
            return args[0] ** args[1]
        if name == 'square':
            return args[0] ** 2
        if name == 'reciprocal':
            return 1 / args[0]
        if name == 'atan2':
            a, b = args
            k = SymT._width(a, b)
            return SymT([Node('atan2', (x, y)) for x, y in zip(SymT._lift(a, k), SymT._lift(b, k))])
        if name == 'grad':  # torch.autograd.grad
            return sym_grad(*args, **kwargs)
        if name == 'unsqueeze':
            return args[0].unsqueeze(kwargs.get('dim', args[1] if len(args) > 1 else None))
        if name == 'squeeze':
            return args[0].squeeze()
        if name in ('is_tensor',):
            return True
        raise Untranslatable(f'torch function {name} on a symbolic tensor')


def depends(u, t, memo=None):
    memo = {} if memo is None else memo
    if u is t:
        return True
    if u.id in memo:
        return memo[u.id]
    r = any(depends(a, t, memo) for a in u.args)
    memo[u.id] = r
    return r


def sym_grad(outputs, inputs, grad_outputs=None, retain_graph=None, create_graph=False,
             only_inputs=True, allow_unused=None, **kw):
    """model of torch.autograd.grad(u, xs, grad_outputs=ones_like(u), create_graph=True, allow_unused=True)
    for single-column u: one Node('grad', (u, x)) per input, or None when x is not reachable."""
    outs = outputs if isinstance(outputs, (tuple, list)) else (outputs,)
    ins = inputs if isinstance(inputs, (tuple, list)) else (inputs,)
    if len(outs) != 1 or not isinstance(outs[0], SymT) or len(outs[0].cols) != 1:
        raise Untranslatable('autograd.grad of a multi-column or multiple outputs')
    if grad_outputs is not None:
        go = grad_outputs if isinstance(grad_outputs, (tuple, list)) else (grad_outputs,)
        for g in go:
            if not (isinstance(g, SymT) and all(c.op == 'const' and c.meta == 1 for c in g.cols)):
                raise Untranslatable('grad_outputs other than ones')
    if not create_graph:
        raise Untranslatable('autograd.grad without create_graph')
    u = outs[0].cols[0]
    res = []
    for x in ins:
        if not isinstance(x, SymT) or len(x.cols) != 1:
            raise Untranslatable('autograd.grad w.r.t. a non-column')
        t = x.cols[0]
        if t.op not in ('var', 'aux') and not t.args:
            raise Untranslatable('autograd.grad w.r.t. a constant')
        if depends(u, t):
            res.append(SymT([Node('grad', (u, t))]))
        else:
            if not allow_unused:
                raise Untranslatable('unused input without allow_unused')
            res.append(None)
    return tuple(res)


class SymNet:
    """an opaque network / smooth function symbol with `n_out` outputs; call with a (N, n_in) SymT"""

    def __init__(self, name, n_out=1):
        self.name, self.n_out = name, n_out
        self.calls = 0

    def __call__(self, x):
        if not isinstance(x, SymT):
            raise Untranslatable('network called on a real tensor during tracing')
        self.calls += 1
        args = tuple(x.cols)
        return SymT([Node('app', args, (f'{self.name}' if self.n_out == 1 else f'{self.name}.{j}',
                                        (0,) * len(args))) for j in range(self.n_out)])

    def parameters(self):
        return iter(())


class SymFn:
    """smooth user function of several (N,1) columns (boundary data f(theta, phi), g(t), a field F(x,y) ...)"""

    def __init__(self, name, mi=None):
        self.name, self.mi = name, mi

    def __call__(self, *xs):
        cols = []
        for x in xs:
            if not isinstance(x, SymT) or len(x.cols) != 1:
                raise Untranslatable('user function called on a non-column')
            cols.append(x.cols[0])
        mi = self.mi if self.mi is not None else (0,) * len(cols)
        return SymT([Node('app', tuple(cols), (self.name, tuple(mi)))])


class ParamT(SymT):
    """a numeric condition parameter.  Python truthiness of a parameter (used only by constructors'
    validity checks such as `x_min_val and x_min_prime`) is the generic case `value != 0`."""
    truthy_log = []

    def __bool__(self):
        import sys
        f = sys._getframe(1)
        while f is not None:
            if f.f_code.co_name == '__init__':
                ParamT.truthy_log.append(self.cols[0].meta)
                return True
            f = f.f_back
        # outside a constructor the value of a parameter must not steer control flow (a zero would take another branch)
        raise Untranslatable(f'truthiness of the numeric parameter {self.cols[0].meta!r} outside a constructor')


def var(name):
    return SymT([Node('var', (), name)])


def param(name):
    return ParamT([Node('var', (), name)])
