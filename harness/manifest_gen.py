"""writes MANIFEST.json from the table below (kept in one place so it stays valid)"""
import json, os
ROOT = os.path.dirname(os.path.dirname(os.path.abspath(__file__)))
BASE_NOTE = ("Trusted: Lean 4.33 kernel + Mathlib definitions; axioms propext/Classical.choice/Quot.sound only (audited per run); "
             "the tracer/emitter (validated per run by numeric replay against the real code) or the correspondence harness; "
             "PyTorch ops compute the functions they name up to rounding. Not modelled: floating-point rounding. ")
CHECKS = {
    'C01': dict(engine='calc', technique='Lean 4 theorems over a model re-translated from source on every run (symbolic trace of the real enforce() code, verified symbolic derivative D_sound, kernel-checked linear_combination certificates)',
                text='IVP (both modes), DirichletBVP and DoubleEndedBVP1D DD/DN/ND/NN, multi-network and ith-unit modes: value / HasDerivAt at the constrained points proved for every network symbol and all real parameters (t0 != t1 either orientation); away from the constrained points u = A + B*N(t) with explicit A, B not mentioning N(t) and B != 0 (non-vanishing proved from a regenerated factorisation). The traced definitions are regenerated from /repo each run and replayed numerically against the real code.',
                design='§7 C01'),
}

T = 'Lean 4 theorems over a model re-translated from source on every run (symbolic trace of the real code, verified symbolic derivative D_sound, kernel-checked linear_combination certificates)'
CHECKS.update({
    'C02': dict(engine='calc+state', technique=T, design='§7 C02',
                text='DirichletBVP2D: the four edge identities for every point of every edge; IBVP1D DD/DN/ND/NN: initial profile for all x, boundary value or HasDerivAt in x at both ends for all t; boundary data derived from one arbitrary smooth field symbol; all real rectangles x0 != x1, y0 != y1; also with ith_unit on a shared 2-output network. Irregular domain: model NdeVerif.Tps (generic scalar: Float in the driver, ℝ in the proofs) with theorems interp_at_control / enforce_at_control (prescribed value at every control point for every network output, given the coefficients solve the captured linear systems), tied to pde.CustomBoundaryCondition by a correspondence on captured systems, rows and random query points, plus the property evaluated at every input control point (star-shaped, U-, L-shaped and same-ray sets).',
                note='Partial: exactness of np.linalg.solve / conditioning of the thin-plate-spline system is runtime (residual observed each run); Neumann control points are not covered.'),
    'C08': dict(engine='calc', technique=T, design='§7 C08',
                text='Hand model for every number of coordinates (Proofs/C08.lean: gradM/divM/lapM with grad_sound, lap_sound, lapM_eq_div_grad, totality) tied term for term / by evaluation to the traced operators; grad/laplacian/div in 1..4 dimensions, curl, vector_laplacian, zero components for omitted coordinates, and the compositions div∘grad, curl∘grad, div∘curl, curl∘curl, laplacian∘laplacian: each traced output equals the textbook expression in partial-derivative atoms of arbitrary field symbols (true partials by D_sound).'),
    'C09': dict(engine='calc', technique=T, design='§7 C09',
                text='All 10 spherical/cylindrical operators (22 components): traced output = local-frame component of the Cartesian operator applied to an arbitrary Cartesian field symbol composed with the coordinate map, for r != 0, sin(theta) != 0 (rho != 0). Conversion helpers (traced, tied to reference functions): Cartesian->curvilinear->Cartesian is the identity everywhere, the converse on the principal ranges, documented ranges of r, theta, phi (hand-written Lean proofs over Complex.arg).',
                ),
    'C10': dict(engine='calc', technique=T, design='§7 C10',
                text='BundleIVP (value and derivative mode) and BundleDirichletBVP traced per lookup configuration over 4 extra columns (quick: fixed corner cases + seeded sample; thorough: all 675 configuration/mode pairs, names may share a column, plus negative indices; hand model Proofs/C10.lean (getParam with Python indexing, reference forms, theorems for any number of columns) tied to every traced table by a generated *_is_model theorem): row-wise value / HasDerivAt at t0_row (and t1_row) equals the routed parameter, for all networks and all column values (unused columns universally quantified).'),
    'C11': dict(engine='calc', technique=T + '; hand-written Lean proof of the limit clause over a certificate-checked reference form', design='§7 C11',
                text='DirichletBVPSpherical two-sided/one-sided, InfDirichletBVPSpherical and the three coefficient-space variants (per column, widths 1,3 quick / 1,2,9,25 thorough): boundary identities for all angles and both orientations; Tendsto to g as r -> infinity for every k > 0 and bounded network output (static analytic proof tied to the traced code by inf_eq_ref).'),
    'C12': dict(engine='calc', technique=T + '; rejection paths observed on the real code', design='§7 C12',
                text='EnsembleCondition over tuples of 1..4 closed-form sub-conditions: every traced column equals the sub-condition traced alone on that output; NoCondition is the identity for input widths 1..4 and output widths 1..4; ith_unit variants of all C01 conditions equal the condition on that single output (no other column occurs). Width mismatch / overridden-enforce rejection checked at run time on the real code.'),
})
TB = 'Lean 4 theorems (induction over call/operation sequences) about a hand-written executable model; model tied to the code by a line-protocol correspondence check on every run'
CHECKS.update({
    'C14': dict(engine='state', technique=TB, design='§7 C14',
                text='Model of BatchGenerator (per-dimension caches, refill loop with fuel, slice, drop). Proved for every source, batch size and number of calls: batches concatenated ++ cache = draws concatenated, in every dimension with the same cut points (no loss, duplication, reordering; rows stay paired); every batch has exactly batch_size entries when draws are non-empty (termination hypothesis). Correspondence: real BatchGenerator on spy leaves vs the model on the recorded draws, exact comparison.',
                note='Hypothesis of the size theorem: the underlying generator keeps producing non-empty draws (otherwise the real while-loop diverges).'),
})
CHECKS.update({
    'C04': dict(engine='state', technique=TB, design='§7 C04',
                text='Model of BaseSolver._run_epoch/fit (draws, per-batch closure evaluations, mean loss, plain vs closure-based optimiser steps, validation) plus routing models (bundle eq_param_index selection with the n_funcs+1 offset, spherical coordinate truncation, loss dispatch). Proved for all histories: exactly n_batches draws per phase; recorded loss = mean of batch losses at constant parameters (plain) ; one step per epoch (plain) / per batch (closure); validation changes no parameter; the whole training view (parameters, training losses/metrics, steps, draws) is independent of validation over any sequence of fits. Correspondence: all five real solver classes in a scripted world, event logs and per-epoch dumps compared exactly.',
                note='Partial: optimiser arithmetic and gradient accumulation are oracles (scripted integer optimisers); the residual/condition formulas are covered by C01, C02, C10-C12.'),
    'C05': dict(engine='state', technique=TB, design='§7 C05',
                text='BestInv proved by induction over any sequence of fit() calls/epochs/callback actions: lowest_loss is a lower bound of the tracked history attained at an index before which all entries are strictly larger, and best_nets is the snapshot taken at that index; snapshot = the parameters the recorded loss was computed with (validation, or plain optimiser without validation); best frozen unless strictly lower. The closure-optimiser/no-validation configuration is proved to violate reproducibility (decide witness) and is reported as a KNOWN-FINDING, replayed with real LBFGS.',
                note='Known finding: closure-based optimiser with n_batches_valid=0 (snapshot after the step).'),
    'C15': dict(engine='state', technique=TB, design='§7 C15',
                text='Proved over any sequence of fits: every metric series has one entry per epoch of its phase (LenInv), global epoch = train-loss length grows by one per epoch, validation series by one iff validation is on, local epoch = index of the epoch within the call and <= max_epochs, the loop ends right after the first epoch that requested a stop and the flag is cleared by the next fit, metric entries are batch means (last closure evaluation per batch for closure optimisers). Correspondence as C04/C05.',
                note='The metric-accumulation defect under closure optimisers was repaired in /repo (fix: 72f0a67); the model mirrors the repaired code.'),
})
TAB = 'Lean 4 theorems: verified symbolic derivative (D_sound, iterD_sound) + hand-written executable model of the diff loop and shape guards; autograd model tied to real torch.autograd by a random-program correspondence'
CHECKS.update({
    'C03': dict(engine='calc+state', technique=TAB, design='§7 C03',
                text='diffLoop (model of unsafe_diff incl. both None->zeros exits) = iterD for every expression and order >= 1; with D_sound/iterD_sound: diff is the k-th partial derivative for every total expression and smooth interpretation; zero when independent of t; zero above the polynomial degree (full polynomial fragment via Mathlib Polynomial); mixed/nested partials; shape guards accept iff both operands are (n,1) and equal. Correspondence: random typed programs (polynomials, sin/cos/exp/tanh, explicit FCNN) in 1..4 columns, orders 1..4, nestings, real neurodiffeq.diff vs Lean Float evaluation of the model; symbolic traces of the real loop; all 7225 shape pairs x 4 entry points.',
                note='Partial: the "differentiably" clause (requires_grad / backward succeeds / gradients of the result) is observed at run time, not proved.'),
    'C06': dict(engine='state', technique=TB, design='§7 C06',
                text='Model of get_solution(copy,best) aliasing (live vs frozen handles) and of BaseSolution.__call__ shapes: copy=True solutions are unaffected by any later sequence of fits; copy=False,best=False tracks the live parameters; best=True before any recorded loss is rejected; output shape = first coordinate (or (N,1) with no_reshape), list iff several unknowns. Correspondence: get_solution interleaved with fit() in the scripted world; 720 shape cases over 5 solution classes; bit-exact comparison of solution values and get_residuals with condition.enforce / the equations on real conditions and FCNNs (incl. SolutionSphericalHarmonics).',
                note='Partial: networks are values in the model; deepcopy fidelity, numpy conversion and dtype/device handling are runtime (observed).'),
    'C07': dict(engine='state', technique='Lean 4 theorems over the reals about a model generic in the scalar type (instantiated at Float for the driver and at ℝ for the proofs); correspondence on recorded RNG draws', design='§7 C07',
                text='Every (class, method) pair as a function of the recorded RNG draws: lengths/dimensions, in-domain for all non-noisy node families (linspace, Chebyshev 1st/2nd kind, log, exp, LHS), grid = tensor product in ij order (N-D by induction), determinism of fixed methods, injectivity in the draws for noisy methods and 1-D uniform, LHS one point per stratum for every permutation, spherical ranges and operand domains. Correspondence: real generators with wrapped RNG primitives vs the Float model (1e-9), RNG consumption per call, method tables of all constructors.',
                note='Known findings: spherical a=b=c=0 zero denominator; exp-spaced zero node never moves. RNG distributions are not modelled (supports only).'),
    'C13': dict(engine='state', technique=TB, design='§7 C13',
                text='Object-tree model of all combinators (constructor-time .size bookkeeping, child draw order, Static capture, Filter size updates, Mesh flattening, operator forms). Theorems: concat appends / size = sum; ensemble juxtaposes; mesh = all combinations exactly once in row-major order, size = product, nested meshes flattened; transform maps rows; filter keeps exactly passing rows and updates its size; resample rows come from one draw (distinct without replacement); static/predefined constant; sampler shape; rows stay paired for every tree; size = rows under SizeStable, with decide-witnesses of the stale-size finding. Correspondence: random trees to depth 4 (+ exhaustive depth <= 2 thorough) over spy leaves, values, shapes and every node size compared exactly.',
                note='Known finding: composite .size stale over a size-changing FilterGenerator.'),
    'C16': dict(engine='state', technique=TB, design='§7 C16',
                text='Model of condition callbacks (epoch predicates, repeated-metric family with so_far state, and/or/not/xor with short-circuiting), actions (stop, set-once loss/optimiser, Eve) and the fit loop. Theorems: evaluation of any pure tree = Boolean semantics; period/interval/first/last iff-characterisations (Python % = Int.emod); repeated-metric fires iff the last n steps satisfy the step predicate; action runs iff condition; stop ends the call after the current epoch; set-once/reset counts; SetOptimizer registers each distinct parameter once; Eve formula over ℝ (Mathlib logb/floor) under the stated boundary hypothesis, for every base double_at ≠ 1 (below or above 1). Correspondence inside real fit(): exhaustive truth tables (depth 2 quick / 3 thorough), fit sequences, scripted metric histories.',
                note='Boolean composition with stateful repeated-metric predicates is outside the property\'s quantifier and not checked.'),
    'C18': dict(engine='state', technique=TB, design='§7 C18',
                text='Model of save/load on the solver observables. Theorems: save changes nothing but the training generator position; load restores networks, best networks, lowest loss (given the C05 invariant), histories, global epoch, optimiser kind, loss function; the C05 invariant survives load and any further fits, for any number of save/load/fit cycles; decide-witness that the pre-repair load (lowest_loss not restored) breaks tracking. Correspondence: scripted save/load/fit cycles vs the model (exact), plus real networks/conditions/optimisers with dill as installed (save raises: solver must be untouched) and with byref=True (round trip).',
                note="Partial: dill byte fidelity, filesystem, hub upload are runtime. Stream C sets dill.settings['byref']=True (third-party setting) because dill 0.4.1 cannot pickle torch 2.14 optimiser classes by value in this sandbox."),
    'C19': dict(engine='calc+state', technique=TB + '; activation formulas via the translator (traced forward methods, certificate-checked)', design='§7 C19',
                text='Model of FCNN/Resnet constructors incl. legacy-argument translation and raising cases; theorems: exact layer list (2|hidden|+1, dimensions compatible, biases, bias-free skip), legacy = replacement, forward is row-wise by construction, monomial column order; Swish/APTx/Sin/Monomial forward traced from source and proved equal to the documented formulas; trainable-parameter table. Correspondence: architectures and forward values of the real modules (own weights) vs the Lean model, row independence bit-exact.',
                note='Partial: that torch evaluates a batch row by row is observed (net(x)[i] vs net(x[i:i+1]), perturbation of other rows), not proved.'),
    'C20': dict(engine='calc+state', technique=TB + '; approximator initial conditions via the translator', design='§7 C20',
                text='Approximators traced from source: u(x,0)=u0, second order also HasDerivAt in t = u0dot for every smooth network. Samplers as state machines over recorded torch.rand draws: every draw, however late, has point i in stratum i (1-D, temporal, segment, rectangle product), both bound orientations. Mini-batch loops: batches flatten to the permutation for all n, bs >= 1 (each point exactly once); one history entry per epoch per series. Correspondence: draws 1..5000 with generator frames compared, real _train_* with spy losses, real _solve_*.',
                note='Known finding: 1-point training sets (torch.squeeze to 0-d) raise in the legacy API.'),
})
CHECKS.update({
    'C17': dict(engine='calc', technique=T + '; explicit rounding bounds for the scipy Legendre coefficients (hand lemma abs_polyEval_le)', design='§7 C17',
                text='All 25 hard-coded harmonics traced from source: eigenfunctions of the angular Laplacian with eigenvalue -l(l+1), azimuthal order m (d²/dφ² = -m²) and sine/cosine type at φ=0, mutual orthogonality on the sphere (300 pairs, = 0 exactly) and the common normalisation (|∫∫Y²sinθ − π| ≤ 1e-7, 25 theorems) — pinning each column to its documented (l,m) and scale; RealSphericalHarmonics column order; RealFourierSeries terms; HarmonicsLaplacian = operators.spherical_laplacian of the expansion and FourierLaplacian = polar Laplacian for arbitrary coefficient symbols R_k(r) (max_degree 0..2 quick, 0..4 / Fourier 12 thorough); Legendre polynomials within 1e-10 of the exact P_l on [-1,1]; zonal columns = c_l P_l(cos θ) with c_l² within 1e-15 of (2l+1)/(4π); zonal Laplacian = spherical Laplacian minus an explicit residual bounded by 1e-8.',
                note='Fourier clause for every max_degree: hand model Proofs/C17F.lean (term/coeff/fourierLap, fourierLap_eq_polar for any number of columns) tied to the traced columns and operators. Orthogonality: all 300 pairs of the 25 traced harmonics have sphere integral exactly 0, and every squared norm is within 1e-7 of π (the source constants are 9-10 digit decimals, so π holds only up to that rounding) — proved from kernel-checked separations Y = A(θ)·B(φ) and antiderivative certificates (D_sound + fundamental theorem of calculus, Mathlib interval integrals). Legendre/zonal clauses hold up to the explicit rounding bounds of the scipy coefficients.'),
})
NOT_YET = {}

def main():
    props = [json.loads(l) for l in open(os.path.join(ROOT, 'properties.jsonl'))]
    checks = []
    for p in props:
        pid = p['id']
        if pid not in CHECKS:
            continue
        c = CHECKS[pid]
        checks.append(dict(
            property_id=pid, quick_cmd=f'./check {pid} --tier quick', thorough_cmd=f'./check {pid} --tier thorough',
            evidence_file=f'evidence/{pid}.json', replay_cmd_template=f'./check {pid} --replay {{path}}', engine=c['engine'],
            level_claimed=dict(category='proof', text=c['text'], design_ref=c['design']),
            level_note=BASE_NOTE + c.get('note', ''), technique=c['technique']))
    na = [dict(property_id=p['id'], reason=NOT_YET.get(p['id'], 'check not built yet in this round (planned: see DESIGN.md §7); not claimed until its machinery runs'))
          for p in props if p['id'] not in CHECKS]
    m = dict(version=1, setup_cmd='cd lean && lake build NdeVerif.Static && (lake build || echo "a regenerated module did not build from its committed copy; the checks regenerate and rebuild it")',
             hooks=dict(guard='NEURODIFFEQ_VERIF', enable='no source hooks: checks reach the code through public APIs, subclassing and harness-side wrapping; ./check exports NEURODIFFEQ_VERIF=1',
                        baseline_off_cmd='cd /repo && /venv/bin/python -m pytest -ra -q -p no:cacheprovider --timeout=900 --continue-on-collection-errors',
                        source_commits=[], add_only=True),
             engines=[dict(name='calc', path='harness/ + lean/NdeVerif/Calc + lean/NdeVerif/Gen', serves_properties=[k for k, v in CHECKS.items() if v['engine'] in ('calc', 'calc+state')],
                           kind_free_text='translator: symbolic tracer of the real Python code -> Lean Ex terms; verified symbolic differentiation; certificate-checked identities'),
                      dict(name='state', path='harness/ + lean/NdeVerif/Model + lean/NdeVerif/Proofs', serves_properties=[k for k, v in CHECKS.items() if v['engine'] in ('state', 'calc+state')],
                           kind_free_text='hand-written executable Lean models with inductive proofs; line-protocol correspondence against the real implementation')],
             checks=checks, notes='See DESIGN.md. Exit codes: 0 held, 1 violation (VIOLATION line), 2 tool failure/timeout.',
             not_applicable=na)
    json.dump(m, open(os.path.join(ROOT, 'MANIFEST.json'), 'w'), indent=1)

if __name__ == '__main__':
    main()
