"""Python mirror of lean/NdeVerif/Calc/Ex.lean: expression trees as nested tuples.

  ('var', i) ('nat', n) ('rat', p, q) ('pi',) ('add', a, b) ('mul', a, b) ('neg', a) ('inv', a) ('pow', a, n)
  ('un', f, a) ('atan2', a, b) ('app', f, mi, args)            -- mi, args tuples of equal length
and, only in *unresolved* trees (what is printed to Lean so that Lean computes the derivative itself):
  ('D', x, e)   ('subst', v, e, body)

`D`, `subst` mirror the Lean definitions clause by clause (they are used on the Python side only to
propose certificates and to evaluate numerically; the kernel never trusts them).
"""
from fractions import Fraction
from .sym import Node, Untranslatable

UFS = ('exp', 'sin', 'cos', 'tanh', 'log', 'sqrt', 'abs')


class Ctx:
    """naming context of one trace: variables and symbols get consecutive indices"""

    def __init__(self):
        self.vars = []      # names; index = position
        self.syms = []      # symbol names; index = position
        self.arity = {}

    def var(self, name):
        if name not in self.vars:
            self.vars.append(name)
        return self.vars.index(name)

    def fresh(self, hint='aux'):
        name = f'_{hint}{len(self.vars)}'
        self.vars.append(name)
        return len(self.vars) - 1

    def sym(self, name, arity):
        if name not in self.syms:
            self.syms.append(name)
            self.arity[name] = arity
        elif self.arity[name] != arity:
            raise Untranslatable(f'symbol {name} used with arities {self.arity[name]} and {arity}')
        return self.syms.index(name)


def frac_tree(q):
    q = Fraction(q)
    if q < 0:
        return ('neg', frac_tree(-q))
    if q.denominator == 1:
        return ('nat', q.numerator)
    return ('rat', q.numerator, q.denominator)


def to_tree(node, ctx, override=None, memo=None):
    """DAG node -> unresolved tree.  `override` maps node ids to trees (used for grad w.r.t. a non-leaf)."""
    override = override or {}
    memo = {} if memo is None else memo
    key = node.id
    if key in override:
        return override[key]
    if key in memo:
        return memo[key]
    op = node.op
    rec = lambda n: to_tree(n, ctx, override, memo)
    if op == 'var':
        r = ('var', ctx.var(node.meta))
    elif op == 'const':
        r = frac_tree(node.meta)
    elif op == 'aux':
        r = frac_tree(node.meta)
    elif op == 'pi':
        r = ('pi',)
    elif op == 'add':
        r = ('add', rec(node.args[0]), rec(node.args[1]))
    elif op == 'sub':
        r = ('add', rec(node.args[0]), ('neg', rec(node.args[1])))
    elif op == 'mul':
        r = ('mul', rec(node.args[0]), rec(node.args[1]))
    elif op == 'div':
        r = ('mul', rec(node.args[0]), ('inv', rec(node.args[1])))
    elif op == 'neg':
        r = ('neg', rec(node.args[0]))
    elif op == 'pow':
        r = ('pow', rec(node.args[0]), node.meta)
    elif op == 'un':
        r = ('un', node.meta, rec(node.args[0]))
    elif op == 'atan2':
        r = ('atan2', rec(node.args[0]), rec(node.args[1]))
    elif op == 'app':
        name, mi = node.meta
        r = ('app', ctx.sym(name, len(node.args)), tuple(mi), tuple(rec(a) for a in node.args))
    elif op == 'grad':
        u, t = node.args
        if t.op == 'var':
            r = ('D', ctx.var(t.meta), rec(u))
        else:
            # derivative with respect to an intermediate node: replace it by a fresh variable,
            # differentiate, substitute its expression back
            v = ctx.fresh()
            ov = dict(override)
            ov[t.id] = ('var', v)
            body = to_tree(u, ctx, ov, {})
            r = ('subst', v, rec(t), ('D', v, body))
    else:
        raise Untranslatable(f'node {op}')
    memo[key] = r
    return r


# ---- mirror of Ex.D / Ex.subst ------------------------------------------------------------------

def inc(mi, i):
    return tuple(m + 1 if j == i else m for j, m in enumerate(mi))


def D(x, e):
    op = e[0]
    if op == 'var':
        return ('nat', 1) if e[1] == x else ('nat', 0)
    if op in ('nat', 'rat', 'pi', 'atan2'):
        return ('nat', 0)
    if op == 'add':
        return ('add', D(x, e[1]), D(x, e[2]))
    if op == 'mul':
        return ('add', ('mul', D(x, e[1]), e[2]), ('mul', e[1], D(x, e[2])))
    if op == 'neg':
        return ('neg', D(x, e[1]))
    if op == 'inv':
        return ('neg', ('mul', D(x, e[1]), ('inv', ('pow', e[1], 2))))
    if op == 'pow':
        n = e[2]
        return ('mul', ('mul', ('nat', n), ('pow', e[1], max(n - 1, 0))), D(x, e[1]))
    if op == 'un':
        f, a = e[1], e[2]
        da = D(x, a)
        if f == 'exp':
            return ('mul', ('un', 'exp', a), da)
        if f == 'sin':
            return ('mul', ('un', 'cos', a), da)
        if f == 'cos':
            return ('mul', ('neg', ('un', 'sin', a)), da)
        if f == 'tanh':
            return ('mul', ('add', ('nat', 1), ('neg', ('pow', ('un', 'tanh', a), 2))), da)
        if f == 'log':
            return ('mul', ('inv', a), da)
        if f == 'sqrt':
            return ('mul', ('inv', ('mul', ('nat', 2), ('un', 'sqrt', a))), da)
        if f == 'abs':
            return ('mul', ('mul', a, ('inv', ('un', 'abs', a))), da)
    if op == 'app':
        f, mi, args = e[1], e[2], e[3]
        terms = [('mul', ('app', f, inc(mi, i), args), D(x, args[i])) for i in range(len(args))]
        # sumFin n g = add (g 0) (sumFin (n-1) ...) ... ending in nat 0
        acc = ('nat', 0)
        for t in reversed(terms):
            acc = ('add', t, acc)
        return acc
    raise ValueError(e)


def subst(v, s, b):
    op = b[0]
    if op == 'var':
        return s if b[1] == v else b
    if op in ('nat', 'rat', 'pi'):
        return b
    if op in ('add', 'mul', 'atan2'):
        return (op, subst(v, s, b[1]), subst(v, s, b[2]))
    if op in ('neg', 'inv'):
        return (op, subst(v, s, b[1]))
    if op == 'pow':
        return ('pow', subst(v, s, b[1]), b[2])
    if op == 'un':
        return ('un', b[1], subst(v, s, b[2]))
    if op == 'app':
        return ('app', b[1], b[2], tuple(subst(v, s, a) for a in b[3]))
    raise ValueError(b)


def resolve(e):
    """eliminate ('D', ..) and ('subst', ..) nodes"""
    op = e[0]
    if op == 'D':
        return D(e[1], resolve(e[2]))
    if op == 'subst':
        return subst(e[1], resolve(e[2]), resolve(e[3]))
    if op in ('var', 'nat', 'rat', 'pi'):
        return e
    if op in ('add', 'mul', 'atan2'):
        return (op, resolve(e[1]), resolve(e[2]))
    if op in ('neg', 'inv'):
        return (op, resolve(e[1]))
    if op == 'pow':
        return ('pow', resolve(e[1]), e[2])
    if op == 'un':
        return ('un', e[1], resolve(e[2]))
    if op == 'app':
        return ('app', e[1], e[2], tuple(resolve(a) for a in e[3]))
    raise ValueError(e)


def has_var(x, e):
    op = e[0]
    if op == 'var':
        return e[1] == x
    if op in ('nat', 'rat', 'pi'):
        return False
    if op == 'app':
        return any(has_var(x, a) for a in e[3])
    return any(has_var(x, a) for a in e[1:] if isinstance(a, tuple))


def tree_size(e):
    if e[0] == 'app':
        return 1 + sum(tree_size(a) for a in e[3])
    return 1 + sum(tree_size(a) for a in e[1:] if isinstance(a, tuple) and a and isinstance(a[0], str))


# ---- printing to Lean `Ex` ----------------------------------------------------------------------

def lean_ex(e):
    op = e[0]
    if op == 'var':
        return f'(.var {e[1]})'
    if op == 'nat':
        return f'(.nat {e[1]})'
    if op == 'rat':
        return f'(.rat {e[1]} {e[2]})'
    if op == 'pi':
        return '.pi'
    if op in ('add', 'mul', 'atan2'):
        return f'(.{op} {lean_ex(e[1])} {lean_ex(e[2])})'
    if op in ('neg', 'inv'):
        return f'(.{op} {lean_ex(e[1])})'
    if op == 'pow':
        return f'(.pow {lean_ex(e[1])} {e[2]})'
    if op == 'un':
        return f'(.un .{e[1]} {lean_ex(e[2])})'
    if op == 'app':
        n = len(e[3])
        mi = '![' + ', '.join(str(m) for m in e[2]) + ']'
        args = '![' + ', '.join(lean_ex(a) for a in e[3]) + ']'
        return f'(.app {e[1]} {n} {mi} {args})'
    if op == 'D':
        return f'(Ex.D {e[1]} {lean_ex(e[2])})'
    if op == 'subst':
        return f'(Ex.subst {e[1]} {lean_ex(e[2])} {lean_ex(e[3])})'
    raise ValueError(e)


def sexp(e):
    """canonical serialisation (for hashing / comparison)"""
    return repr(e)
