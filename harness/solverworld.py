"""Scripted world for the solver correspondence (C04, C05, C15, C06).

The REAL solver classes run in-process; everything the model treats as an oracle is scripted through public
constructor arguments so that histories are exact integers:
  * networks hold one integer-valued float64 parameter `w` (θ); forward = 0*x + w
  * the scripted optimisers add integers to every parameter (plain: one shift per step; closure: evaluate the
    closure once per scripted shift, move after each evaluation) — same formulas as lean/drivers/Solver.lean
  * the user loss_fn / metrics return formula values of (lossId, θ, phase, draw index) connected to the graph
  * spy generators encode the draw index in the coordinates
Canonical output lines are identical in format to the Lean driver's.
"""
import warnings
import torch
from torch import nn

TRAIN_BASE, VALID_BASE = 0, 100000


def loss_formula(loss_id, theta, train, idx):
    return ((theta * 7 + idx * 13 + loss_id * 31 + (5 if train else 0)) % 11) * 12 - 48      # negative values too (energy functionals)


def metric_formula(m, theta, train, idx):
    return ((theta * 3 + idx * 5 + m * 17 + (1 if train else 0)) % 7) * 12


def addl_formula(theta, train, idx):
    return ((theta * 5 + idx * 3 + (2 if train else 0)) % 5) * 12


def grad_formula(loss_id, theta, train, idx):
    return ((theta * 3 + idx * 7 + loss_id * 5) % 9) - 4


def addl_grad_formula(theta, train, idx):
    return ((theta + idx * 2) % 5) - 2


def plain_formula(k):
    return (k * 5) % 7 - 3


def closure_formula(k):
    return [((k + j) % 5) - 2 for j in range(1 + k % 3)]


class ScriptNet(nn.Module):
    def __init__(self, theta0, n_out=1):
        super().__init__()
        self.w = nn.Parameter(torch.tensor([float(theta0)] * n_out, dtype=torch.float64))
        self.NN = nn.Sequential()   # `save()` describes networks through their `.NN` attribute (as FCNN has)
        # a buffer (like BatchNorm's running statistics): the parameter value at the most recent forward pass
        self.register_buffer('seen', torch.tensor(float(theta0), dtype=torch.float64))
        # a frozen parameter (requires_grad=False, as in fine-tuning with frozen layers) that the harness changes between epochs
        self.aux = nn.Parameter(torch.tensor(0.0, dtype=torch.float64), requires_grad=False)
        # ... and a buffer that changes on EVERY forward pass (as running statistics do)
        self.register_buffer('calls', torch.tensor(0.0, dtype=torch.float64))

    def forward(self, x):
        MODES.append(self.training)
        with torch.no_grad():
            self.seen.copy_(self.w[0])
            self.calls.add_(1.0)
        return x[:, :1] * 0 + self.w

    def theta(self):
        return int(round(self.w.detach()[0].item()))


MODES = []      # training flag of the scripted networks at every forward pass (mode-dependent layers see it)


class World:
    """shared log and counters of one scripted run"""

    def __init__(self):
        self.events = []
        self.overrides = {}
        self.steps = 0
        self.grads = []        # .grad of the first parameter as seen by each optimiser step
        self.addl = False


CURRENT_WORLD = [None]   # used when `load()` re-creates the optimiser from its class alone


def _first_trainable(opt):
    return next(p for g in opt.param_groups for p in g['params'] if p.requires_grad and p.dim() > 0)


def _seen_grad(opt):
    g = _first_trainable(opt).grad
    return 0 if g is None else int(round(g.detach().reshape(-1)[0].item()))


class PlainOpt(torch.optim.Optimizer):
    kind = 'plain'

    def __init__(self, params, world=None):
        super().__init__(params, dict(lr=1.0))
        self.world = world if world is not None else CURRENT_WORLD[0]

    def zero_grad(self, set_to_none=True):
        self.world.events.append('Z')
        super().zero_grad(set_to_none=set_to_none)

    def step(self, closure=None):
        k = self.world.steps
        d = plain_formula(k)
        self.world.grads.append(_seen_grad(self))
        with torch.no_grad():
            for g in self.param_groups:
                for p in g['params']:
                    if p.requires_grad:
                        p.add_(d)
        self.world.steps += 1
        th = int(round(_first_trainable(self).detach()[0].item()))
        self.world.events.append(f'Splain:{k}:{th}')


class ClosureOpt(torch.optim.Optimizer):
    kind = 'closure'

    def __init__(self, params, world=None):
        super().__init__(params, dict(lr=1.0))
        self.world = world if world is not None else CURRENT_WORLD[0]

    def zero_grad(self, set_to_none=True):
        self.world.events.append('Z')
        super().zero_grad(set_to_none=set_to_none)

    def step(self, closure):
        k = self.world.steps
        loss = None
        for sh in closure_formula(k):
            loss = closure()
            with torch.no_grad():
                for g in self.param_groups:
                    for p in g['params']:
                        if p.requires_grad:
                            p.add_(sh)
        self.world.grads.append(_seen_grad(self))
        self.world.steps += 1
        th = int(round(_first_trainable(self).detach()[0].item()))
        self.world.events.append(f'Sclosure:{k}:{th}')
        return loss


from neurodiffeq.generators import BaseGenerator as _BaseGenerator


class SpyGen(_BaseGenerator):
    """spy leaf: the k-th draw returns n_points copies of (base + k + d/16) in dimension d"""

    def __init__(self, world, train, n_points, n_dims, vary=False):
        super().__init__()
        self.world, self.train, self.n_points, self.n_dims = world, train, n_points, n_dims
        self.vary = vary           # batches of different sizes (as a FilterGenerator would produce)
        self.size = n_points
        self.count = 0
        # attributes `load()` reads from the saved training generator to rebuild the solver
        self.t_min, self.t_max, self.xy_min, self.xy_max = 0.0, 1.0, (0.0, 0.0), (1.0, 1.0)

    def get_examples(self):
        idx = self.count
        self.count += 1
        self.world.events.append(f'D{1 if self.train else 0}:{idx}')
        base = (TRAIN_BASE if self.train else VALID_BASE) + idx
        n = self.n_points + ((idx * 2) % 5 if self.vary else 0)
        cols = [torch.full((n,), float(base) + d / 16.0, requires_grad=True) for d in range(self.n_dims)]
        return cols[0] if self.n_dims == 1 else tuple(cols)


def make_spy_gen(world, train, n_points, n_dims, vary=False):
    return SpyGen(world, train, n_points, n_dims, vary)


def decode_idx(coord):
    v = int(round(coord.detach().reshape(-1)[0].item()))
    return (False, v - VALID_BASE) if v >= VALID_BASE else (True, v - TRAIN_BASE)


class Run:
    """one scripted solver; `kind` in {'1d','2d','bundle','spherical','generic'}"""

    def __init__(self, theta0, opt, n_train, n_valid, n_metrics, kind='1d', n_funcs=1, shared=False, n_points=3,
                 eq_param_index=(), n_theta=0, vary_points=False, loss_scale=1.0, late_valid0=False):
        from neurodiffeq import solvers as S
        from neurodiffeq.conditions import NoCondition
        self.world = World()
        w = self.world
        self.kind, self.n_funcs = kind, n_funcs
        n_dims = {'1d': 1, '2d': 2, 'spherical': 3, 'generic': 2, 'bundle': 1 + n_theta}[kind]
        self.n_dims = n_dims
        if shared:
            net = ScriptNet(theta0)
            self.nets = [net] * n_funcs
        else:
            self.nets = [ScriptNet(theta0) for _ in range(n_funcs)]
        self.loss_id = 0
        self.eq_calls = []
        self.scale = float(loss_scale)      # best-model tracking only compares losses: it must not depend on their scale

        def eqs(*args):
            # canonical record of what the user's equations received: per argument (kind, value of row 0)
            rec = []
            for a in args:
                v = a.detach().reshape(-1)[0].item()
                rec.append((tuple(a.shape), v))
            self.eq_calls.append(rec)
            return [args[i] * 0 + args[i] * 0 for i in range(n_funcs)]

        def make_loss(loss_id):
            def loss_fn(residuals, funcs, coords):
                train, idx = decode_idx(coords[0])
                th = self.nets[0].theta()
                w.events.append(f'L{loss_id}:{th}:{1 if train else 0}:{idx}')
                val = w.overrides.get((train, idx), loss_formula(loss_id, th, train, idx))
                # value `val`, gradient w.r.t. the (first) parameter exactly grad_formula(...): funcs[0] is 0*x + w row-wise
                probe = funcs[0].reshape(-1)[0]
                return (residuals * 0).sum() + sum((f * 0).sum() for f in funcs) + float(val) * self.scale \
                    + float(grad_formula(loss_id, th, train, idx)) * (probe - probe.detach())
            loss_fn.loss_id = loss_id
            return loss_fn
        self.make_loss = make_loss

        def make_metric(m):
            def metric(*args):
                coords = args[n_funcs:]
                train, idx = decode_idx(coords[0])
                return torch.tensor(float(metric_formula(m, self.nets[0].theta(), train, idx)))
            return metric
        # registered in non-alphabetical order; plus a metric that hands back a LIVE tensor (a view of the trained parameter, as a
        # user monitoring a learnable coefficient would): the recorded value is what the function returned when it was called
        metrics = {f'm{m}': make_metric(m) for m in reversed(range(n_metrics))}
        metrics['live'] = lambda *args: self.nets[0].w[0]
        params = list({id(p): p for n in self.nets for p in n.parameters()}.values())
        self.make_opt = lambda k: (PlainOpt if k == 'plain' else ClosureOpt)(params, w)
        common = dict(conditions=[NoCondition() for _ in range(n_funcs)], nets=self.nets,
                      train_generator=make_spy_gen(w, True, n_points, n_dims, vary_points),
                      valid_generator=make_spy_gen(w, False, n_points, n_dims, vary_points),
                      optimizer=self.make_opt(opt), loss_fn=make_loss(0), n_batches_train=n_train,
                      n_batches_valid=(3 if (late_valid0 and n_valid == 0) else n_valid), metrics=metrics)
        with warnings.catch_warnings():
            warnings.simplefilter('ignore')
            if kind == '1d':
                self.solver = S.Solver1D(eqs, t_min=0., t_max=1., **common)
            elif kind == '2d':
                self.solver = S.Solver2D(eqs, xy_min=(0., 0.), xy_max=(1., 1.), **common)
            elif kind == 'spherical':
                self.solver = S.SolverSpherical(eqs, r_min=0., r_max=1., **common)
            elif kind == 'generic':
                self.solver = S.GenericSolver(eqs, n_input_units=2, n_output_units=1, **common)
            elif kind == 'bundle':
                self.solver = S.BundleSolver1D(eqs, t_min=0., t_max=1., theta_min=(0.,) * n_theta, theta_max=(1.,) * n_theta,
                                               eq_param_index=tuple(eq_param_index), **common)
        if late_valid0 and n_valid == 0:
            self.solver.n_batches['valid'] = 0      # validation switched off after construction (n_batches is a public, mutable dict)
        # the solver's overridable additional_loss term (public extension point), active when world.addl is set
        import types

        def additional_loss(solver, residual, funcs, coords):
            if not w.addl:
                return 0
            train, idx = decode_idx(coords[0])
            th = self.nets[0].theta()
            probe = funcs[0].reshape(-1)[0]
            # value addl_formula (0 in one case out of five), gradient addl_grad_formula: a term may vanish where its gradient does not
            return float(addl_formula(th, train, idx)) * self.scale + float(addl_grad_formula(th, train, idx)) * (probe - probe.detach())
        self.solver.additional_loss = types.MethodType(additional_loss, self.solver)
        self.sched = {}
        self.call = 0
        self.out = []
        self.n_metrics = n_metrics
        self.sols = []
        self.best_obs = []      # per epoch: (best w, best 'seen' buffer, optimiser kind, n_batches_valid)
        self.live_obs = []      # per epoch: the 'live' metric series (train, valid)
        self.best_mode_obs = []
        del MODES[:]
        self.aux_obs = []       # per epoch: (frozen parameter inside best_nets, its value when that snapshot was taken)
        self._aux_bumps = 0
        self.frozen_obs = []    # per epoch: (requires_grad of the frozen parameter, its value, value the harness gave it)
        self._aux_at_snapshot = None
        self._last_best = None

    # ---- canonical dumps ------------------------------------------------------------------------
    def dump(self):
        s = self.solver
        ints = lambda l: '[' + ','.join(str(int(round(v))) for v in l) + ']'
        lints = lambda l: '[' + ','.join(str(int(round(v / self.scale))) for v in l) + ']'
        opt = 'closure' if isinstance(s.optimizer, ClosureOpt) else 'plain'
        h = s.metrics_history
        tm = '|'.join(ints(h[f'train__m{m}']) for m in range(self.n_metrics))
        vm = '|'.join(ints(h[f'valid__m{m}']) for m in range(self.n_metrics))
        lowest = 'None' if s.lowest_loss is None else str(int(round(s.lowest_loss / self.scale)))
        best = 'None' if s.best_nets is None else str(s.best_nets[0].theta())
        return (f'theta={self.nets[0].theta()} opt={opt} loss={getattr(s.loss_fn, "loss_id", -1)} nT={s.n_batches["train"]} '
                f'nV={s.n_batches["valid"]} train={lints(h["train_loss"])} valid={lints(h["valid_loss"])} tm={tm} vm={vm} '
                f'lowest={lowest} best={best} local={s.local_epoch} max={s._max_local_epoch} '
                f'stop={"true" if s._stop_training else "false"} td={s.generator["train"].generator.count} '
                f'vd={s.generator["valid"].generator.count} steps={self.world.steps}')

    def fit(self, max_epochs, extra_callbacks=()):
        from neurodiffeq.callbacks import StopCallback, SetOptimizer, SetLossFn
        run = self
        w = self.world
        w.events = []
        w.grads = []
        call = self.call

        class Sched:
            """performs the scheduled actions of this epoch (first callback of the list)"""
            def __call__(cb, solver):
                # the optimiser that was used during this epoch (the actions below may replace it for the next one)
                run._epoch_opt_kind = 'closure' if isinstance(solver.optimizer, ClosureOpt) else 'plain'
                for act in run.sched.get((call, solver.local_epoch), []):
                    if act[0] == 'stop':
                        StopCallback()(solver)
                    elif act[0] == 'batches':
                        solver.n_batches['train'] = act[1]
                    elif act[0] == 'opt':
                        SetOptimizer(run.make_opt(act[1]), reset=True)(solver)
                    elif act[0] == 'loss':
                        SetLossFn(run.make_loss(act[1]), reset=True)(solver)

        class Dump:
            """last callback of the list: every callback must run in every epoch, also after a stop request.
            (The object is falsy - it has a length of 0, like a recorder that has not recorded yet - which must not matter.)"""
            def __len__(cb):
                return 0

            def __call__(cb, solver):
                w.events.append(f'C{call}:{solver.local_epoch}')
                run.out.append('E ' + run.dump())
                run.live_obs.append((call, solver.local_epoch, [list(solver.metrics_history.get('train__live', [])), list(solver.metrics_history.get('valid__live', []))]))
                if solver.best_nets is not None:
                    if solver.best_nets is not run._last_best:       # a new snapshot was taken during this epoch
                        run._last_best, run._aux_at_snapshot = solver.best_nets, run._aux_bumps
                        run._best_opt_kind = getattr(run, '_epoch_opt_kind', None)
                    run.aux_obs.append((int(round(solver.best_nets[0].aux.item())), run._aux_at_snapshot, call, solver.local_epoch))
                # the frozen parameter of the live networks: still frozen, and moved by nobody but the harness
                run.frozen_obs.append((bool(solver.nets[0].aux.requires_grad), int(round(solver.nets[0].aux.item())), run._aux_bumps,
                                       call, solver.local_epoch))
                # "unfreeze and train" the frozen parameters between epochs (outside the optimiser)
                with torch.no_grad():
                    for n_ in {id(n): n for n in solver.nets}.values():
                        n_.aux.add_(1.0)
                run._aux_bumps += 1
                if solver.best_nets is not None:
                    b = solver.best_nets[0]
                    run.best_mode_obs.append((bool(b.training), bool(solver.nets[0].training), call, solver.local_epoch))
                    run.best_obs.append((b.theta(), int(round(b.seen.item())), getattr(run, '_best_opt_kind', None),
                                         solver.n_batches['valid'], call, solver.local_epoch))
        with warnings.catch_warnings():
            warnings.simplefilter('ignore')
            self.solver.fit(max_epochs, callbacks=[Sched()] + list(extra_callbacks) + [Dump()], tqdm_file=None)
        self.eval_mode_forwards = getattr(self, 'eval_mode_forwards', 0) + sum(1 for m in MODES if not m)
        del MODES[:]
        self.out.append('F agree=true ' + self.dump())
        self.out.append('LOG ' + ' '.join(w.events))
        self.out.append('GRADS [' + ','.join(str(g) for g in w.grads) + ']')
        self.call += 1


def run_script(lines, **kw):
    """execute driver-format ops on the real solver; returns output lines"""
    run = None
    out = []
    for line in lines:
        p = line.split()
        if not p:
            continue
        if p[0] == 'init':
            run = Run(int(p[1]), p[2], int(p[3]), int(p[4]), int(p[5]), **kw)
        elif p[0] == 'addl':
            run.world.addl = p[1] == '1'
        elif p[0] == 'override':
            run.world.overrides[(p[1] == '1', int(p[2]))] = int(p[3])
        elif p[0] == 'sched':
            acts, r = [], p[3:]
            while r:
                if r[0] == 'stop':
                    acts.append(('stop',)); r = r[1:]
                elif r[0] == 'batches':
                    acts.append(('batches', int(r[1]))); r = r[2:]
                elif r[0] == 'opt':
                    acts.append(('opt', r[1])); r = r[2:]
                elif r[0] == 'loss':
                    acts.append(('loss', int(r[1]))); r = r[2:]
                else:
                    raise ValueError(line)
            run.sched.setdefault((int(p[1]), int(p[2])), []).extend(acts)
        elif p[0] in ('train', 'valid'):
            # an epoch run by hand (the public building blocks of fit())
            run.world.events = []
            with warnings.catch_warnings():
                warnings.simplefilter('ignore')
                (run.solver.run_train_epoch if p[0] == 'train' else run.solver.run_valid_epoch)()
            out.append(f'M {p[0]} ' + run.dump())
            out.append('LOG ' + ' '.join(run.world.events))
        elif p[0] == 'fit':
            run.fit(int(p[1]))
            out += run.out
            run.out = []
        elif p[0] == 'save':
            import tempfile, dill
            path = tempfile.mktemp(prefix='verif-c18-')
            dill.settings['byref'] = p[1] == '1'     # '0': dill as installed (pickling torch optimiser classes fails)
            wrote = True
            sd_before = None if run.solver.best_nets is None else [{k: v.clone() for k, v in n.state_dict().items()} for n in run.solver.best_nets]
            try:
                run.solver.save(path=path)
            except Exception as e:
                wrote = False
                run.save_error = f'{type(e).__name__}'
            finally:
                dill.settings['byref'] = False
            run.saved_path = path if wrote else None
            sd_after = None if run.solver.best_nets is None else [{k: v.clone() for k, v in n.state_dict().items()} for n in run.solver.best_nets]
            if sd_before is not None and sd_after is not None and any(not torch.equal(a[k], b[k]) for a, b in zip(sd_before, sd_after) for k in a):
                run.save_touched_best = True
            out.append(f'SAVE wrote={"true" if wrote else "false"} ' + run.dump())
        elif p[0] == 'saveload':
            import tempfile, dill, os, io, contextlib
            path = tempfile.mktemp(prefix='verif-c18-')
            dill.settings['byref'] = True
            try:
                run.solver.save(path=path)
                CURRENT_WORLD[0] = None
                with contextlib.redirect_stdout(io.StringIO()):
                    # the optimiser is rebuilt by load() from its class: give it the loaded world afterwards
                    loaded = type(run.solver).load(path=path)
            finally:
                dill.settings['byref'] = False
                if os.path.exists(path):
                    os.remove(path)
            w2 = loaded.generator['train'].generator.world
            loaded.optimizer.world = w2
            run.original = run.solver
            run.solver, run.world, run.nets = loaded, w2, loaded.nets
            run.call = 0
            run.sched = {}
            out.append('SL ' + run.dump())
        elif p[0] == 'getsol':
            try:
                sol = run.solver.get_solution(copy=p[1] == '1', best=p[2] == '1')
                run.sols.append(sol)
                out.append('SOL ' + ('live' if any(a is b for a, b in zip(sol.nets, run.solver.nets)) else 'frozen'))
            except RuntimeError:
                run.sols.append(None)
                out.append('SOL error')
        elif p[0] == 'evalsols':
            vals = []
            for sol in run.sols:
                if sol is None:
                    vals.append('x')
                else:
                    coords = [torch.zeros(2, 1) for _ in range(run.n_dims)]
                    u = sol(*coords)
                    u = u[0] if isinstance(u, list) else u
                    vals.append(str(int(round(u.reshape(-1)[0].item()))))
            out.append('EVAL ' + ' '.join(vals))
        else:
            raise ValueError(line)
    return out, run
