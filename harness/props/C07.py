"""C07 — every accepted sampling method yields usable in-domain differentiable points.

Engine B with real-number proofs: Lean model NdeVerif.Model.AtomicGen (one generic source, run at Float by
lean/drivers/C07.lean and reasoned about at ℝ by NdeVerif.Proofs.C07).  The correspondence runs the REAL
constructors and `get_examples()` with every RNG primitive wrapped, so that the values the RNG returned are
recorded per constructor / per call; the model is driven with exactly those draws and has to reproduce every
returned coordinate (tolerance TOL, float64 — the package sets the default dtype to float64 at import), the
number/kind/length of RNG primitives consumed, the tensor count, the lengths and `requires_grad`.
Independently, the property itself is evaluated on the real outputs (failing-input search)."""
import contextlib
import itertools
import math
import random
import struct

from ..runner import Report, kernel_phase, known_findings, run_driver, split_blocks

PID = 'C07'
TOL = 1e-9          # |model - real| <= TOL * max(|model|, |real|, scale of the axis bounds)
SLACK = 1e-12       # in-domain slack (relative to the bound scale) for the non-noisy methods
THEOREMS = [
    # tensor count, lengths, requires_grad, determinism (all five classes behind `run`)
    'dims_eq', 'len_eq_size', 'requires_grad_all', 'deterministic',
    # in-domain: node formulas, then assembled per class
    'linspace_mem_Icc', 'linspace_one', 'linspace_endpoints', 'cheb1_mem_Icc', 'cheb2_mem_Icc', 'cheb2noisy_mem_Icc',
    'logspace_mem_Icc', 'expspace_mem_Icc', 'uniform_mem_Ico', 'lhs_mem_Icc',
    'gen1d_in_domain', 'gen2d_in_domain', 'gen3d_in_domain', 'genNd_in_domain',
    # Latin hypercube stratification
    'lhs_one_per_stratum', 'lhsPoint_stratum_iff',
    # grid = tensor product (N-D by induction; 2-D / 3-D readings; the classes return meshes)
    'grid_is_product', 'grid_is_product_2d', 'grid_is_product_3d', 'mesh_length', 'mesh_col_length', 'mesh_mem',
    'gen2d_is_mesh', 'gen3d_is_mesh', 'genNd_is_mesh',
    # freshness (injectivity in this call's draws) and the noise scales it needs
    'fresh_uniform', 'fresh_noisyS', 'fresh_noisyT', 'fresh_noisy3', 'fresh_gen1d', 'fresh_cheb2noisy',
    'fresh_cheb2noisy_first', 'fresh_cheb2noisy_last', 'defaultStd_pos', 'std3_pos', 'nd_std_pos',
    'nd_exp_std_nonneg', 'nd_exp_std_pos', 'nd_exp_std_zero_witness', 'nd_uniform_axis_constant',
    # spherical
    'spherical_r_mem', 'spherical_theta_mem', 'spherical_phi_mem_Ico', 'spherical_fresh_r', 'spherical_operands_ok',
    'spherical_unclamped_exceeds_one',
    # no-NaN: operands stay in the domain of their operation; constructor guards
    'linspace_denominator_ne_zero', 'cheb1_denominator_ne_zero', 'cheb2_denominator_ne_zero',
    'cheb2_single_node_degenerate', 'log_operands_pos', 'exp_operands_pos', 'ctorOk_log_pos', 'ctorOk_sph',
]

KF_ZERO_DENOM = 'GeneratorSpherical/zero-denominator'
KF_EXP_NEG = 'GeneratorND/exp-spaced-noisy/negative-std'
KF_EXP_ZERO = 'GeneratorND/exp-spaced-noisy/zero-node-never-moves'

# candidate method strings tried against every real constructor (accepted ones + documented spellings + junk)
CANDIDATES = ['uniform', 'equally-spaced', 'equally-spaced-noisy', 'log-spaced', 'log-spaced-noisy', 'chebyshev',
              'chebyshev1', 'chebyshev2', 'chebyshev2-noisy', 'latin-hypercube', 'latin_hypercube', 'exp-spaced',
              'equally-radius-noisy', 'exp-spaced-noisy', 'chebyshev1-noisy', 'uniform-noisy', 'Uniform',
              'equally_spaced', 'equally-spaced ', ' chebyshev', '', 'random', 'grid', 'chebyshev3', 'log', 'lhs',
              'equally-radius', 'equally-spaced-noisy\n']
CLASSES = ['g1', 'g2', 'g3', 'nd', 'sph']
NOISY_NAMES = {'equally-spaced-noisy', 'log-spaced-noisy', 'chebyshev2-noisy'}
CHEB2 = {'chebyshev2', 'chebyshev2-noisy'}
LOGM = {'log-spaced', 'log-spaced-noisy'}
FIXED_NAMES = {'equally-spaced', 'log-spaced', 'chebyshev', 'chebyshev1', 'chebyshev2', 'exp-spaced'}


# ----------------------------------------------------------------------------------------------- transport
def bits(x):
    return str(struct.unpack('>Q', struct.pack('>d', float(x)))[0])


def unbits(s):
    return struct.unpack('>d', struct.pack('>Q', int(s)))[0]


def enc(s):
    return ','.join(str(ord(c)) for c in s) if s else '-'


def optbits(x):
    return 'none' if x is None else bits(x)


# ----------------------------------------------------------------------------------------------- RNG recorder
class Recorder:
    """wraps the RNG primitives of `torch` while active; `.draws` = [(kind, values)] in call order.
    rand -> the uniform variates; normal -> the standard-normal variates z behind the result (obtained by
    replaying torch.randn from the saved RNG state: torch forms normal(mean, std) as z*std + mean from the same
    stream); perm -> the permutation; int2 -> randint(0, 2) values.  Anything else that draws is recorded under
    its own name and can never match the model's consumption table."""

    def __init__(self):
        self.draws = []

    @contextlib.contextmanager
    def active(self):
        import numpy as np
        import torch
        self.draws = []
        saved = {}
        rec = self

        def patch(owner, name, fn):
            saved[(owner, name)] = getattr(owner, name)
            setattr(owner, name, fn)

        o_rand, o_randn, o_normal, o_perm, o_int = torch.rand, torch.randn, torch.normal, torch.randperm, torch.randint

        def rand(*a, **k):
            out = o_rand(*a, **k)
            rec.draws.append(('rand', [float(v) for v in out.detach().flatten().tolist()]))
            return out

        def randn(*a, **k):
            out = o_randn(*a, **k)
            rec.draws.append(('normal', [float(v) for v in out.detach().flatten().tolist()]))
            return out

        def normal(*a, **k):
            st = torch.get_rng_state()
            out = o_normal(*a, **k)
            after = torch.get_rng_state()
            torch.set_rng_state(st)
            z = o_randn(out.shape, dtype=out.dtype)
            same = torch.equal(torch.get_rng_state(), after)
            torch.set_rng_state(after)
            rec.draws.append(('normal' if same else 'normal-unreplayable', [float(v) for v in z.flatten().tolist()]))
            return out

        def randperm(*a, **k):
            out = o_perm(*a, **k)
            rec.draws.append(('perm', [int(v) for v in out.tolist()]))
            return out

        def randint(*a, **k):
            out = o_int(*a, **k)
            lohi = tuple(a[:2])
            rec.draws.append(('int2' if lohi == (0, 2) else f'randint{lohi}', [int(v) for v in out.flatten().tolist()]))
            return out

        def other(name, orig):
            def f(*a, **k):
                rec.draws.append((f'other:{name}', []))
                return orig(*a, **k)
            return f

        patch(torch, 'rand', rand); patch(torch, 'randn', randn); patch(torch, 'normal', normal)
        patch(torch, 'randperm', randperm); patch(torch, 'randint', randint)
        for name in ['rand_like', 'randn_like', 'randint_like', 'bernoulli', 'multinomial', 'poisson']:
            patch(torch, name, other(name, getattr(torch, name)))
        for name in ['uniform_', 'normal_', 'random_', 'bernoulli_', 'exponential_', 'cauchy_', 'log_normal_', 'geometric_']:
            patch(torch.Tensor, name, other('Tensor.' + name, getattr(torch.Tensor, name)))
        st0 = torch.get_rng_state()
        np0 = np.random.get_state()[1].tobytes()
        try:
            yield self
        finally:
            for (owner, name), fn in saved.items():
                setattr(owner, name, fn)
            if not self.draws and not torch.equal(torch.get_rng_state(), st0):
                self.draws.append(('other:unrecorded-torch-rng', []))
            if np.random.get_state()[1].tobytes() != np0:
                self.draws.append(('other:numpy-rng', []))


def shape_str(draws):
    return ','.join(f'{k}:{len(v)}' for k, v in draws) if draws else '-'


# ----------------------------------------------------------------------------------------------- real runs
def build(script):
    """construct the real generator named by a script"""
    from neurodiffeq import generators as G
    c, m = script['cls'], script['method']
    if c == 'g1':
        return G.Generator1D(script['n'], t_min=script['a'], t_max=script['b'], method=m, noise_std=script.get('noise'))
    if c == 'g2':
        return G.Generator2D(grid=tuple(script['grid']), xy_min=tuple(script['mins']), xy_max=tuple(script['maxs']), method=m,
                             xy_noise_std=tuple(script['noise']) if script.get('noise') else None)
    if c == 'g3':
        return G.Generator3D(grid=tuple(script['grid']), xyz_min=tuple(script['mins']), xyz_max=tuple(script['maxs']), method=m)
    if c == 'nd':
        kw = {}
        if script.get('base') is not None:
            # `base_scalar`: the documented scalar form of `base` (one base for the exp-spaced axis, which is then the first axis)
            kw['base'] = script['base'][0] if script.get('base_scalar') else tuple(script['base'])
        if script.get('abs_value') is not None:
            kw['abs_value'] = script['abs_value']       # only scripted with noisy=False, where it is documented to have no effect
        return G.GeneratorND(grid=tuple(script['grid']), r_min=tuple(script['mins']), r_max=tuple(script['maxs']),
                             methods=list(script['methods']), noisy=script['noisy'],
                             r_noise_std=tuple(script['noise']) if script.get('noise') else None, **kw)
    if c == 'sph':
        return G.GeneratorSpherical(script['n'], r_min=script['a'], r_max=script['b'], method=m)
    raise KeyError(c)


def err_name(e):
    return type(e).__name__


def real_run(script, forced=None):
    """run the real code; `forced` (replay / known-finding probes) = list of per-call {primitive index: values}
    that overwrite what torch.rand returns"""
    import torch
    rec = Recorder()
    res = dict(ctor_error=None, ctor_draws=[], calls=[], size=None)
    try:
        with rec.active():
            g = build(script)
    except Exception as e:
        res['ctor_error'] = err_name(e)
        res['ctor_msg'] = str(e)[:200]
        return res
    res['ctor_draws'] = rec.draws
    try:
        res['size'] = int(g.size)
    except Exception as e:
        res['size'] = f'unreadable:{err_name(e)}'
    for ci in range(script['ncalls']):
        call = dict(error=None, draws=[], out=None)
        orig_rand = torch.rand
        try:
            if forced and ci < len(forced) and forced[ci]:
                vals, counter = forced[ci], [0]

                def frand(*a, **k):
                    out = orig_rand(*a, **k)
                    if counter[0] in vals or str(counter[0]) in vals:
                        v = vals.get(counter[0], vals.get(str(counter[0])))
                        out = torch.tensor(v, dtype=out.dtype).reshape(out.shape)
                    counter[0] += 1
                    return out
                torch.rand = frand
            with rec.active():
                out = g.get_examples()
        except Exception as e:
            call['error'] = err_name(e)
            call['msg'] = str(e)[:200]
            call['draws'] = rec.draws
            res['calls'].append(call)
            continue
        finally:
            torch.rand = orig_rand
        call['draws'] = rec.draws
        ts = [out] if isinstance(out, torch.Tensor) else list(out) if isinstance(out, (tuple, list)) else None
        if ts is None or not all(isinstance(t, torch.Tensor) for t in ts):
            call['error'] = f'not-tensors:{type(out).__name__}'
            res['calls'].append(call)
            continue
        call['ndim'] = [t.dim() for t in ts]
        call['grad'] = [bool(t.requires_grad) for t in ts]
        call['dtype'] = sorted({str(t.dtype) for t in ts})
        call['out'] = [[float(v) for v in t.detach().flatten().tolist()] for t in ts]
        # "usable ... differentiable points": a loss built from the samples of THIS call can be back-propagated, call after call
        # (as a training loop does), and the gradient with respect to the samples is the expected one
        try:
            loss = sum((t * t).sum() for t in ts)
            if loss.requires_grad:
                gs = torch.autograd.grad(loss, [t for t in ts if t.requires_grad], allow_unused=True)
                call['backward'] = 'ok' if all(g is not None and torch.allclose(g, 2 * t.detach()) for g, t in zip(gs, [t for t in ts if t.requires_grad])) else 'wrong-gradient'
                sum((t * t).sum() for t in ts).backward()
        except Exception as e:
            call['backward'] = f'{type(e).__name__}: {str(e)[:120]}'
        res['calls'].append(call)
    return res


# ----------------------------------------------------------------------------------------------- Lean blocks
def cfg_line(s):
    c = s['cls']
    if c == 'g1':
        return ' '.join([enc(s['method']), str(s['n']), bits(s['a']), bits(s['b']), optbits(s.get('noise'))])
    if c == 'g2':
        nz = s.get('noise') or (None, None)
        return ' '.join([enc(s['method'])] + [str(n) for n in s['grid']] + [bits(v) for v in s['mins']] +
                        [bits(v) for v in s['maxs']] + [optbits(nz[0]), optbits(nz[1])])
    if c == 'g3':
        return ' '.join([enc(s['method'])] + [str(n) for n in s['grid']] + [bits(v) for v in s['mins']] + [bits(v) for v in s['maxs']])
    if c == 'nd':
        base = s.get('base') or [10] * len(s['grid'])
        nz = s.get('noise') or [None] * len(s['grid'])
        parts = ['1' if s['noisy'] else '0']
        for m, n, a, b, bs, z in zip(s['methods'], s['grid'], s['mins'], s['maxs'], base, nz):
            parts += [enc(m), str(n), bits(a), bits(b), bits(bs), optbits(z)]
        return ' '.join(parts)
    if c == 'sph':
        return ' '.join([enc(s['method']), str(s['n']), bits(s['a']), bits(s['b'])])
    raise KeyError(c)


def draw_lines(draws):
    out = []
    for k, v in draws:
        if k in ('rand', 'normal'):
            out.append('f ' + ','.join(bits(x) for x in v))
        else:
            out.append('n ' + ','.join(str(int(x)) for x in v))
    return out


def block(script, real):
    ls = [f'run {script["cls"]}', cfg_line(script), 'ctor'] + draw_lines(real['ctor_draws'])
    for c in real['calls']:
        ls += ['call'] + draw_lines(c['draws'])
    return '\n'.join(ls + ['---'])


def parse_model(mb):
    """model block -> dict(ctor=…, header fields, calls=[dict(error|out)])"""
    if not mb:
        return dict(ctor='missing')
    h = mb[0].split()
    if h[:2] != ['ctor', 'ok']:
        return dict(ctor=' '.join(h[1:]) or 'bad')
    d = dict(ctor='ok', size=int(h[3]), dims=int(h[5]), grad=h[7] == '1', ctorshape=h[9], callshape=h[11], calls=[])
    i = 1
    while i < len(mb):
        if mb[i] == 'call ok':
            cols = []
            i += 1
            while i < len(mb) and not mb[i].startswith('call'):
                cols.append([unbits(t) for t in mb[i].split(',') if t])
                i += 1
            d['calls'].append(dict(error=None, out=cols))
        elif mb[i].startswith('call '):
            d['calls'].append(dict(error=mb[i].split()[1], out=None))
            i += 1
        else:
            i += 1
    return d


def scale_of(script, dim):
    if script['cls'] in ('g1', 'sph'):
        vals = [script['a'], script['b']]
    else:
        vals = [script['mins'][dim], script['maxs'][dim]]
    if script['cls'] == 'sph':
        vals += [2 * math.pi]
    return max([1.0] + [abs(v) for v in vals])


def close(x, y, scale):
    if math.isnan(x) or math.isnan(y):
        return math.isnan(x) and math.isnan(y)
    return abs(x - y) <= TOL * max(abs(x), abs(y), scale)


def compare(script, real, model):
    """first difference between the real observation and the model's prediction, or None"""
    if real['ctor_error']:
        want = 'ValueError' if real['ctor_error'] == 'ValueError' else real['ctor_error']
        return None if model.get('ctor') == want else f'constructor: real raised {real["ctor_error"]}, model says {model.get("ctor")}'
    if model.get('ctor') != 'ok':
        return f'constructor: real accepted, model says {model.get("ctor")}'
    if real['size'] != model['size']:
        return f'size: real {real["size"]} model {model["size"]}'
    if shape_str(real['ctor_draws']) != model['ctorshape']:
        return f'constructor RNG consumption: real {shape_str(real["ctor_draws"])} model {model["ctorshape"]}'
    if len(real['calls']) != len(model['calls']):
        return f'number of calls: real {len(real["calls"])} model {len(model["calls"])}'
    for ci, (rc, mc) in enumerate(zip(real['calls'], model['calls'])):
        if rc['error'] or mc['error']:
            if rc['error'] != mc['error']:
                return f'call {ci}: real error {rc["error"]} ({rc.get("msg")}), model error {mc["error"]}'
            continue
        if shape_str(rc['draws']) != model['callshape']:
            return f'call {ci} RNG consumption: real {shape_str(rc["draws"])} model {model["callshape"]}'
        if len(rc['out']) != model['dims'] or len(mc['out']) != model['dims']:
            return f'call {ci}: tensor count real {len(rc["out"])} model {len(mc["out"])} dims {model["dims"]}'
        if all(rc['grad']) != model['grad']:
            return f'call {ci}: requires_grad real {rc["grad"]} model {model["grad"]}'
        for d, (ro, mo) in enumerate(zip(rc['out'], mc['out'])):
            if len(ro) != len(mo):
                return f'call {ci} dim {d}: length real {len(ro)} model {len(mo)}'
            sc = scale_of(script, d)
            for j, (x, y) in enumerate(zip(ro, mo)):
                if not close(x, y, sc):
                    return f'call {ci} dim {d} entry {j}: real {x!r} model {y!r}'
    return None


# ----------------------------------------------------------------------------------------------- the property
def axis_info(script):
    """[(method, n, lo, hi)] per dimension of a Cartesian generator"""
    c = script['cls']
    if c == 'g1':
        return [(script['method'], script['n'], script['a'], script['b'])]
    ms = script['methods'] if c == 'nd' else [script['method']] * len(script['grid'])
    return list(zip(ms, script['grid'], script['mins'], script['maxs']))


def doc_nodes(method, n, a, b, base=10.0):
    """the documented 1-D nodes, computed independently of neurodiffeq (pure python floats)"""
    if method in ('equally-spaced', 'equally-spaced-noisy'):
        return [a] if n == 1 else [a + (b - a) * i / (n - 1) for i in range(n)]
    if method in ('chebyshev', 'chebyshev1'):
        return [((a + b) + (b - a) * math.cos((i + 0.5) / n * math.pi)) / 2 for i in range(n)]
    if method == 'chebyshev2':
        return [((a + b) + (b - a) * math.cos(i / (n - 1) * math.pi)) / 2 for i in range(n)]
    if method in ('log-spaced', 'log-spaced-noisy'):
        la, lb = math.log10(a), math.log10(b)
        return [10 ** la] if n == 1 else [10 ** (la + (lb - la) * i / (n - 1)) for i in range(n)]
    if method == 'exp-spaced':
        ea, eb = base ** a, base ** b
        return [math.log(ea) / math.log(base)] if n == 1 else [math.log(ea + (eb - ea) * i / (n - 1)) / math.log(base) for i in range(n)]
    return None


def classify(script):
    """per dimension: (noisy?, expected repeat behaviour 'same'|'fresh'|None, grid-of-documented-nodes?)"""
    c = script['cls']
    out = []
    if c == 'sph':
        return [(False, 'fresh', False)] * 3
    for (m, n, a, b) in axis_info(script):
        if c == 'g1':
            noisy = m in NOISY_NAMES
            rep = 'fresh' if (noisy or m == 'uniform') else 'same' if m in FIXED_NAMES else None
        elif c in ('g2', 'g3'):
            noisy = m in NOISY_NAMES
            # 'latin-hypercube' (fresh per call in 1-D, drawn once by the 2-D/3-D constructors): the property makes no claim
            rep = 'fresh' if noisy else 'same' if m in FIXED_NAMES else None
        else:
            noisy = bool(script['noisy'])
            # interpretation fixed in DESIGN.md: the N-D 'uniform' axis is drawn once with zero noise scale -> fixed
            rep = 'same' if (not noisy or m == 'uniform') else 'fresh'
        grid = (not noisy) and doc_nodes(m, 2, 1.0, 2.0) is not None
        out.append((noisy, rep, grid))
    return out


def property_failures(script, real):
    """the property, evaluated on the real observations only (no model involved)"""
    if real['ctor_error']:
        return [f'constructor raised {real["ctor_error"]}: {real.get("ctor_msg")}']
    c = script['cls']
    fails = []
    axes = None if c == 'sph' else axis_info(script)
    dims = 3 if c == 'sph' else len(axes)
    size = real['size']
    want_size = script['n'] if c in ('g1', 'sph') else math.prod(script['grid'])
    if size != want_size:
        fails.append(f'generator.size = {size}, grid has {want_size} points')
    cls = classify(script)
    strides = None
    if c != 'sph':
        strides = [math.prod([n for (_, n, _, _) in axes][k + 1:]) for k in range(dims)]
    prev = None
    for ci, call in enumerate(real['calls']):
        if call['error']:
            fails.append(f'call {ci} raised {call["error"]}: {call.get("msg")}')
            prev = None
            continue
        out = call['out']
        if len(out) != dims:
            fails.append(f'call {ci}: {len(out)} tensors for {dims} dimensions')
            continue
        for d in range(dims):
            col = out[d]
            if call['ndim'][d] != 1:
                fails.append(f'call {ci} dim {d}: tensor is {call["ndim"][d]}-D')
            if len(col) != size:
                fails.append(f'call {ci} dim {d}: length {len(col)} != size {size}')
            if any(math.isnan(v) for v in col):
                fails.append(f'call {ci} dim {d}: NaN at index {next(i for i, v in enumerate(col) if math.isnan(v))}')
                continue
            if not call['grad'][d]:
                fails.append(f'call {ci} dim {d}: requires_grad is False')
            if d == 0 and call.get('backward', 'ok') != 'ok':
                fails.append(f'call {ci}: a loss built from the returned samples cannot be back-propagated ({call["backward"]})')
            noisy, rep, grid = cls[d]
            if c == 'sph':
                lo, hi = [(script['a'], script['b']), (0.0, math.pi), (0.0, 2 * math.pi)][d]
                sl = SLACK * max(1.0, abs(lo), abs(hi))
                bad = [v for v in col if not (lo - sl <= v <= hi + sl) or (d == 2 and not v < 2 * math.pi)]
                if bad:
                    fails.append(f'call {ci} {"r theta phi".split()[d]} = {bad[0]!r} outside its range')
            else:
                m, n, a, b = axes[d]
                sl = SLACK * max(1.0, abs(a), abs(b))
                if not noisy:
                    # the closed requested domain: the interval between the two bounds, whichever is larger
                    bad = [v for v in col if not (min(a, b) - sl <= v <= max(a, b) + sl)]
                    if bad:
                        fails.append(f'call {ci} dim {d} ({m}): {bad[0]!r} outside [{min(a, b)}, {max(a, b)}]')
                if grid and len(col) == size:
                    base = (script.get('base') or [10.0] * dims)[d] if c == 'nd' else 10.0
                    nodes = doc_nodes(m, n, a, b, float(base))
                    sc = max(1.0, abs(a), abs(b))
                    for p, v in enumerate(col):
                        w = nodes[(p // strides[d]) % n]
                        if not abs(v - w) <= TOL * sc:
                            fails.append(f'call {ci} dim {d} ({m}): entry {p} = {v!r} is not node {(p // strides[d]) % n} = {w!r} of the tensor product')
                            break
                if m == 'latin-hypercube' and len(col) == size:
                    w = (b - a) / n
                    # the distinct axis values, in product order: take entry of each node index
                    vals = sorted((col[(i * strides[d])] for i in range(n)) if c != 'g1' else col, reverse=w < 0)
                    rep_ok = all(col[p] == col[((p // strides[d]) % n) * strides[d]] for p in range(size)) if c != 'g1' else True
                    if not rep_ok:
                        fails.append(f'call {ci} dim {d}: latin-hypercube grid is not a tensor product of its axis sample')
                    for k, v in enumerate(vals):
                        if not (min(a + k * w, a + (k + 1) * w) - sl <= v <= max(a + k * w, a + (k + 1) * w) + sl):
                            fails.append(f'call {ci} dim {d}: latin-hypercube stratum {k} = [{a + k * w}, {a + (k + 1) * w}] does not hold exactly one point (sorted sample {vals[:6]}…)')
                            break
            if prev is not None and len(prev[d]) == len(col):
                if rep == 'same' and prev[d] != col:
                    fails.append(f'call {ci} dim {d}: deterministic method returned different points than call {ci - 1}')
                if rep == 'fresh' and prev[d] == col:
                    fails.append(f'call {ci} dim {d}: identical to call {ci - 1}, expected fresh points')
        prev = out
    return fails


# ----------------------------------------------------------------------------------------------- scripts
def accepted_methods():
    """(cls -> accepted strings) according to the REAL constructors, and the raw accept/reject table"""
    table = {}
    for c in CLASSES:
        for m in CANDIDATES:
            s = probe_script(c, m)
            try:
                build(s)
                table[(c, m)] = 'accept'
            except ValueError as e:
                table[(c, m)] = 'ValueError'
            except Exception as e:
                table[(c, m)] = f'{err_name(e)}'
    return table


def probe_script(c, m):
    if c in ('g1', 'sph'):
        return dict(cls=c, method=m, n=3, a=0.5, b=2.0, ncalls=0)
    k = {'g2': 2, 'g3': 3, 'nd': 1}[c]
    return dict(cls=c, method=m, methods=[m] * k, grid=[3] * k, mins=[0.5] * k, maxs=[2.0] * k, noisy=False, ncalls=0)


BOUNDS = [(0.0, 1.0), (-2.5, -0.5), (-1.5, 3.25)]
POS_BOUNDS = [(0.5, 20.0), (1e-3, 1e2), (2.0, 3.0)]
# reversed bounds (the "lower" bound above the "upper" one): only for the deterministic node families, whose documented
# formulas are symmetric in the two bounds; the noisy methods derive a noise scale from (max - min) and reject them
REV_BOUNDS = [(1.0, 0.0), (2.75, -1.25)]
REV_POS_BOUNDS = [(20.0, 0.5), (3.0, 2.0)]


def pick_bounds(rng, method, k, exp_ok=True):
    """k bounds pairs: fixed interesting ones (unit, negative, sign-straddling) + random ones"""
    res = []
    for _ in range(k):
        if method in LOGM:
            r = rng.random()
            res.append(rng.choice(POS_BOUNDS) if r < 0.6 else tuple(sorted([10 ** rng.uniform(-3, 0), 10 ** rng.uniform(0.1, 3)])))
        else:
            r = rng.random()
            if r < 0.6:
                res.append(rng.choice(BOUNDS))
            else:
                lo = rng.uniform(-8, 8)
                res.append((lo, lo + rng.uniform(0.05, 6)))
    return res


def min_n(method):
    return 2 if method in CHEB2 else 1


def scripts(tier, seed, accepted):
    rng = random.Random(seed)
    sizes = [1, 2, 3, 8] if tier == 'quick' else list(range(1, 65))
    small = [1, 2, 3, 5] if tier == 'quick' else [1, 2, 3, 5, 7]
    out = []
    ncalls = lambda: rng.choice([2, 3])
    nb = 3

    def fill(n_main, method, k, pos):
        """grid with the main size at position pos, small sizes elsewhere (respecting cheb2's n >= 2)"""
        g = [max(min_n(method), rng.choice(small)) for _ in range(k)]
        g[pos] = n_main
        return g

    for m in accepted['g1']:
        for n in sizes:
            if n < min_n(m):
                continue
            for bi in range(nb):
                if tier == 'quick' or m in LOGM:
                    a, b = pick_bounds(rng, m, 1)[0]
                    if tier == 'quick' and m not in LOGM:
                        a, b = BOUNDS[bi]
                    elif tier == 'quick':
                        a, b = POS_BOUNDS[bi]
                else:
                    a, b = pick_bounds(rng, m, 1)[0]
                noise = None if rng.random() < 0.8 else rng.uniform(0.01, 0.5)
                out.append(dict(cls='g1', method=m, n=n, a=a, b=b, noise=noise, ncalls=ncalls()))
    for c, k in (('g2', 2), ('g3', 3)):
        for m in accepted[c]:
            for n in sizes:
                if n < min_n(m):
                    continue
                for bi in range(nb if tier == 'quick' else k):
                    pos = rng.randrange(k) if tier == 'quick' else bi
                    bs = pick_bounds(rng, m, k)
                    if tier == 'quick' and bi < len(BOUNDS):
                        bs[pos] = BOUNDS[bi]
                    s = dict(cls=c, method=m, grid=fill(n, m, k, pos), mins=[x[0] for x in bs], maxs=[x[1] for x in bs], ncalls=ncalls())
                    if c == 'g2' and rng.random() < 0.2:
                        s['noise'] = [rng.uniform(0.01, 0.5), rng.uniform(0.01, 0.5)]
                    out.append(s)
    for m in accepted['nd']:
        for noisy in (False, True):
            for n in sizes:
                if n < min_n(m):
                    continue
                for bi in range(2):
                    k = rng.choice([1, 2, 2, 3, 4])
                    pos = rng.randrange(k)
                    ms = [rng.choice(accepted['nd']) for _ in range(k)]
                    ms[pos] = m
                    grid = [max(min_n(mm), rng.choice(small if k < 4 else [1, 2, 3])) for mm in ms]
                    grid[pos] = n
                    bs = [pick_bounds(rng, mm, 1)[0] for mm in ms]
                    if bi == 0 and m not in LOGM:
                        bs[pos] = BOUNDS[(n + noisy) % 3]
                    s = dict(cls='nd', method='+'.join(ms), methods=ms, grid=grid, mins=[x[0] for x in bs], maxs=[x[1] for x in bs],
                             noisy=noisy, ncalls=ncalls())
                    if rng.random() < 0.25:
                        s['base'] = [rng.choice([2, 10, 2.718281828459045, 3.5]) for _ in range(k)]
                    if rng.random() < 0.2:
                        s['noise'] = [rng.uniform(0.01, 0.5) for _ in range(k)]
                    out.append(s)
    # GeneratorND with a scalar `base` and several axes of which only the first is exp-spaced
    if 'exp-spaced' in accepted['nd']:
        for others, b in ((['equally-spaced'], 2.5), (['chebyshev', 'equally-spaced'], 3.0)):
            ms = ['exp-spaced'] + others
            out.append(dict(cls='nd', method='+'.join(ms), methods=ms, grid=[3] + [2 + j for j in range(len(others))], mins=[0.5] * len(ms),
                            maxs=[2.0] * len(ms), noisy=False, ncalls=2, base=[b] + [10.0] * len(others), base_scalar=True))
    # options that only concern the noise (abs_value) leave the deterministic grid alone - also on axes with negative coordinates
    for ms in (['equally-spaced', 'equally-spaced'], ['chebyshev', 'equally-spaced', 'chebyshev2']):
        if all(m in accepted['nd'] for m in ms):
            for av in (True, False):
                out.append(dict(cls='nd', method='+'.join(ms), methods=ms, grid=[3 + j for j in range(len(ms))], mins=[-2.0, 0.5, -1.0][:len(ms)],
                                maxs=[-1.0, 2.0, 3.0][:len(ms)], noisy=False, ncalls=2, abs_value=av))
    # reversed bounds for the deterministic methods
    for c, k in (('g1', 1), ('g2', 2), ('g3', 3), ('nd', 2)):
        for m in accepted[c]:
            if m not in FIXED_NAMES:
                continue
            for bi, n in enumerate([max(2, min_n(m)), 5]):
                rb = (REV_POS_BOUNDS if m in LOGM else REV_BOUNDS)[bi]
                fb = (POS_BOUNDS if m in LOGM else BOUNDS)[bi]
                if c == 'g1':
                    out.append(dict(cls='g1', method=m, n=n, a=rb[0], b=rb[1], noise=None, ncalls=2))
                else:
                    bs = [rb] + [fb if j % 2 else rb for j in range(1, k)]
                    s = dict(cls=c, method=m if c != 'nd' else '+'.join([m] * k), grid=[n] + [3] * (k - 1), mins=[x[0] for x in bs],
                             maxs=[x[1] for x in bs], ncalls=2)
                    if c == 'nd':
                        s.update(methods=[m] * k, noisy=False)
                    out.append(s)
    for m in accepted['sph']:
        for n in sizes:
            for bi in range(nb):
                lo = [0.0, 0.5, rng.uniform(0, 5)][bi % 3]
                out.append(dict(cls='sph', method=m, n=n, a=lo, b=lo + [1.0, 2.5, rng.uniform(0.05, 4)][bi % 3], ncalls=ncalls()))
    out += edge_scripts(accepted)
    return out


def edge_scripts(accepted):
    """boundary draws forced through torch.rand (the model is driven with the same recorded values):
    spherical a = b = 0 (|z| would be 1 + 1e-6 without the clamp), single zero coordinates, a denormal; uniform
    draws 0 and 1 - 2^-53 for the 1-D methods that consume torch.rand.  Never a = b = c = 0 (see KF_ZERO_DENOM)."""
    top = 1.0 - 2.0 ** -53
    out = []
    for m in accepted['sph']:
        out.append(dict(cls='sph', method=m, n=5, a=0.5, b=2.0, ncalls=2,
                        forced=[{0: [0.0, 0.0, 0.3, 0.0, top], 1: [0.0, 0.2, 0.0, 0.0, top], 2: [0.7, 0.0, 0.0, 1e-300, top],
                                 3: [0.0, top, 0.5, 0.25, 0.75]}, None]))  # index = n-th torch.rand of the call
    for m in accepted['g1']:
        if m in ('uniform', 'chebyshev2-noisy', 'latin-hypercube'):
            for a, b in [(0.0, 1.0), (-2.5, -0.5)]:
                out.append(dict(cls='g1', method=m, n=3, a=a, b=b, noise=None, ncalls=2, forced=[{0: [0.0, top, 0.5]}, None]))
    if 'chebyshev2-noisy' in accepted['g2']:
        out.append(dict(cls='g2', method='chebyshev2-noisy', grid=[3, 2], mins=[-1.0, 0.0], maxs=[1.0, 2.0], ncalls=2,
                        forced=[{0: [0.0, top, 0.5], 1: [top, 0.0]}, None]))
    return out


def malformed(seed):
    """rejection paths: non-positive bounds for the 1-D log methods, illegal spherical ranges"""
    rng = random.Random(seed + 1)
    out = []
    for m in ('log-spaced', 'log-spaced-noisy'):
        for a, b in [(0.0, 1.0), (-1.0, 2.0), (-3.0, -1.0), (1.0, 0.0), (-rng.uniform(0.1, 2), rng.uniform(0.1, 2))]:
            out.append(dict(cls='g1', method=m, n=3, a=a, b=b, noise=None, ncalls=0))
    for m in ('equally-spaced-noisy', 'equally-radius-noisy'):
        for a, b in [(-0.5, 1.0), (2.0, 1.0), (-2.0, -1.0), (1.0, 1.0 - rng.uniform(0.01, 0.5))]:
            out.append(dict(cls='sph', method=m, n=3, a=a, b=b, ncalls=0))
    return out


def is_exp_zero_stuck(s):
    """GeneratorND 'exp-spaced' single-node axis at r_min = 0 with noise: the only node is 0 and its noise scale
    |noise_rstd * 0| = 0 — reported to the lead as a borderline finding; tested only when listed"""
    return s['cls'] == 'nd' and s['noisy'] and any(m == 'exp-spaced' and n == 1 and a == 0.0
                                                   for m, n, a in zip(s['methods'], s['grid'], s['mins']))


# ----------------------------------------------------------------------------------------------- check
def run_all(scr):
    reals = [real_run(s, s.get('forced')) for s in scr]
    lines, dt = run_driver('C07', '\n'.join(block(s, r) for s, r in zip(scr, reals)) + '\n')
    models = [parse_model(mb) for mb in split_blocks(lines)]
    return reals, models, dt


def check(tier, seed):
    rep = Report(PID, tier, seed)
    ok, hits = kernel_phase(rep, 'NdeVerif.Proofs.C07', 'NdeVerif.C07', THEOREMS)
    if hits:
        print('forbidden tokens:', hits)
        rep.finish()
        return 2
    broken = [] if ok else [dict(kind='proof', failed=rep.failed)]
    import neurodiffeq  # noqa: F401  (sets the default dtype)
    import torch
    torch.manual_seed(seed + 7)
    dtype = str(torch.get_default_dtype())
    known = {f.get('key'): f for f in known_findings(PID)}

    # 1. method-name tables: every candidate string against every real constructor vs the model's parse tables
    table = accepted_methods()
    lines, _ = run_driver('C07', '\n'.join(f'accept {c} {enc(m)}\n---' for c in CLASSES for m in CANDIDATES) + '\n')
    mtable = {(c, m): (b[0] if b else 'missing') for (c, m), b in zip([(c, m) for c in CLASSES for m in CANDIDATES], split_blocks(lines))}
    tdiff = [dict(cls=c, method=m, real=table[(c, m)], model=mtable.get((c, m))) for (c, m) in table if table[(c, m)] != mtable.get((c, m))]
    if tdiff:
        broken.append(dict(kind='correspondence', stream='method tables', mismatches=tdiff[:6], count=len(tdiff)))
    accepted = {c: [m for m in CANDIDATES if table[(c, m)] == 'accept'] for c in CLASSES}

    # 2. main campaign + malformed stream
    scr = scripts(tier, seed, accepted)
    skipped_known = 0
    if KF_EXP_ZERO not in known:
        before = len(scr)
        scr = [s for s in scr if not is_exp_zero_stuck(s)]
        skipped_known = before - len(scr)
    bad_scr = malformed(seed)
    reals, models, dt = run_all(scr + bad_scr)
    mismatches, failing = [], []
    hist = dict(classes={c: 0 for c in CLASSES}, methods={}, sizes={}, calls=0, points=0, noisy_calls=0, zero_draw_calls=0,
                bounds=dict(negative=0, straddling=0, positive=0), malformed=len(bad_scr), rejected=0)
    if len(models) != len(reals):
        mismatches.append(dict(error='driver returned a different number of blocks', got=len(models), want=len(reals)))
    for s, r, m in zip(scr + bad_scr, reals, models):
        d = compare(s, r, m)
        if d:
            mismatches.append(dict(script=s, difference=d))
        is_bad = s in bad_scr
        if is_bad:
            hist['rejected'] += r['ctor_error'] == 'ValueError'
            if r['ctor_error'] != 'ValueError':
                failing.append(dict(script=s, violated=[f'malformed configuration was not rejected with ValueError ({r["ctor_error"]})']))
            continue
        fl = property_failures(s, r)
        if fl:
            failing.append(dict(script=s, violated=fl[:4], observed=dict(size=r['size'], first_call=(r['calls'][0] if r['calls'] else None))))
        hist['classes'][s['cls']] += 1
        for mm in (s['methods'] if s['cls'] == 'nd' else [s['method']]):
            key = f'{s["cls"]}/{mm}' + ('/noisy' if s.get('noisy') else '')
            hist['methods'][key] = hist['methods'].get(key, 0) + 1
        for n in ([s['n']] if 'n' in s else s['grid']):
            hist['sizes'][n] = hist['sizes'].get(n, 0) + 1
        for a, b in ([(s['a'], s['b'])] if 'a' in s else zip(s['mins'], s['maxs'])):
            hist['bounds']['negative' if b <= 0 else 'straddling' if a < 0 else 'positive'] += 1
        for call in r['calls']:
            hist['calls'] += 1
            hist['points'] += sum(len(c) for c in (call['out'] or []))
            hist['noisy_calls' if call['draws'] else 'zero_draw_calls'] += 1

    # 3. known findings (tested only when listed with status=known)
    if KF_ZERO_DENOM in known:
        s = dict(cls='sph', method='equally-spaced-noisy', n=2, a=0.0, b=1.0, ncalls=1, forced=[{0: [0.0, 0.3], 1: [0.0, 0.2], 2: [0.0, 0.1]}])
        r = real_run(s, s['forced'])
        fl = property_failures(s, r)
        if fl:
            rep.known.append(f'{known[KF_ZERO_DENOM].get("record", KF_ZERO_DENOM)} [reproduced: {fl[0]}]')
    if KF_EXP_ZERO in known:
        stuck = [f for f in failing if is_exp_zero_stuck(f['script'])]
        failing = [f for f in failing if not is_exp_zero_stuck(f['script'])]
        if stuck:
            rep.known.append(f'{known[KF_EXP_ZERO].get("record", KF_EXP_ZERO)} [reproduced on {len(stuck)} scripts]')
    if KF_EXP_NEG in known:
        neg = [f for f in failing if f['script']['cls'] == 'nd' and f['script']['noisy'] and
               any(mm == 'exp-spaced' and a < 0 for mm, a in zip(f['script']['methods'], f['script']['mins']))
               and any('RuntimeError' in v for v in f['violated'])]
        if neg:
            failing = [f for f in failing if f not in neg]
            mismatches = [mm for mm in mismatches if mm.get('script') not in [f['script'] for f in neg]]
            rep.known.append(f'{known[KF_EXP_NEG].get("record", KF_EXP_NEG)} [reproduced on {len(neg)} scripts]')

    if mismatches:
        broken.append(dict(kind='correspondence', stream='generators vs NdeVerif.AtomicGen (Float)', mismatches=mismatches[:3], count=len(mismatches)))
    n_ok = len(reals) - len([m for m in mismatches if 'script' in m])
    rep.coverage.update(
        programs=len(scr) + len(bad_scr), traces_validated_against_impl=n_ok, evaluations=hist['calls'],
        distinct_nontrivial=len({(s['cls'], s['method'], tuple(s.get('grid', [s.get('n')])), s.get('noisy')) for s in scr if s['ncalls'] >= 2}),
        rule='a script = (class, accepted method string(s), size/grid, bounds, options, number of get_examples() calls); the real '
             'constructor and every call run with torch.rand/randn/normal/randperm/randint wrapped, the Lean model (Float) is driven '
             'with the recorded draws; compared: constructor accept/ValueError, generator.size, kinds+lengths of RNG primitives '
             f'consumed by the constructor and by each call, tensor count, lengths, requires_grad, every coordinate within {TOL} '
             '(relative to max(|value|, bound scale)); plus every candidate method string against every constructor vs the model tables; '
             'non-trivial = at least two calls on the same generator',
        tolerance=TOL, in_domain_slack=SLACK, default_dtype=dtype, method_table_entries=len(table),
        accepted_methods=accepted, skipped_unlisted_known_points=skipped_known,
        input_distribution=hist, driver_seconds=round(dt, 1))
    rep.samples = [dict(script=s, ctor_draws=shape_str(r['ctor_draws']), call_draws=[shape_str(c['draws']) for c in r['calls']],
                        first_points=[c[:3] for c in (r['calls'][0]['out'] or [])] if r['calls'] else None)
                   for s, r in list(zip(scr, reals))[:: max(1, len(scr) // 6)][:6]]
    rep.assumptions = [
        'torch.linspace/logspace/meshgrid/cos/acos/atan2/sqrt/log/clamp compute the functions they name up to rounding (observed: every coordinate compared with the Lean Float model)',
        'torch.rand returns values in [0,1), torch.randperm(n) a permutation of 0..n-1, torch.randint(0,2) values in {0,1} (the supports the theorems quantify over)',
        'torch.normal(mean, std) = z*std + mean with z standard normal from the same stream (checked on every recorded call by replaying torch.randn from the saved RNG state)',
        'GeneratorND option cut is at its default, abs_value is exercised without noise (where it must have no effect); base, r_noise_std, noise_std, xy_noise_std are exercised',
        'spherical: a + b + c > 0 is a hypothesis of the no-NaN theorem (draws a = b = c = 0 have probability 0; that single point is tested only if listed as a known finding)',
        'freshness is proved as injectivity in the draws (noise scale ≠ 0); that the RNG stream itself does not repeat is a property of torch',
    ]
    for f in failing[:3]:
        rep.violation(dict(kind='failing-input', input=f, broken=broken))
    if broken and not failing:
        rep.violation(dict(kind='unproved', broken=broken), found_input=False, name='unproved')
    return rep.finish(checker_cmd='cd lean && lake build NdeVerif.Proofs.C07 && lake env lean --run drivers/C07.lean < scripts')


def replay(path):
    import json
    import neurodiffeq  # noqa: F401
    d = json.load(open(path))
    s = d.get('input', {}).get('script')
    if not s:
        print('replay file names no script:', d.get('broken'))
        return 1
    r = real_run(s, s.get('forced'))
    fl = property_failures(s, r)
    if s['ncalls'] == 0 and r['ctor_error'] != 'ValueError':
        fl.append(f'malformed configuration was not rejected with ValueError ({r["ctor_error"]})')
    elif s['ncalls'] == 0:
        fl = []
    print('script', s, '->', fl or 'property holds')
    return 1 if fl else 0
