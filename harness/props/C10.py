"""C10 — bundle conditions hold per sample, parameters routed by the lookup table."""
import itertools
import random
import sys
from ..world import tie_check
from ..leangen import GenFile

PID = 'C10'
NTH = 4  # extra input columns


def configs(names):
    """every assignment of parameter names to column indices: each name is absent from the table or routed to one of the NTH
    columns; several names may share a column (the table is a dict name -> index, nothing requires it to be injective)"""
    out = []
    for choice in itertools.product([None] + list(range(NTH)), repeat=len(names)):
        out.append({n: c for n, c in zip(names, choice) if c is not None})
    return out


def cfg_name(prefix, lk):
    return prefix + ''.join(f'_{k.replace("_", "")}{v}' for k, v in sorted(lk.items())) if lk else prefix + '_none'


def all_cases():
    cases = []
    for lk in configs(['t_0', 'u_0', 'u_0_prime']):
        cases.append(('ivp_n', lk))
        if 'u_0_prime' not in lk:
            cases.append(('ivp_d', lk))
    for lk in configs(['t_0', 'u_0', 't_1', 'u_1']):
        if 't_0' in lk and lk.get('t_1') == lk['t_0']:
            continue        # t_0 and t_1 read from the same column: t_0 = t_1 in every row, outside the condition's domain
        cases.append(('bvp', lk))
    return cases


def scenario(kind, lk):
    from neurodiffeq.conditions import BundleIVP, BundleDirichletBVP

    def f(w):
        t = w.coord('t')
        th = [w.coord(f'th{i}') for i in range(NTH)]
        if kind in ('ivp_d', 'ivp_n'):
            c = dict(t_0=w.param('c_t0'), u_0=w.param('c_u0'))
            if kind == 'ivp_n':
                c['u_0_prime'] = w.param('c_up')
            cond = BundleIVP(bundle_param_lookup=dict(lk), **c)
        else:
            c = dict(t_0=w.param('c_t0'), u_0=w.param('c_u0'), t_1=w.param('c_t1'), u_1=w.param('c_u1'))
            cond = BundleDirichletBVP(bundle_param_lookup=dict(lk), **c)
        # other conditions of the same process (a system of ODEs has one per unknown): constructed and used between the
        # construction and the use of `cond`; they must not influence it
        others = [BundleIVP(t_0=w.param('o_t0'), u_0=w.param('o_u0'), u_0_prime=w.param('o_up'), bundle_param_lookup={'u_0': NTH - 1}),
                  BundleDirichletBVP(t_0=w.param('o_t0'), u_0=w.param('o_u0'), t_1=w.param('o_t1'), u_1=w.param('o_u1'),
                                     bundle_param_lookup={'t_1': 0, 'u_1': 1})]
        net = w.net('N', 1 + NTH)
        for o in others:
            o.enforce(net, t, *th)
        return cond.enforce(net, t, *th)
    return f


def generate(seeds=(1, 2, 3), tier='quick'):
    g = GenFile(PID)
    stats = {}
    cases = all_cases()
    if tier == 'quick':
        rng = random.Random(seeds[0])
        # always the empty and full lookups, plus a seeded sample
        fixed = [c for c in cases if not c[1] or len(c[1]) >= 3][:0]
        picked = rng.sample(cases, 16)
        must = [('ivp_d', {}), ('ivp_n', {'t_0': 1, 'u_0': 0, 'u_0_prime': 3}), ('bvp', {'t_0': 2, 'u_0': 0, 't_1': 3, 'u_1': 1}),
                ('bvp', {'t_1': 0}), ('ivp_d', {'t_0': 3}),
                # names sharing a column
                ('bvp', {'u_0': 0, 'u_1': 0}), ('ivp_n', {'t_0': 1, 'u_0': 1, 'u_0_prime': 1}), ('bvp', {'t_0': 2, 'u_0': 2, 't_1': 3, 'u_1': 3}),
                ('ivp_d', {'t_0': 0, 'u_0': 0}), ('ivp_n', {'u_0': 2, 'u_0_prime': 2})]
        cases = must + [c for c in picked if c not in must]
    stats['_space'] = dict(replays=0, total_configurations=len(all_cases()), traced=len(cases))
    # thorough: the enumeration is split over several modules (built in parallel by lake); quick: one module
    CH = 48
    chunks = [cases[i:i + CH] for i in range(0, len(cases), CH)] if tier != 'quick' else [cases]
    for ci, chunk in enumerate(chunks):
        gc = g if ci == 0 else GenFile(f'{PID}p{ci}')
        if ci:
            g.parts.append(gc)
        _emit_cases(gc, chunk, stats, seeds)
    return g, stats


def _emit_cases(g, cases, stats, seeds):
    for kind, lk in cases:
        name = cfg_name(kind, lk)
        sw, outs, st = tie_check(scenario(kind, lk), seeds[:2], n_rows=(3,))
        stats[name] = st
        tree = sw.tree(outs[0])
        vars_ = sw.ctx.vars
        g.add_def(name, tree, f'traced from /repo: {kind} with bundle_param_lookup={lk}; variables {vars_}')
        rv = list(vars_)

        def row(pname, ctor):
            return f'th{lk[pname]}' if pname in lk else ctor

        def V(n):
            return ('var', vars_.index(n))
        if kind in ('ivp_d', 'ivp_n'):
            t0r, u0r = row('t_0', 'c_t0'), row('u_0', 'c_u0')
            envt = [t0r] + rv[1:]
            g.thm_eq(f'{name}_value', rv[1:], envt, name, tree, V(u0r),
                     what=f'BundleIVP lookup {lk}: u(t0_row) = u0_row where t0_row={t0r}, u0_row={u0r}; all other columns arbitrary')
            if kind == 'ivp_n':
                upr = row('u_0_prime', 'c_up')
                g.thm_deriv(f'{name}_deriv', rv[1:], envt, 0, 't', name, tree, V(upr),
                            what=f"BundleIVP lookup {lk}: du/dt(t0_row) = u0'_row = {upr}")
        else:
            t0r, u0r, t1r, u1r = row('t_0', 'c_t0'), row('u_0', 'c_u0'), row('t_1', 'c_t1'), row('u_1', 'c_u1')
            hy = [('h01', f'{t0r} ≠ {t1r}')]
            g.thm_eq(f'{name}_left', rv[1:], [t0r] + rv[1:], name, tree, V(u0r), hyps=hy,
                     what=f'BundleDirichletBVP lookup {lk}: u(t0_row) = u0_row ({t0r} -> {u0r})')
            g.thm_eq(f'{name}_right', rv[1:], [t1r] + rv[1:], name, tree, V(u1r), hyps=hy,
                     what=f'BundleDirichletBVP lookup {lk}: u(t1_row) = u1_row ({t1r} -> {u1r})')


ASSUMPTIONS = [
    'theorems are over the reals, one per lookup configuration (quick: seeded sample + fixed corner cases; thorough: all 675 '
    'configuration/mode pairs over 4 extra columns, names may share a column)',
    'illegal parameter names are rejected by the constructor (checked in the search only)',
]


def search(seed, tier):
    import torch
    from neurodiffeq.conditions import BundleIVP, BundleDirichletBVP
    from neurodiffeq.neurodiffeq import diff
    from neurodiffeq.networks import FCNN
    rng = random.Random(seed)
    found = []
    cases = all_cases()
    rng.shuffle(cases)
    n = 5
    for kind, lk in (cases * 3)[: (240 if tier == 'quick' else 3 * len(cases))]:
        torch.manual_seed(rng.randrange(1 << 30))
        net = FCNN(1 + NTH, 1, hidden_units=(8,))
        th = [torch.tensor([[rng.uniform(-3, 3)] for _ in range(n)], requires_grad=True) for _ in range(NTH)]
        edge = lambda: rng.choice([rng.uniform(-3, 3), rng.uniform(-3, 3), 0.0, -0.0, 1.0, 0])
        c = dict(t_0=edge(), u_0=edge())
        if kind == 'ivp_n':
            c['u_0_prime'] = edge()
        if kind == 'bvp':
            c.update(t_1=rng.uniform(4, 8), u_1=rng.uniform(-3, 3))
            cond = BundleDirichletBVP(bundle_param_lookup=dict(lk), **c)
        else:
            cond = BundleIVP(bundle_param_lookup=dict(lk), **c)
        # a second condition constructed afterwards (systems of ODEs) must not influence the first
        other = BundleIVP(t_0=rng.uniform(-3, 3), u_0=rng.uniform(-3, 3), u_0_prime=rng.uniform(-3, 3), bundle_param_lookup={'u_0': NTH - 1})
        other2 = BundleDirichletBVP(t_0=rng.uniform(-3, 3), u_0=rng.uniform(-3, 3), t_1=rng.uniform(4, 8), u_1=rng.uniform(-3, 3),
                                    bundle_param_lookup={'t_1': 0})

        def rowv(p):
            return th[lk[p]].detach().clone() if p in lk else torch.full((n, 1), float(c[p]))
        reqs = [('t_0', 'u_0', 'v')]
        if kind == 'ivp_n':
            reqs.append(('t_0', 'u_0_prime', 'd'))
        if kind == 'bvp':
            reqs.append(('t_1', 'u_1', 'v'))
        for pt, val, k in reqs:
            t = rowv(pt).requires_grad_(True)
            u = cond.enforce(net, t, *th)
            got = (u if k == 'v' else diff(u, t)).detach()
            want = rowv(val)
            if not torch.allclose(got, want, rtol=1e-7, atol=1e-7):
                found.append(dict(kind=kind, lookup=lk, ctor=c, at=pt, expect=val, mode=k,
                                  thetas=[x.reshape(-1).tolist() for x in th], got=got.reshape(-1).tolist(), want=want.reshape(-1).tolist()))
        if len(found) >= 3:
            break
    for bad in ('magic', 'u1prime'):
        try:
            BundleIVP(0., 0., bundle_param_lookup={bad: 0})
            found.append(dict(kind='ctor', accepted_illegal_name=bad))
        except ValueError:
            pass
    return found


def check(tier, seed):
    from ..calcprop import check_calc
    return check_calc(sys.modules[__name__], tier, seed)
