"""C10 — bundle conditions hold per sample, parameters routed by the lookup table."""
import itertools
import random
import sys
from ..world import tie_check
from ..leangen import GenFile

STATIC = [('NdeVerif.Proofs.C10', 'NdeVerif.C10', ['getParam_congr', 'getParam_named', 'getParam_unnamed', 'getParam_negative_is_column', 'bundleIVP_value', 'bundleIVP_value_n',
                                                   'bundleIVP_deriv', 'bundleBVP_left', 'bundleBVP_right'])]

PID = 'C10'
NTH = 4  # extra input columns


def configs(names):
    """every assignment of parameter names to column indices: each name is absent from the table or routed to one of the NTH
    columns; several names may share a column (the table is a dict name -> index, nothing requires it to be injective)"""
    out = []
    for choice in itertools.product([None] + list(range(NTH)), repeat=len(names)):
        out.append({n: c for n, c in zip(names, choice) if c is not None})
    return out


def cfg_name(prefix, lk):
    return prefix + ''.join(f'_{k.replace("_", "")}{str(v).replace("-", "m")}' for k, v in sorted(lk.items())) if lk else prefix + '_none'


def all_cases():
    cases = []
    for lk in configs(['t_0', 'u_0', 'u_0_prime']):
        cases.append(('ivp_n', lk))
        if 'u_0_prime' not in lk:
            cases.append(('ivp_d', lk))
    for lk in configs(['t_0', 'u_0', 't_1', 'u_1']):
        if 't_0' in lk and lk.get('t_1') == lk['t_0']:
            continue        # t_0 and t_1 read from the same column: t_0 = t_1 in every row, outside the condition's domain
        cases.append(('bvp', lk))
    # a few tables with negative indices (the enumeration above is over the non-negative ones)
    cases += [('ivp_d', {'u_0': -1}), ('bvp', {'t_1': -1, 'u_1': -2}), ('ivp_n', {'t_0': -4, 'u_0_prime': -1}), ('bvp', {'t_0': -3, 'u_0': 1, 'u_1': -1})]
    return cases


def scenario(kind, lk):
    from neurodiffeq.conditions import BundleIVP, BundleDirichletBVP

    def f(w):
        t = w.coord('t')
        th = [w.coord(f'th{i}') for i in range(NTH)]
        if kind in ('ivp_d', 'ivp_n'):
            c = dict(t_0=w.param('c_t0'), u_0=w.param('c_u0'))
            if kind == 'ivp_n':
                c['u_0_prime'] = w.param('c_up')
            cond = BundleIVP(bundle_param_lookup=dict(lk), **c)
        else:
            c = dict(t_0=w.param('c_t0'), u_0=w.param('c_u0'), t_1=w.param('c_t1'), u_1=w.param('c_u1'))
            cond = BundleDirichletBVP(bundle_param_lookup=dict(lk), **c)
        # other conditions of the same process (a system of ODEs has one per unknown): constructed and used between the
        # construction and the use of `cond`; they must not influence it
        others = [BundleIVP(t_0=w.param('o_t0'), u_0=w.param('o_u0'), u_0_prime=w.param('o_up'), bundle_param_lookup={'u_0': NTH - 1}),
                  BundleDirichletBVP(t_0=w.param('o_t0'), u_0=w.param('o_u0'), t_1=w.param('o_t1'), u_1=w.param('o_u1'),
                                     bundle_param_lookup={'t_1': 0, 'u_1': 1})]
        net = w.net('N', 1 + NTH)
        for o in others:
            o.enforce(net, t, *th)
        return cond.enforce(net, t, *th)
    return f


def generate(seeds=(1, 2, 3), tier='quick'):
    g = GenFile(PID, imports=['NdeVerif.Proofs.C10'])
    stats = {}
    cases = all_cases()
    if tier == 'quick':
        rng = random.Random(seeds[0])
        # always the empty and full lookups, plus a seeded sample
        fixed = [c for c in cases if not c[1] or len(c[1]) >= 3][:0]
        picked = rng.sample(cases, 16)
        must = [('ivp_d', {}), ('ivp_n', {'t_0': 1, 'u_0': 0, 'u_0_prime': 3}), ('bvp', {'t_0': 2, 'u_0': 0, 't_1': 3, 'u_1': 1}),
                ('bvp', {'t_1': 0}), ('ivp_d', {'t_0': 3}),
                # names sharing a column
                ('bvp', {'u_0': 0, 'u_1': 0}), ('ivp_n', {'t_0': 1, 'u_0': 1, 'u_0_prime': 1}), ('bvp', {'t_0': 2, 'u_0': 2, 't_1': 3, 'u_1': 3}),
                ('ivp_d', {'t_0': 0, 'u_0': 0}), ('ivp_n', {'u_0': 2, 'u_0_prime': 2}),
                # negative indices (Python indexing: -1 is the last column)
                ('ivp_d', {'u_0': -1}), ('bvp', {'t_1': -1, 'u_1': -2}), ('ivp_n', {'t_0': -4, 'u_0_prime': -1})]
        cases = must + [c for c in picked if c not in must]
    stats['_space'] = dict(replays=0, total_configurations=len(all_cases()), traced=len(cases))
    # thorough: the enumeration is split over several modules (built in parallel by lake); quick: one module
    CH = 48
    chunks = [cases[i:i + CH] for i in range(0, len(cases), CH)] if tier != 'quick' else [cases]
    acc = []
    for ci, chunk in enumerate(chunks):
        gc = g if ci == 0 else GenFile(f'{PID}p{ci}', imports=['NdeVerif.Proofs.C10'])
        if ci:
            g.parts.append(gc)
        _emit_cases(gc, chunk, stats, seeds, acc)
    # operation-order model: every routed value clause holds EXACTLY in every arithmetic with the IEEE-754 identities
    from .. import fex as F
    nodes, ctxs, specs = {}, {}, []
    homes = {}
    for kind, lk, name, node, ctx, hpid, hns in acc:
        nodes[name], ctxs[name] = node, ctx
        homes[name] = (f'NdeVerif.Gen.{hpid}', hns)
        row = lambda pname, ctor: f'th{lk[pname] % NTH}' if pname in lk else ctor
        if kind in ('ivp_d', 'ivp_n'):
            specs.append((f'{name}_value_exact', name, [('t', row('t_0', 'c_t0'))], row('u_0', 'c_u0'),
                          f'BundleIVP lookup {lk}: u(t0_row) is exactly u0_row'))
        else:
            specs.append((f'{name}_left_exact', name, [('t', row('t_0', 'c_t0'))], row('u_0', 'c_u0'), f'BundleDirichletBVP lookup {lk}: u(t0_row) is exactly u0_row'))
            specs.append((f'{name}_right_exact', name, [('t', row('t_1', 'c_t1'))], row('u_1', 'c_u1'), f'BundleDirichletBVP lookup {lk}: u(t1_row) is exactly u1_row'))
    F.exact_part(g, PID, nodes, ctxs, specs, ex_home=homes)
    return g, stats


CTOR_FN = ('(fun n => if n = "t_0" then c_t0 else if n = "u_0" then c_u0 else if n = "u_0_prime" then c_up else '
           'if n = "t_1" then c_t1 else if n = "u_1" then c_u1 else 0)')


def _model_tie(g, kind, lk, name, tree, vars_, rv, row, V):
    """`{name}_is_model`: the traced code equals the hand model of Proofs/C10.lean (getParam + reference form) for this table"""
    from ..leangen import Obligation
    from ..calc import Calc, norm_inv
    from .. import ex as X
    one = ('nat', 1)
    t = V('t')
    N = ('app', 0, (0,) * (1 + NTH), tuple(V(v) for v in ['t'] + [f'th{i}' for i in range(NTH)]))
    names = {'ivp_d': ['t_0', 'u_0'], 'ivp_n': ['t_0', 'u_0', 'u_0_prime'], 'bvp': ['t_0', 'u_0', 't_1', 'u_1']}[kind]
    ctor = {'t_0': 'c_t0', 'u_0': 'c_u0', 'u_0_prime': 'c_up', 't_1': 'c_t1', 'u_1': 'c_u1'}
    res = {n: row(n, ctor[n]) for n in names}
    P = {n: V(res[n]) for n in names}
    ex_ = lambda a: ('un', 'exp', a)
    sub_ = lambda a, b: ('add', a, ('neg', b))
    if kind == 'ivp_d':
        ref = ('add', P['u_0'], ('mul', sub_(one, ex_(('add', ('neg', t), P['t_0']))), N))
        call = f"NdeVerif.C10.ivpD {res['t_0']} {res['u_0']}"
    elif kind == 'ivp_n':
        ref = ('add', ('add', P['u_0'], ('mul', sub_(t, P['t_0']), P['u_0_prime'])),
               ('mul', ('pow', sub_(one, ex_(('add', ('neg', t), P['t_0']))), 2), N))
        call = f"NdeVerif.C10.ivpN {res['t_0']} {res['u_0']} {res['u_0_prime']}"
    else:
        r = ('mul', sub_(t, P['t_0']), ('inv', sub_(P['t_1'], P['t_0'])))
        ref = ('add', ('add', ('mul', P['u_0'], sub_(one, r)), ('mul', P['u_1'], r)), ('mul', sub_(one, ex_(('mul', sub_(one, r), r))), N))
        call = f"NdeVerif.C10.bvp {res['t_0']} {res['u_0']} {res['t_1']} {res['u_1']}"
    hy = [('h01', f"{res['t_0']} ≠ {res['t_1']}")] if kind == 'bvp' else []
    ok = g.thm_eq(f'{name}_ref', rv, rv, name, tree, ref, hyps=hy, what=f'{name}: traced code = reference form with the resolved parameters')
    g.obligations = [o for o in g.obligations if o.name != f'{name}_ref']
    calc = Calc(rv)
    _, ntext = calc.poly(norm_inv(X.resolve(N)))
    lookup = '[' + ', '.join(f'("{k}", {v})' for k, v in lk.items()) + ']'
    thetas = '[' + ', '.join(f'th{i}' for i in range(NTH)) + ']'
    gp = [f'NdeVerif.C10.getParam {lookup} {CTOR_FN} {thetas} "{n}" = some {res[n]}' for n in names]
    gp_tac = 'by simp [NdeVerif.C10.getParam, NdeVerif.C10.pyGet, List.lookup]'
    binders = '(I : Interp) (' + ' '.join(rv) + ' : ℝ) ' + ' '.join(f'({h} : {t_})' for h, t_ in hy)
    if 'c_up' not in rv:
        binders += ' (c_up : ℝ)'
    for extra in ('c_t1', 'c_u1'):
        if extra not in rv:
            binders += f' ({extra} : ℝ)'
    env = '[' + ', '.join(rv) + ']'
    stmt = ' ∧ '.join(gp) + f' ∧ Ex.eval I (env {env}) {name} = {call} {ntext} t'
    args = ' '.join(rv + [h for h, _ in hy])
    lines = [f'theorem {name}_is_model {binders} :\n    {stmt} := by',
             '  refine ⟨' + ', '.join([gp_tac] * len(gp)) + ', ?_⟩',
             f'  rw [{name}_ref I {args}]',
             '  simp only [NdeVerif.C10.ivpD, NdeVerif.C10.ivpN, NdeVerif.C10.bvp, div_eq_mul_inv, sub_eq_add_neg]',
             '  try ring']
    g.raw('\n'.join(lines) + '\n', [Obligation(f'{name}_is_model', 'model', stmt,
          f'{kind} with lookup {lk}: _get_parameter resolves every parameter as the hand model getParam does, and the traced parameterisation is the '
          'reference form of Proofs/C10.lean (whose theorems hold for every table and any number of columns)')])
    return ok


def _emit_cases(g, cases, stats, seeds, acc=None):
    for kind, lk in cases:
        name = cfg_name(kind, lk)
        sw, outs, st = tie_check(scenario(kind, lk), seeds[:2], n_rows=(3,))
        stats[name] = st
        tree = sw.tree(outs[0])
        if acc is not None:
            acc.append((kind, lk, name, outs[0].cols[0], sw.ctx, g.pid, g.ns))
        vars_ = sw.ctx.vars
        g.add_def(name, tree, f'traced from /repo: {kind} with bundle_param_lookup={lk}; variables {vars_}')
        rv = list(vars_)

        def row(pname, ctor):
            return f'th{lk[pname] % NTH}' if pname in lk else ctor

        def V(n):
            return ('var', vars_.index(n))
        if kind in ('ivp_d', 'ivp_n'):
            t0r, u0r = row('t_0', 'c_t0'), row('u_0', 'c_u0')
            envt = [t0r] + rv[1:]
            g.thm_eq(f'{name}_value', rv[1:], envt, name, tree, V(u0r),
                     what=f'BundleIVP lookup {lk}: u(t0_row) = u0_row where t0_row={t0r}, u0_row={u0r}; all other columns arbitrary')
            if kind == 'ivp_n':
                upr = row('u_0_prime', 'c_up')
                g.thm_deriv(f'{name}_deriv', rv[1:], envt, 0, 't', name, tree, V(upr),
                            what=f"BundleIVP lookup {lk}: du/dt(t0_row) = u0'_row = {upr}")
        else:
            t0r, u0r, t1r, u1r = row('t_0', 'c_t0'), row('u_0', 'c_u0'), row('t_1', 'c_t1'), row('u_1', 'c_u1')
            hy = [('h01', f'{t0r} ≠ {t1r}')]
            g.thm_eq(f'{name}_left', rv[1:], [t0r] + rv[1:], name, tree, V(u0r), hyps=hy,
                     what=f'BundleDirichletBVP lookup {lk}: u(t0_row) = u0_row ({t0r} -> {u0r})')
            g.thm_eq(f'{name}_right', rv[1:], [t1r] + rv[1:], name, tree, V(u1r), hyps=hy,
                     what=f'BundleDirichletBVP lookup {lk}: u(t1_row) = u1_row ({t1r} -> {u1r})')
        _model_tie(g, kind, lk, name, tree, vars_, rv, row, V)


ASSUMPTIONS = [
    'theorems are over the reals, one per lookup configuration (quick: seeded sample + fixed corner cases; thorough: all 675 '
    'configuration/mode pairs over 4 extra columns, names may share a column)',
    'illegal parameter names are rejected by the constructor (checked in the search only)',
]


def search(seed, tier):
    import torch
    from neurodiffeq.conditions import BundleIVP, BundleDirichletBVP
    from neurodiffeq.neurodiffeq import diff
    from neurodiffeq.networks import FCNN
    rng = random.Random(seed)
    found = []
    cases = all_cases()
    rng.shuffle(cases)
    n = 5
    for kind, lk in (cases * 3)[: (240 if tier == 'quick' else 3 * len(cases))]:
        torch.manual_seed(rng.randrange(1 << 30))
        net = FCNN(1 + NTH, 1, hidden_units=(8,))
        th = [torch.tensor([[rng.uniform(-3, 3)] for _ in range(n)], requires_grad=True) for _ in range(NTH)]
        edge = lambda: rng.choice([rng.uniform(-3, 3), rng.uniform(-3, 3), 0.0, -0.0, 1.0, 0])
        c = dict(t_0=edge(), u_0=edge())
        if kind == 'ivp_n':
            c['u_0_prime'] = edge()
        if kind == 'bvp':
            c.update(t_1=rng.uniform(4, 8), u_1=rng.uniform(-3, 3))
            cond = BundleDirichletBVP(bundle_param_lookup=dict(lk), **c)
        else:
            cond = BundleIVP(bundle_param_lookup=dict(lk), **c)
        # a second condition constructed afterwards (systems of ODEs) must not influence the first
        other = BundleIVP(t_0=rng.uniform(-3, 3), u_0=rng.uniform(-3, 3), u_0_prime=rng.uniform(-3, 3), bundle_param_lookup={'u_0': NTH - 1})
        other2 = BundleDirichletBVP(t_0=rng.uniform(-3, 3), u_0=rng.uniform(-3, 3), t_1=rng.uniform(4, 8), u_1=rng.uniform(-3, 3),
                                    bundle_param_lookup={'t_1': 0})

        def rowv(p):
            return th[lk[p]].detach().clone() if p in lk else torch.full((n, 1), float(c[p]))      # th[-1] is the last column
        reqs = [('t_0', 'u_0', 'v')]
        if kind == 'ivp_n':
            reqs.append(('t_0', 'u_0_prime', 'd'))
        if kind == 'bvp':
            reqs.append(('t_1', 'u_1', 'v'))
        for pt, val, k in reqs:
            t = rowv(pt).requires_grad_(True)
            u = cond.enforce(net, t, *th)
            got = (u if k == 'v' else diff(u, t)).detach()
            want = rowv(val)
            if not torch.allclose(got, want, rtol=1e-7, atol=1e-7):
                found.append(dict(kind=kind, lookup=lk, ctor=c, at=pt, expect=val, mode=k,
                                  thetas=[x.reshape(-1).tolist() for x in th], got=got.reshape(-1).tolist(), want=want.reshape(-1).tolist()))
        if len(found) >= 3:
            break
    for bad in ('magic', 'u1prime'):
        try:
            BundleIVP(0., 0., bundle_param_lookup={bad: 0})
            found.append(dict(kind='ctor', accepted_illegal_name=bad))
        except ValueError:
            pass
    return found


def runtime_checks():
    """exact observations on the real code, every run: negative column indices, and a network of lower precision than the samples
    (the parameters routed from the columns keep the samples' precision, so the condition stays exact at t_0 / t_1)"""
    import torch
    from neurodiffeq.conditions import BundleIVP, BundleDirichletBVP
    from neurodiffeq.neurodiffeq import diff
    from neurodiffeq.networks import FCNN
    bad = []
    torch.manual_seed(3)
    n = 5
    col = lambda: torch.rand(n, 1, dtype=torch.float64) * 2 - 1
    th = [col() for _ in range(3)]
    # negative indices
    net = FCNN(4, 1, hidden_units=(6,))
    c = BundleIVP(t_0=0.3, u_0=1.9, bundle_param_lookup={'u_0': -1})
    got = c.enforce(net, torch.full((n, 1), 0.3), *th).detach()
    if not torch.allclose(got, th[-1], rtol=0, atol=1e-14):
        bad.append(dict(case='negative index in the lookup table', lookup={'u_0': -1}, violated='u(t_0) is not the last column',
                        got=got.reshape(-1).tolist(), want=th[-1].reshape(-1).tolist()))
    c = BundleDirichletBVP(t_0=0.0, u_0=0.5, t_1=1.0, u_1=2.0, bundle_param_lookup={'u_1': -2, 't_1': -1})
    t1 = th[-1] + 3.0
    got = c.enforce(net, t1.clone(), th[0], th[1], t1).detach()
    if not torch.allclose(got, th[1], rtol=0, atol=1e-13):
        bad.append(dict(case='negative index in the lookup table', lookup={'u_1': -2, 't_1': -1}, violated='u(t_1) is not column -2',
                        got=got.reshape(-1).tolist(), want=th[1].reshape(-1).tolist()))
    # the lookup table is a public attribute: re-assigning it (or editing it in place) re-routes the parameters
    c = BundleIVP(t_0=0.3, u_0=1.9, bundle_param_lookup={'u_0': 0})
    c.enforce(net, torch.full((n, 1), 0.3), *th)
    c.bundle_param_lookup = {'u_0': 2}
    got = c.enforce(net, torch.full((n, 1), 0.3), *th).detach()
    c.bundle_param_lookup['t_0'] = 1
    got2 = c.enforce(net, th[1].clone(), *th).detach()
    if not torch.allclose(got, th[2], rtol=0, atol=1e-14) or not torch.allclose(got2, th[2], rtol=0, atol=1e-14):
        bad.append(dict(case='bundle_param_lookup re-assigned / edited after construction', violated='parameters are still routed by the old table',
                        got=got.reshape(-1).tolist(), want=th[2].reshape(-1).tolist()))
    # column indices of any integer type (numpy / torch integers, as produced by np.arange or a config loader)
    import numpy as np
    for idx, what in ((np.int64(2), 'numpy.int64'), (np.int32(1), 'numpy.int32'), (np.arange(3)[2], 'element of numpy.arange'), (True, 'bool (column 1)'),
                      (torch.tensor(2), '0-dim integer tensor')):
        try:
            c = BundleIVP(t_0=0.3, u_0=1.9, bundle_param_lookup={'u_0': idx})
            got = c.enforce(net, torch.full((n, 1), 0.3), *th).detach()
            want = th[int(idx)]
            if not torch.allclose(got, want, rtol=0, atol=1e-14):
                bad.append(dict(case='column index that is not a built-in int', index_type=what, violated='u(t_0) is not the named column',
                                got=got.reshape(-1).tolist(), want=want.reshape(-1).tolist()))
        except Exception as e:
            if 'tensor' not in what:       # indexing a tuple with a 0-dim tensor is up to Python; the others must work
                bad.append(dict(case='column index that is not a built-in int', index_type=what, error=f'{type(e).__name__}: {e}'))
    # constructor values that are tensors / arrays are used AS THEY ARE at evaluation time (a learnable or later-updated boundary value)
    u0t, t0t = torch.tensor(0.7, dtype=torch.float64), torch.tensor(0.3, dtype=torch.float64)
    c = BundleIVP(t_0=t0t, u_0=u0t, bundle_param_lookup={'u_0_prime': 0}, u_0_prime=None)
    c.enforce(net, torch.full((n, 1), 0.3, dtype=torch.float64), *th)
    u0t += 1.5
    t0t -= 0.2
    tt = torch.full((n, 1), 0.1, dtype=torch.float64, requires_grad=True)
    u = c.enforce(net, tt, *th)
    du = diff(u, tt).detach()
    if not torch.allclose(u.detach(), torch.full((n, 1), 2.2, dtype=torch.float64), rtol=0, atol=1e-12) or not torch.allclose(du, th[0], rtol=0, atol=1e-12):
        bad.append(dict(case='tensor-valued constructor parameters updated in place after construction', violated='the condition still uses the '
                        'values of construction time', got=u.detach().reshape(-1).tolist(), want=2.2, derivative=du.reshape(-1).tolist()))
    u1t = torch.tensor(2.0, dtype=torch.float64, requires_grad=True)      # a learnable right-end value
    c = BundleDirichletBVP(t_0=0.0, u_0=None, t_1=1.0, u_1=u1t, bundle_param_lookup={'u_0': 1})
    try:
        out = c.enforce(net, torch.full((n, 1), 1.0, dtype=torch.float64), *th)
        g, = torch.autograd.grad(out.sum(), u1t, allow_unused=True)
        if g is None or abs(float(g) - n) > 1e-12:
            bad.append(dict(case='learnable (requires_grad) constructor parameter', violated='u(t_1) does not depend on the u_1 tensor given to the constructor',
                            gradient=None if g is None else float(g), want=n))
    except Exception as e:
        bad.append(dict(case='learnable (requires_grad) constructor parameter', violated='enforce() raises when a boundary value is a leaf tensor that requires grad',
                        error=f'{type(e).__name__}: {e}'))
    # conditions built without a table (or with an empty one) do not share one: filling in one table leaves the others alone
    c1, c2 = BundleIVP(t_0=0.3, u_0=1.9), BundleIVP(t_0=0.3, u_0=0.4)
    c3, c4 = BundleDirichletBVP(0.0, 0.5, 1.0, 2.0), BundleIVP(t_0=0.3, u_0=0.4, bundle_param_lookup={})
    c1.bundle_param_lookup['u_0'] = 1
    c4.bundle_param_lookup['u_0'] = 2
    g1 = c1.enforce(net, torch.full((n, 1), 0.3), *th).detach()
    g2 = c2.enforce(net, torch.full((n, 1), 0.3), *th).detach()
    g3 = c3.enforce(net, torch.full((n, 1), 0.0), *th).detach()
    g5 = BundleIVP(t_0=0.3, u_0=-0.6).enforce(net, torch.full((n, 1), 0.3), *th).detach()
    if not torch.allclose(g1, th[1], rtol=0, atol=1e-14) or not torch.allclose(g2, torch.full((n, 1), 0.4, dtype=g2.dtype), rtol=0, atol=1e-6) \
            or not torch.allclose(g3, torch.full((n, 1), 0.5, dtype=g3.dtype), rtol=0, atol=1e-6) \
            or not torch.allclose(g5, torch.full((n, 1), -0.6, dtype=g5.dtype), rtol=0, atol=1e-6):
        bad.append(dict(case='lookup table of one condition filled in after construction', violated='another condition (built without a table) is '
                        're-routed too', first=g1.reshape(-1).tolist(), second=g2.reshape(-1).tolist(), third=g3.reshape(-1).tolist(), later=g5.reshape(-1).tolist()))
    # extra columns of another type than the samples (an integer-valued index column, a float32 column in a float64 run): constructor
    # values are used as given, whatever the un-named columns look like
    t64 = lambda v: torch.full((n, 1), v, dtype=torch.float64)
    thd = [c_.double() for c_ in th]
    pdt = next(net.parameters()).dtype
    net5 = lambda x: net(x.to(pdt)).double()
    for what, first in (('int64 first column', torch.arange(n).reshape(n, 1)), ('float32 first column', th[0].float())):
        try:
            c = BundleIVP(t_0=0.3, u_0=1.9, u_0_prime=0.7, bundle_param_lookup={'u_0': 1})
            tt_ = t64(0.3).requires_grad_()
            u = c.enforce(lambda x: net5(x.double()), tt_, first, thd[1], thd[2])
            du = diff(u, tt_).detach()
            if not torch.allclose(u.detach(), thd[1], rtol=0, atol=1e-14) or not torch.allclose(du, t64(0.7), rtol=0, atol=1e-12):
                bad.append(dict(case=f'un-named extra column of another type ({what})', violated='u(t_0) / u\'(t_0) are not the routed / constructor values',
                                value_error=float((u.detach() - thd[1]).abs().max()), derivative=du.reshape(-1).tolist(), want_derivative=0.7))
        except Exception as e:
            bad.append(dict(case=f'un-named extra column of another type ({what})', error=f'{type(e).__name__}: {e}'))
    # one condition object used in single precision first and in double precision afterwards (a float32 run re-checked in float64)
    for mk, pts in ((lambda: BundleIVP(t_0=0.3, u_0=1.9, bundle_param_lookup={'u_0_prime': 0}, u_0_prime=None), ((0.3, 1.9),)),
                    (lambda: BundleDirichletBVP(t_0=0.1, u_0=0.7, t_1=1.3, u_1=None, bundle_param_lookup={'u_1': 2}), ((0.1, 0.7),))):
        c = mk()
        for pt, want in pts:
            c.enforce(lambda x: net(x.to(pdt)).float(), torch.full((n, 1), pt, dtype=torch.float32), *[c_.float() for c_ in th])
            got = c.enforce(net5, t64(pt), *thd).detach()
            if got.dtype != torch.float64 or not torch.allclose(got, t64(want), rtol=0, atol=1e-14):
                bad.append(dict(case='condition used in float32 first, then in float64', condition=type(c).__name__, violated='constructor values are not '
                                'reproduced to double precision', max_abs_error=float((got.double() - want).abs().max())))
    # the extra columns belong to the caller: enforcing a condition leaves them as they are (they are used again, e.g. for the other end)
    cols = [c_.clone() for c_ in th]
    keep = [c_.clone() for c_ in cols]
    for c in (BundleDirichletBVP(t_0=0.0, u_0=None, t_1=1.0, u_1=None, bundle_param_lookup={'u_0': 0, 'u_1': 1}),
              BundleIVP(t_0=None, u_0=None, u_0_prime=None, bundle_param_lookup={'t_0': 2, 'u_0': 0, 'u_0_prime': 1})):
        c.enforce(net, torch.full((n, 1), 0.37), *cols)
        if any(not torch.equal(a_, b_) for a_, b_ in zip(cols, keep)):
            bad.append(dict(case='extra columns after enforce()', condition=type(c).__name__, violated='a column tensor of the caller was modified in place',
                            changed=[i for i, (a_, b_) in enumerate(zip(cols, keep)) if not torch.equal(a_, b_)]))
            break
    # end points from the columns, far from the origin compared with the length of the domain (calendar years, time stamps), values representable
    # in the working precision: both ends are reproduced to rounding in either precision
    import random as _r
    rr_ = _r.Random(11)
    for dt_, base in ((torch.float32, 2020.0), (torch.float64, 1.7e9)):
        t0c = torch.tensor([[base + rr_.uniform(0, 3)] for _ in range(n)], dtype=dt_)
        t1c = t0c + torch.tensor([[rr_.uniform(0.3, 1.5)] for _ in range(n)], dtype=dt_)
        u0c, u1c = torch.tensor([[rr_.uniform(-2, 2)] for _ in range(n)], dtype=dt_), torch.tensor([[rr_.uniform(-2, 2)] for _ in range(n)], dtype=dt_)
        c = BundleDirichletBVP(t_0=None, u_0=None, t_1=None, u_1=None, bundle_param_lookup={'t_0': 0, 'u_0': 1, 't_1': 2, 'u_1': 3})
        f_ = lambda x: torch.sin(x[:, :1] * 1e-3) + 0.2
        e0 = float((c.enforce(f_, t0c.clone(), t0c, u0c, t1c, u1c).detach() - u0c).abs().max())
        e1 = float((c.enforce(f_, t1c.clone(), t0c, u0c, t1c, u1c).detach() - u1c).abs().max())
        eps = torch.finfo(dt_).eps
        if e0 > 16 * eps or e1 > 16 * eps:
            bad.append(dict(case='bundled end points far from the origin', dtype=str(dt_), around=base, violated='end values not reproduced to rounding',
                            left_error_in_units_of_roundoff=e0 / eps, right_error_in_units_of_roundoff=e1 / eps))
    # very short domains whose end points come from the columns (nanosecond windows in SI seconds): u(t_1 row) is the row's u_1
    for dt_, length in ((torch.float64, 1.0e-9), (torch.float64, 3.0e-12)):
        try:
            t0c = torch.tensor([[0.0], [1.0], [0.5], [2.0], [0.25]], dtype=dt_)
            t1c = t0c + length
            u1c = torch.tensor([[0.3], [-1.2], [2.0], [0.7], [-0.4]], dtype=dt_)
            c = BundleDirichletBVP(t_0=None, u_0=5.0, t_1=None, u_1=None, bundle_param_lookup={'t_0': 0, 't_1': 1, 'u_1': 2})
            netb = (lambda x: net(x[:, :4].to(pdt)).to(dt_)) if True else None
            got1 = c.enforce(lambda x: torch.sin(x[:, :1] * 3) + 0.2, t1c.clone(), t0c, t1c, u1c).detach()
            got0 = c.enforce(lambda x: torch.sin(x[:, :1] * 3) + 0.2, t0c.clone(), t0c, t1c, u1c).detach()
            if not torch.allclose(got1, u1c, rtol=0, atol=1e-5) or not torch.allclose(got0, torch.full_like(got0, 5.0), rtol=0, atol=1e-5):
                bad.append(dict(case='bundled end points of a very short domain', length=length, dtype=str(dt_), violated='u(t_1 row) is not the row\'s u_1 (or u(t_0 row) not u_0)',
                                right=got1.reshape(-1).tolist(), want_right=u1c.reshape(-1).tolist(), left=got0.reshape(-1).tolist()))
        except Exception as e:
            bad.append(dict(case='bundled end points of a very short domain', length=length, error=f'{type(e).__name__}: {e}'))
    # rows whose u_0 dwarfs u_1: the right-end value is still exactly the row's u_1
    big = [torch.full((n, 1), 1.0e9), torch.full((n, 1), 1.25e-3), th[2]]
    c = BundleDirichletBVP(t_0=0.0, u_0=None, t_1=1.0, u_1=None, bundle_param_lookup={'u_0': 0, 'u_1': 1})
    got = c.enforce(net, torch.full((n, 1), 1.0), *big).detach()
    if not torch.allclose(got, big[1], rtol=1e-13, atol=0):
        bad.append(dict(case='|u_0| much larger than |u_1| in the same row', violated='u(t_1) is not the row\'s u_1', got=got.reshape(-1).tolist(), want=1.25e-3))
    # a float32 network on float64 samples
    net32 = FCNN(4, 1, hidden_units=(6,)).float()
    wrap = lambda x: net32(x.float())
    for lk, ctor in (({'t_0': 0, 'u_0': 1}, dict(t_0=0.1, u_0=0.7)), ({'u_0': 2}, dict(t_0=0.37, u_0=0.7))):
        c = BundleIVP(bundle_param_lookup=lk, **ctor)
        t0 = th[lk['t_0']] if 't_0' in lk else torch.full((n, 1), ctor['t_0'], dtype=torch.float64)
        u0 = th[lk['u_0']]
        got = c.enforce(wrap, t0.clone(), *th).detach()
        if got.dtype != torch.float64 or not torch.allclose(got, u0, rtol=0, atol=1e-14):
            bad.append(dict(case='float32 network on float64 samples', lookup=lk, violated='u(t_0) is not exactly the row\'s u_0',
                            max_abs_error=float((got.double() - u0).abs().max()), dtype=str(got.dtype)))
    return bad


def check(tier, seed):
    from ..calcprop import check_calc
    return check_calc(sys.modules[__name__], tier, seed)
