"""C17 — function bases are eigenfunctions in the documented order; basis-space Laplacians are exact.
Translator engine: the 25 hard-coded harmonics, RealSphericalHarmonics, RealFourierSeries, HarmonicsLaplacian and
FourierLaplacian are traced from source; Legendre/zonal parts carry explicit float-rounding bounds."""
import sys
from fractions import Fraction

from ..world import tie_check, SymWorld
from ..leangen import GenFile, Obligation
from .. import ex as X
from .C12 import retarget

PID = 'C17'

LM = [(l, m) for l in range(5) for m in range(-l, l + 1)]
NAMES = ['Y0_0', 'Y1n1', 'Y1_0', 'Y1p1', 'Y2n2', 'Y2n1', 'Y2_0', 'Y2p1', 'Y2p2', 'Y3n3', 'Y3n2', 'Y3n1', 'Y3_0', 'Y3p1', 'Y3p2',
         'Y3p3', 'Y4n4', 'Y4n3', 'Y4n2', 'Y4n1', 'Y4_0', 'Y4p1', 'Y4p2', 'Y4p3', 'Y4p4']


def add(*ts):
    acc = ts[0]
    for t in ts[1:]:
        acc = ('add', acc, t)
    return acc


def mul(*ts):
    acc = ts[0]
    for t in ts[1:]:
        acc = ('mul', acc, t)
    return acc


def neg(a):
    return ('neg', a)


SIN = lambda a: ('un', 'sin', a)


def generate(seeds=(1, 2, 3), tier='quick'):
    import neurodiffeq.function_basis as FB
    from neurodiffeq import operators as ops
    g = GenFile(PID, imports=['NdeVerif.Proofs.C17F'])
    stats = {}
    TH, PH = ('var', 0), ('var', 1)
    hy = [('hs', 'Real.sin th ≠ 0')]
    trees = {}
    # ---- the 25 hard-coded harmonics ------------------------------------------------------------------
    for k, (name, (l, m)) in enumerate(zip(NAMES, LM)):
        fn = getattr(FB, name)

        def scen(w, fn=fn):
            th = w.coord('th', 0.2, 2.9); ph = w.coord('ph', 0.0, 6.2)
            return fn(th, ph)
        sw, outs, st = tie_check(scen, seeds[:2], n_rows=(3,))
        stats[name] = st
        t = sw.tree(outs[0])
        trees[name] = t
        g.add_def(name, t, f'traced from /repo: function_basis.{name} (l={l}, m={m}); variables {sw.ctx.vars}')
        rv = ['th', 'ph']
        # angular Laplacian: (1/sin θ) ∂θ (sin θ ∂θ Y) + (1/sin² θ) ∂φφ Y = -l(l+1) Y
        lap = add(mul(('inv', SIN(TH)), ('D', 0, mul(SIN(TH), ('D', 0, t)))), mul(('inv', ('pow', SIN(TH), 2)), ('D', 1, ('D', 1, t))))
        g.add_def(f'{name}_lapS', lap, f'angular Laplacian of {name} (symbolic derivative of the traced expression)')
        g.thm_eq(f'{name}_eigen', rv, rv, f'{name}_lapS', lap, mul(neg(('nat', l * (l + 1))), t), hyps=hy, defs=[name],
                 what=f'{name} is an eigenfunction of the angular Laplacian with eigenvalue -{l}({l}+1)')
        dpp = ('D', 1, ('D', 1, t))
        g.add_def(f'{name}_dphiphi', dpp, f'second phi-derivative of {name}')
        g.thm_eq(f'{name}_order', rv, rv, f'{name}_dphiphi', dpp, mul(neg(('nat', m * m)), t), defs=[name],
                 what=f'{name} has azimuthal order |m| = {abs(m)}: d²Y/dφ² = -{m * m} Y')
        if m < 0:
            g.thm_eq(f'{name}_sine_type', ['th'], ['th', '(0:ℝ)'], name, t, ('nat', 0),
                     what=f'{name} is of sine type (vanishes at φ = 0): negative order, as the documented column order requires')
        else:
            dp = ('D', 1, t)
            g.add_def(f'{name}_dphi', dp, f'phi-derivative of {name}')
            g.thm_eq(f'{name}_cosine_type', ['th'], ['th', '(0:ℝ)'], f'{name}_dphi', dp, ('nat', 0), defs=[name],
                     what=f'{name} is of cosine type (dY/dφ = 0 at φ = 0): non-negative order')
    # ---- RealSphericalHarmonics column order ----------------------------------------------------------
    degrees = range(5) if tier == 'thorough' else (0, 2, 4)
    for md in degrees:
        def scen(w, md=md):
            th = w.coord('th', 0.2, 2.9); ph = w.coord('ph', 0.0, 6.2)
            return FB.RealSphericalHarmonics(max_degree=md)(th, ph)
        sw, outs, st = tie_check(scen, seeds[:1], n_rows=(2,))
        stats[f'rsh{md}'] = st
        ncol = len(outs[0].cols)
        if ncol != (md + 1) ** 2:
            g.failures.append((f'rsh{md}', f'{ncol} columns instead of {(md + 1) ** 2}'))
        for k in range(ncol):
            t = sw.tree(outs[0], k)
            g.add_def(f'rsh{md}_c{k}', t, f'traced: RealSphericalHarmonics(max_degree={md}) column {k}')
            g.thm_eq(f'rsh{md}_c{k}_is_{NAMES[k]}', ['th', 'ph'], ['th', 'ph'], f'rsh{md}_c{k}', t, trees[NAMES[k]],
                     what=f'column {k} of RealSphericalHarmonics({md}) is {NAMES[k]} (degree-major, m = -l..l)')
    # ---- HarmonicsLaplacian = spherical Laplacian of the expansion -----------------------------------
    for md in ((0, 1, 2) if tier == 'quick' else (0, 1, 2, 3, 4)):
        K = (md + 1) ** 2

        def scen_op(w, md=md, K=K):
            r = w.coord('r', 0.3, 3.0); th = w.coord('th', 0.2, 2.9); ph = w.coord('ph', 0.0, 6.2)
            R = w.net('R', 1, K)(r)
            return FB.HarmonicsLaplacian(max_degree=md)(R, r, th, ph)

        def scen_ref(w, md=md, K=K):
            import torch
            r = w.coord('r', 0.3, 3.0); th = w.coord('th', 0.2, 2.9); ph = w.coord('ph', 0.0, 6.2)
            R = w.net('R', 1, K)(r)
            u = torch.sum(R * FB.RealSphericalHarmonics(max_degree=md)(th, ph), dim=1, keepdim=True)
            return ops.spherical_laplacian(u, r, th, ph)
        sw, outs, st = tie_check(scen_op, seeds[:1], n_rows=(3,))
        sw2, outs2, st2 = tie_check(scen_ref, seeds[:1], n_rows=(3,))
        stats[f'hlap{md}'] = st
        stats[f'hlap{md}_ref'] = st2
        t = sw.tree(outs[0])
        ref = retarget_unresolved(sw2.tree(outs2[0]), sw2.ctx, sw.ctx)
        g.add_def(f'hlap{md}', t, f'traced: HarmonicsLaplacian(max_degree={md})(R(r), r, θ, φ); symbols {sw.ctx.syms}')
        g.add_def(f'hlap{md}_ref', ref, f'traced: operators.spherical_laplacian(sum_k R_k(r) * RealSphericalHarmonics({md})(θ, φ)_k, r, θ, φ)')
        g.thm_eq(f'hlap{md}_eq_spherical_laplacian', ['r', 'th', 'ph'], ['r', 'th', 'ph'], f'hlap{md}', t, ref,
                 hyps=[('hr', 'r ≠ 0'), ('hs', 'Real.sin th ≠ 0')], rhs_name=f'hlap{md}_ref', heartbeats=4000000,
                 what=f'HarmonicsLaplacian({md}) applied to coefficient symbols R_k(r) equals operators.spherical_laplacian of sum_k R_k(r) Y_k(θ,φ)')
    # ---- real Fourier series and its Laplacian ---------------------------------------------------------
    for md in ((0, 1, 3) if tier == 'quick' else (0, 1, 2, 3, 6, 12)):
        def scen(w, md=md):
            ph = w.coord('ph', 0.0, 6.2)
            return FB.RealFourierSeries(max_degree=md)(ph)
        sw, outs, st = tie_check(scen, seeds[:1], n_rows=(2,))
        stats[f'fourier{md}'] = st
        want = [('rat', 1, 2)]
        for d in range(1, md + 1):
            want += [('un', 'sin', mul(('nat', d), ('var', 0))), ('un', 'cos', mul(('nat', d), ('var', 0)))]
        if len(outs[0].cols) != 2 * md + 1:
            g.failures.append((f'fourier{md}', f'{len(outs[0].cols)} columns instead of {2 * md + 1}'))
        for k in range(len(outs[0].cols)):
            t = sw.tree(outs[0], k)
            g.add_def(f'fourier{md}_c{k}', t, f'traced: RealFourierSeries({md}) column {k}')
            g.thm_eq(f'fourier{md}_c{k}_eq', ['ph'], ['ph'], f'fourier{md}_c{k}', t, want[k],
                     what=f'RealFourierSeries({md}) column {k} is the documented term (1/2, sin φ, cos φ, sin 2φ, …)')
            stmt_ = f'Ex.eval I (env [ph]) fourier{md}_c{k} = NdeVerif.C17F.term {k} ph'
            g.raw(f'theorem fourier{md}_c{k}_is_term (I : Interp) (ph : ℝ) :\n    {stmt_} := by\n'
                  f'  rw [fourier{md}_c{k}_eq I ph]\n  simp [NdeVerif.C17F.term, NdeVerif.C17F.deg]\n',
                  [Obligation(f'fourier{md}_c{k}_is_term', 'model', stmt_, f'column {k} of the traced RealFourierSeries({md}) is column {k} of the hand model '
                              'NdeVerif.C17F.term (whose Laplacian theorem holds for every max_degree)')])
        K = 2 * md + 1

        def scen_op(w, md=md, K=K):
            r = w.coord('r', 0.3, 3.0); ph = w.coord('ph', 0.0, 6.2)
            return FB.FourierLaplacian(max_degree=md)(w.net('R', 1, K)(r), r, ph)
        sw, outs, st = tie_check(scen_op, seeds[:1], n_rows=(3,))
        stats[f'flap{md}'] = st
        t = sw.tree(outs[0])

        def scen_u(w, md=md, K=K):
            import torch
            r = w.coord('r', 0.3, 3.0); ph = w.coord('ph', 0.0, 6.2)
            return torch.sum(w.net('R', 1, K)(r) * FB.RealFourierSeries(max_degree=md)(ph), dim=1, keepdim=True)
        sw2 = SymWorld()
        u = retarget_unresolved(sw2.tree(scen_u(sw2)), sw2.ctx, sw.ctx)
        rr = ('var', 0)
        polar = add(('D', 0, ('D', 0, u)), mul(('D', 0, u), ('inv', rr)), mul(('D', 1, ('D', 1, u)), ('inv', ('pow', rr, 2))))
        g.add_def(f'flap{md}', t, f'traced: FourierLaplacian({md})(R(r), r, φ)')
        g.add_def(f'flap{md}_ref', polar, f'u_rr + u_r / r + u_φφ / r² for u = sum_i R_i(r) * RealFourierSeries({md})(φ)_i (symbolic derivatives of the traced expansion)')
        g.thm_eq(f'flap{md}_eq_polar_laplacian', ['r', 'ph'], ['r', 'ph'], f'flap{md}', t, polar, hyps=[('hr', 'r ≠ 0')],
                 rhs_name=f'flap{md}_ref', heartbeats=4000000,
                 what=f'FourierLaplacian({md}) = u_rr + u_r/r + u_φφ/r² of u = sum_i R_i(r) F_i(φ)')
        # the traced operator is the hand model NdeVerif.C17F.fourierLap with K columns (theorem fourierLap_eq_polar: every K)
        from ..calc import Calc, norm_inv
        want_cols = [('rat', 1, 2)]
        for d in range(1, md + 1):
            want_cols += [('un', 'sin', mul(('nat', d), ('var', 1))), ('un', 'cos', mul(('nat', d), ('var', 1)))]
        sym = lambda k: sw.ctx.syms.index(f'R.{k}' if K > 1 else 'R')
        Rk = lambda k, o: ('app', sym(k), (o,), (rr,))
        terms_ = [mul(add(add(mul(Rk(k, 1), ('inv', rr)), Rk(k, 2)), mul(mul(neg(('nat', ((k + 1) // 2) ** 2)), Rk(k, 0)), ('inv', ('pow', rr, 2)))), want_cols[k])
                  for k in range(K)]
        form = add(*terms_)
        g.thm_eq(f'flap{md}_form', ['r', 'ph'], ['r', 'ph'], f'flap{md}', t, form, hyps=[('hr', 'r ≠ 0')], heartbeats=4000000,
                 what=f'FourierLaplacian({md}) written out column by column')
        g.obligations = [o for o in g.obligations if o.name != f'flap{md}_form']
        calc = Calc(['r', 'ph'])
        txt = lambda o: '[' + ', '.join(calc.poly(norm_inv(X.resolve(Rk(k, o))))[1] for k in range(K)) + ']'
        stmt_ = (f'Ex.eval I (env [r, ph]) flap{md} = NdeVerif.C17F.fourierLap {K} (fun k => {txt(0)}.getD k 0) (fun k => {txt(1)}.getD k 0) '
                 f'(fun k => {txt(2)}.getD k 0) r ph')
        g.raw(f'set_option maxHeartbeats 4000000 in\ntheorem flap{md}_is_model (I : Interp) (r ph : ℝ) (hr : r ≠ 0) :\n    {stmt_} := by\n'
              f'  rw [flap{md}_form I r ph hr]\n'
              '  simp [NdeVerif.C17F.fourierLap, Finset.sum_range_succ, NdeVerif.C17F.term, NdeVerif.C17F.coeff, NdeVerif.C17F.deg, div_eq_mul_inv]\n'
              '  try ring\n',
              [Obligation(f'flap{md}_is_model', 'model', stmt_, f'the traced FourierLaplacian({md}) is NdeVerif.C17F.fourierLap with {K} columns; '
                          'fourierLap_eq_polar / expansion_derivs prove the polar-Laplacian identity for every number of columns')])
    legendre_part(g, stats, FB, seeds, tier)
    zonal_laplacian_part(g, stats, FB, ops, seeds, tier)
    # ---- orthogonality and common normalisation of the 25 harmonics (own modules, see C17orth.py) -------------------
    from .C17orth import generate_orth
    g.parts, ostats = generate_orth(trees, NAMES, LM)
    stats['orthogonality'] = dict(replays=0, **ostats)
    return g, stats


def legendre_digits(l):
    """decimal digits of the bound proved for LegendrePolynomial(l) on [-1, 1] (the float coefficients lose accuracy with l)"""
    return 10 if l <= 12 else 8 if l <= 16 else 6 if l <= 20 else 4 if l <= 24 else 3


def legendre_part(g, stats, FB, seeds, tier):
    """Legendre polynomials / zonal harmonics: scipy's float coefficients are within 1e-12 of the exact ones on [-1, 1]"""
    import sympy as sp
    from ..leangen import UNFOLD
    xs = sp.Symbol('x')
    degs = (list(range(0, 7)) + [24]) if tier == 'quick' else list(range(0, 27))
    g.raw('open NdeVerif in\n')
    for l in degs:
        def scen(w, l=l):
            x = w.coord('x', -1.0, 1.0)
            return FB.LegendrePolynomial(l)(x)
        sw, outs, st = tie_check(scen, seeds[:1], n_rows=(3,))
        stats[f'legendre{l}'] = st
        t = sw.tree(outs[0])
        g.add_def(f'legP{l}', t, f'traced: LegendrePolynomial({l})(x) (scipy.special.legendre coefficients as exact rationals of their repr)')
        exact = sp.Poly(sp.legendre_poly(l, xs), xs).all_coeffs()[::-1]          # lowest first, sympy Rationals
        if l == 0:
            code = [Fraction(1)]
        elif l == 1:
            code = [Fraction(0), Fraction(1)]
        else:
            cf = FB.LegendrePolynomial(l).coefficients                              # highest first
            code = [Fraction(repr(float(c))) for c in cf][::-1]
        exact = [Fraction(int(e.p), int(e.q)) for e in exact] + [Fraction(0)] * (len(code) - len(exact))
        d = [c - e for c, e in zip(code, exact)]
        lit = lambda q: f'(({q.numerator}:ℝ) / ({q.denominator}:ℝ))' if q >= 0 else f'(-(({-q.numerator}:ℝ) / ({q.denominator}:ℝ)))'
        ref = ' + '.join(f'{lit(e)} * x ^ {i}' for i, e in enumerate(exact))
        ds = ', '.join(lit(q) for q in d)
        bs = ', '.join(lit(abs(q)) for q in d)
        total = sum(abs(q) for q in d)
        # scipy's float coefficients grow like 2.7^l, so their absolute rounding error does too: explicit bound per degree
        digits = legendre_digits(l)
        if total > Fraction(1, 10 ** digits):
            g.failures.append((f'legendre{l}_close', f'coefficients differ from the exact Legendre coefficients by {float(total)}'))
        name = f'legendre{l}_close'
        stmt = f'|Ex.eval I (env [x]) legP{l} - ({ref})| ≤ (1:ℝ) / (10:ℝ) ^ {digits}'
        g.raw(f'''theorem {name} (I : Interp) (x : ℝ) (hx : |x| ≤ 1) :
    {stmt} := by
  have e0_ : env [x] 0 = x := rfl
  have h : Ex.eval I (env [x]) legP{l} - ({ref}) = NdeVerif.polyEval [{ds}] x := by
    simp (config := {{decide := true}}) only [legP{l}, {UNFOLD}, e0_, NdeVerif.polyEval_cons, NdeVerif.polyEval_nil]
    ring
  rw [h]
  refine le_trans (NdeVerif.abs_polyEval_le_of _ [{bs}] x hx ?_) ?_
  · repeat' constructor
    all_goals (rw [abs_le]; constructor <;> norm_num)
  · norm_num [List.sum_cons, List.sum_nil]
''', [Obligation(name, 'bound', stmt, f'LegendrePolynomial({l}) (scipy float coefficients) is within 1e-{digits} of the exact Legendre polynomial P_{l} on [-1, 1]')])
    # zonal harmonics: column k = c_l * P_l(cos θ) for the k-th REQUESTED degree l (the list is deliberately not ascending),
    # with c_l² within 1e-15 of (2l+1)/(4π)
    zdegs = sorted(degs, key=lambda l: ((l * 7 + 3) % 5, -l))

    def scen(w):
        th = w.coord('th', 0.1, 3.0); ph = w.coord('ph', 0.0, 6.2)
        return FB.ZonalSphericalHarmonics(degrees=zdegs)(th, ph)
    sw, outs, st = tie_check(scen, seeds[:1], n_rows=(3,))
    stats['zonal'] = st
    import numpy as np
    for k, l in enumerate(zdegs):
        t = sw.tree(outs[0], k)
        g.add_def(f'zonal_c{k}', t, f'traced: ZonalSphericalHarmonics(degrees={zdegs}) column {k} (degree {l})')
        c = Fraction(repr(float(np.sqrt((2 * l + 1) / (4 * np.pi)))))
        # structure: legP_l(cos θ) * c   (the Legendre tree with x := cos θ)
        w1 = SymWorld()
        x1 = w1.coord('x')
        pl = w1.tree(FB.LegendrePolynomial(l)(x1))
        comp = X.subst(0, ('un', 'cos', ('var', 0)), X.resolve(pl))
        cq = ('rat', c.numerator, c.denominator)
        g.thm_eq(f'zonal_c{k}_eq', ['th', 'ph'], ['th', 'ph'], f'zonal_c{k}', t, ('mul', comp, cq),
                 what=f'zonal harmonic of degree {l} = LegendrePolynomial({l})(cos θ) * c_{l}, independent of φ')
        name = f'zonal_coeff{l}'
        cl = f'(({c.numerator}:ℝ) / ({c.denominator}:ℝ))'
        stmt = f'(0:ℝ) < {cl} ∧ |{cl} ^ 2 - ({2 * l + 1}:ℝ) / (4 * Real.pi)| ≤ (1:ℝ) / (10:ℝ) ^ 15'
        g.raw(f'''theorem {name} : {stmt} := by
  refine ⟨by norm_num, ?_⟩
  have h1 := Real.pi_gt_d20
  have h2 := Real.pi_lt_d20
  have hpos : (0:ℝ) < 4 * Real.pi := by positivity
  rw [abs_le]
  constructor
  · rw [neg_le_sub_iff_le_add, div_le_iff₀ hpos]
    nlinarith
  · rw [sub_le_iff_le_add, ← sub_le_iff_le_add', le_div_iff₀ hpos]
    nlinarith
''', [Obligation(name, 'bound', stmt, f'the normalisation constant of the degree-{l} zonal harmonic is sqrt((2·{l}+1)/(4π)) up to 1e-15 (squared)')])


def zonal_laplacian_part(g, stats, FB, ops, seeds, tier):
    """ZonalSphericalHarmonicsLaplacian = spherical Laplacian of the expansion, up to the (explicit, bounded) Legendre-ODE
    residual of scipy's float coefficients"""
    import sympy as sp
    import numpy as np
    from ..leangen import UNFOLD
    degs = [3, 0, 2] if tier == 'quick' else [5, 0, 8, 2, 1, 6, 3, 4]      # requested order, deliberately not ascending
    K = len(degs)

    def scen_op(w):
        r = w.coord('r', 0.3, 3.0); th = w.coord('th', 0.2, 2.9); ph = w.coord('ph', 0.0, 6.2)
        return FB.ZonalSphericalHarmonicsLaplacian(degrees=degs)(w.net('R', 1, K)(r), r, th, ph)

    def scen_ref(w):
        import torch
        r = w.coord('r', 0.3, 3.0); th = w.coord('th', 0.2, 2.9); ph = w.coord('ph', 0.0, 6.2)
        u = torch.sum(w.net('R', 1, K)(r) * FB.ZonalSphericalHarmonics(degrees=degs)(th, ph), dim=1, keepdim=True)
        return ops.spherical_laplacian(u, r, th, ph)
    sw, outs, st = tie_check(scen_op, seeds[:1], n_rows=(3,))
    sw2, outs2, st2 = tie_check(scen_ref, seeds[:1], n_rows=(3,))
    stats['zlap'], stats['zlap_ref'] = st, st2
    t = sw.tree(outs[0])
    ref = retarget_unresolved(sw2.tree(outs2[0]), sw2.ctx, sw.ctx)
    R, TH = ('var', 0), ('var', 1)
    XV = 7   # auxiliary variable for the Legendre argument
    err_terms = []
    for k, l in enumerate(degs):
        w1 = SymWorld()
        x1 = w1.coord('x')
        pl = X.resolve(w1.tree(FB.LegendrePolynomial(l)(x1)))
        pl = X.subst(0, ('var', XV), pl)
        xv = ('var', XV)
        Ek = add(mul(add(('nat', 1), neg(('pow', xv, 2))), ('D', XV, ('D', XV, pl))), neg(mul(mul(('nat', 2), xv), ('D', XV, pl))),
                 mul(('nat', l * (l + 1)), pl))
        g.add_def(f'legendre_ode_residual{l}', X.subst(XV, ('var', 0), X.resolve(Ek)),
                  f'(1-x²)P\'\' - 2xP\' + {l}({l}+1)P for P = LegendrePolynomial({l}) with scipy\'s float coefficients (0 for exact coefficients)')
        # bound of the residual on [-1, 1]
        xs = sp.Symbol('x')
        if l == 0:
            code = [Fraction(1)]
        elif l == 1:
            code = [Fraction(0), Fraction(1)]
        else:
            code = [Fraction(repr(float(c))) for c in FB.LegendrePolynomial(l).coefficients][::-1]
        P = sum(sp.Rational(c.numerator, c.denominator) * xs ** i for i, c in enumerate(code))
        E = sp.Poly(sp.expand((1 - xs ** 2) * sp.diff(P, xs, 2) - 2 * xs * sp.diff(P, xs) + l * (l + 1) * P), xs)
        es = [Fraction(int(c.p), int(c.q)) for c in E.all_coeffs()[::-1]] if E.as_expr() != 0 else [Fraction(0)]
        lit = lambda q: f'(({q.numerator}:ℝ) / ({q.denominator}:ℝ))' if q >= 0 else f'(-(({-q.numerator}:ℝ) / ({q.denominator}:ℝ)))'
        name = f'legendre_ode_residual{l}_small'
        stmt = f'|Ex.eval I (env [x]) legendre_ode_residual{l}| ≤ (1:ℝ) / (10:ℝ) ^ 8'
        if sum(abs(q) for q in es) > Fraction(1, 10 ** 8):
            g.failures.append((name, 'Legendre ODE residual of the code coefficients is not small'))
        g.raw(f'''theorem {name} (I : Interp) (x : ℝ) (hx : |x| ≤ 1) :
    {stmt} := by
  have e0_ : env [x] 0 = x := rfl
  have h : Ex.eval I (env [x]) legendre_ode_residual{l} = NdeVerif.polyEval [{', '.join(lit(q) for q in es)}] x := by
    simp (config := {{decide := true}}) only [legendre_ode_residual{l}, {UNFOLD}, e0_, NdeVerif.polyEval_cons, NdeVerif.polyEval_nil]
    ring
  rw [h]
  refine le_trans (NdeVerif.abs_polyEval_le_of _ [{', '.join(lit(abs(q)) for q in es)}] x hx ?_) ?_
  · repeat' constructor
    all_goals (rw [abs_le]; constructor <;> norm_num)
  · norm_num [List.sum_cons, List.sum_nil]
''', [Obligation(name, 'bound', stmt, f'the Legendre-ODE residual of the degree-{l} code polynomial is below 1e-8 on [-1, 1]')])
        c = Fraction(repr(float(np.sqrt((2 * l + 1) / (4 * np.pi)))))
        Rk = ('app', sw.ctx.syms.index(f'R.{k}' if K > 1 else 'R'), (0,), (R,))
        Ecos = X.subst(XV, ('un', 'cos', TH), X.resolve(Ek))
        err_terms.append(mul(('rat', c.numerator, c.denominator), Rk, ('inv', ('pow', R, 2)), Ecos))
    rhs = add(ref, neg(add(*err_terms)))
    g.add_def('zlap', t, f'traced: ZonalSphericalHarmonicsLaplacian(degrees={degs})(R(r), r, θ, φ)')
    g.add_def('zlap_ref', rhs, 'traced operators.spherical_laplacian(sum_k R_k(r) Z_k(θ), r, θ, φ) minus sum_k c_k R_k(r) r⁻² · (Legendre-ODE residual of degree k)(cos θ)')
    g.thm_eq('zlap_eq_spherical_laplacian_up_to_residual', ['r', 'th', 'ph'], ['r', 'th', 'ph'], 'zlap', t, rhs,
             hyps=[('hr', 'r ≠ 0'), ('hs', 'Real.sin th ≠ 0')], rhs_name='zlap_ref', heartbeats=4000000,
             what=f'ZonalSphericalHarmonicsLaplacian(degrees={degs}) equals the spherical Laplacian of the expansion minus the explicit '
                  'Legendre-ODE residual terms (each below 1e-8 by the *_small theorems; identically 0 for exact coefficients)')


def retarget_unresolved(tree, ctx_from, ctx_to):
    """retarget a tree that may contain D nodes (variables by name, symbols by name)"""
    op = tree[0]
    if op == 'D':
        return ('D', ctx_to.vars.index(ctx_from.vars[tree[1]]), retarget_unresolved(tree[2], ctx_from, ctx_to))
    if op == 'subst':
        raise ValueError('subst')
    if op == 'var':
        return ('var', ctx_to.vars.index(ctx_from.vars[tree[1]]))
    if op in ('nat', 'rat', 'pi'):
        return tree
    if op == 'app':
        return ('app', ctx_to.syms.index(ctx_from.syms[tree[1]]), tree[2], tuple(retarget_unresolved(a, ctx_from, ctx_to) for a in tree[3]))
    return (op,) + tuple(retarget_unresolved(a, ctx_from, ctx_to) if isinstance(a, tuple) else a for a in tree[1:])


ASSUMPTIONS = [
    'theorems are over the reals with the decimal constants of the source taken exactly; sin(theta) != 0 where the angular Laplacian divides by it',
    'orthogonality: all 300 pairs proved exactly (= 0); normalisation: each squared norm is within 1e-7 of pi (the decimal constants of the source are 9-10 digit roundings, so the norms are pi only up to that rounding; the exact rational multiple of pi is computed in the proof)',
    'the integrals are iterated interval integrals over [0, pi] x [0, 2 pi] with weight sin(theta) (Mathlib intervalIntegral); each traced harmonic is separated as A(theta) B(phi) by a kernel-checked identity and every 1-D integral comes from an antiderivative certificate checked through D_sound and the fundamental theorem of calculus',
    'Legendre / zonal parts hold up to the float rounding of scipy\'s coefficients, with explicit bounds (1e-10 on the polynomials, 1e-8 on the ODE residual, 1e-15 on the squared constants)',
]


def search(seed, tier):
    import math, random
    import numpy as np
    import torch
    import neurodiffeq.function_basis as FB
    from neurodiffeq import operators as ops, diff
    from scipy.special import sph_harm_y, eval_legendre
    rng = random.Random(seed)
    found = []
    n = 6
    th = torch.tensor([[rng.uniform(0.2, 2.9)] for _ in range(n)], requires_grad=True)
    ph = torch.tensor([[rng.uniform(0, 6.2)] for _ in range(n)], requires_grad=True)
    r = torch.tensor([[rng.uniform(0.3, 3)] for _ in range(n)], requires_grad=True)
    Y = FB.RealSphericalHarmonics(max_degree=4)(th, ph)
    thn, phn = th.detach().numpy().ravel(), ph.detach().numpy().ravel()
    for k, (l, m) in enumerate(LM):
        c = sph_harm_y(l, abs(m), thn, phn)
        ref = (math.sqrt(2) * (-1) ** m * (c.imag if m < 0 else c.real)) if m != 0 else c.real
        ref = ref * math.sqrt(math.pi)
        got = Y[:, k].detach().numpy()
        if not np.allclose(got, ref, rtol=1e-6, atol=1e-7):
            found.append(dict(case='harmonic value vs scipy (library normalisation sqrt(pi) * Y_lm)', column=k, l=l, m=m, got=got.tolist(), want=ref.tolist(),
                              theta=thn.tolist(), phi=phn.tolist()))
        y = Y[:, k:k + 1]
        lap = diff(torch.sin(th) * diff(y, th), th) / torch.sin(th) + diff(y, ph, order=2) / torch.sin(th) ** 2
        if not torch.allclose(lap, -l * (l + 1) * y, rtol=1e-6, atol=1e-6):
            found.append(dict(case='harmonic is not an eigenfunction', column=k, l=l, m=m))
    # orthogonality by quadrature (exact for the band limit): Gauss-Legendre in cos(theta) x uniform in phi
    xs, ws = np.polynomial.legendre.leggauss(12)
    phs = np.arange(24) * 2 * math.pi / 24
    T, P = np.meshgrid(np.arccos(xs), phs, indexing='ij')
    W = np.outer(ws, np.full(24, 2 * math.pi / 24))
    Yq = FB.RealSphericalHarmonics(max_degree=4)(torch.tensor(T.reshape(-1, 1)), torch.tensor(P.reshape(-1, 1))).numpy()
    G = (Yq * W.reshape(-1, 1)).T @ Yq
    if not np.allclose(G, math.pi * np.eye(25), atol=1e-6):
        i, j = np.unravel_index(np.abs(G - math.pi * np.eye(25)).argmax(), G.shape)
        found.append(dict(case='orthogonality / common normalisation (Gram matrix != pi * I)', i=int(i), j=int(j), value=float(G[i, j])))
    # zonal and Legendre (tolerance per degree: the float coefficients lose accuracy as the degree grows)
    degs = list(range(27))
    tol = lambda l: 10.0 ** (1 - legendre_digits(l))
    order = sorted(degs, key=lambda l: ((l * 3 + 1) % 7, -l))          # requested order, not ascending
    Z = FB.ZonalSphericalHarmonics(degrees=order)(th, ph).detach().numpy()
    for k, l in enumerate(order):
        ref = math.sqrt((2 * l + 1) / (4 * math.pi)) * eval_legendre(l, np.cos(thn))
        if not np.allclose(Z[:, k], ref, rtol=1e-9, atol=tol(l)):
            found.append(dict(case='zonal harmonic (column k must be the k-th requested degree)', degree=l, column=k, degrees=order,
                              got=Z[:, k].tolist(), want=ref.tolist()))
    # both `max_degree` and `degrees` given: `degrees` takes precedence (documented)
    Zb = FB.ZonalSphericalHarmonics(max_degree=2, degrees=[0, 2, 4])(th, ph).detach().numpy()
    if Zb.shape != (n, 3) or any(not np.allclose(Zb[:, k], math.sqrt((2 * l + 1) / (4 * math.pi)) * eval_legendre(l, np.cos(thn)), rtol=1e-9, atol=1e-10)
                                 for k, l in enumerate([0, 2, 4])):
        found.append(dict(case='ZonalSphericalHarmonics(max_degree=2, degrees=[0, 2, 4]): the columns are not the requested degrees 0, 2, 4', shape=list(Zb.shape)))
    x = torch.tensor([[rng.uniform(-1, 1)] for _ in range(n - 1)] + [[0.0]])
    Lb = FB.LegendreBasis(max_degree=26)(x).numpy()
    for l in degs:
        if not np.allclose(Lb[:, l], eval_legendre(l, x.numpy().ravel()), rtol=1e-9, atol=tol(l)):
            found.append(dict(case='Legendre basis', degree=l, x=x.reshape(-1).tolist(), got=Lb[:, l].tolist()))
    # bases are functions of the VALUES of their arguments: refilling the same buffers in place and calling again
    # gives what fresh tensors give
    for nm, mk, k_args in (('RealSphericalHarmonics', lambda: FB.RealSphericalHarmonics(max_degree=4), 2), ('ZonalSphericalHarmonics', lambda: FB.ZonalSphericalHarmonics(max_degree=3), 2),
                           ('RealFourierSeries', lambda: FB.RealFourierSeries(max_degree=3), 1), ('LegendreBasis', lambda: FB.LegendreBasis(max_degree=4), 1)):
        basis = mk()
        bufs = [torch.tensor([[rng.uniform(0.2, 0.9)] for _ in range(n)]) for _ in range(k_args)]
        for rep_ in range(3):
            first = basis(*bufs).clone()
            for b in bufs:
                b.mul_(0.7).add_(0.21)
            again = basis(*bufs)
            fresh = mk()(*[b.clone() for b in bufs])      # a new basis object on new tensors
            if not torch.allclose(again, fresh, rtol=0, atol=1e-12):
                found.append(dict(case='basis evaluated on refilled buffers differs from fresh tensors with the same values', basis=nm,
                                  call=rep_ + 2, max_abs_diff=float((again - fresh).abs().max())))
                break
    # basis laplacians vs full laplacians with coefficient networks
    from neurodiffeq.networks import FCNN
    torch.manual_seed(seed)
    for md in (2, 4):
        K = (md + 1) ** 2
        net = FCNN(1, K, hidden_units=(6,))
        R = net(r)
        a = FB.HarmonicsLaplacian(max_degree=md)(R, r, th, ph)
        u = torch.sum(net(r) * FB.RealSphericalHarmonics(max_degree=md)(th, ph), dim=1, keepdim=True)
        b = ops.spherical_laplacian(u, r, th, ph)
        if not torch.allclose(a, b, rtol=1e-6, atol=1e-6):
            found.append(dict(case='HarmonicsLaplacian vs spherical_laplacian', max_degree=md))
    degs = [0, 1, 2, 3, 5, 8]
    net = FCNN(1, len(degs), hidden_units=(6,))
    a = FB.ZonalSphericalHarmonicsLaplacian(degrees=degs)(net(r), r, th, ph)
    u = torch.sum(net(r) * FB.ZonalSphericalHarmonics(degrees=degs)(th, ph), dim=1, keepdim=True)
    b = ops.spherical_laplacian(u, r, th, ph)
    if not torch.allclose(a, b, rtol=1e-6, atol=1e-6):
        found.append(dict(case='ZonalSphericalHarmonicsLaplacian vs spherical_laplacian'))
    # evaluation points on a CURVE (angles computed from the radius, as along a ray path or a spiral): the basis-space Laplacians are
    # partial-derivative formulas - the value at a point is the same as with independent angle tensors of equal values
    net = FCNN(1, 9, hidden_units=(6,))
    netz = FCNN(1, 3, hidden_units=(6,))
    netf = FCNN(1, 5, hidden_units=(6,))
    thc, phc = 0.4 + 0.7 * r, 0.3 + r ** 2 * 0.5
    thi, phi_ = thc.detach().clone().requires_grad_(), phc.detach().clone().requires_grad_()
    for nm, op, coeff, dep, ind in (
            ('HarmonicsLaplacian', FB.HarmonicsLaplacian(max_degree=2), net, (thc, phc), (thi, phi_)),
            ('ZonalSphericalHarmonicsLaplacian', FB.ZonalSphericalHarmonicsLaplacian(degrees=[0, 1, 3]), netz, (thc, phc), (thi, phi_)),
            ('FourierLaplacian', FB.FourierLaplacian(max_degree=2), netf, (phc,), (phi_,))):
        try:
            a = op(coeff(r), r, *dep)
            b = op(coeff(r), r, *ind)
            if not torch.allclose(a, b, rtol=1e-6, atol=1e-6):
                found.append(dict(case=f'{nm} at points whose angles were computed from the radius differs from the same points with '
                                  'independent angle tensors', max_abs_diff=float((a - b).abs().max())))
        except Exception as e:
            found.append(dict(case=f'{nm} at points whose angles were computed from the radius', error=f'{type(e).__name__}: {e}'))
    # degrees lists are read at construction: editing the caller's list afterwards changes neither the basis nor its Laplacian
    try:
        dl = [0, 2, 5]
        opz, hz = FB.ZonalSphericalHarmonicsLaplacian(degrees=dl), FB.ZonalSphericalHarmonics(degrees=dl)
        netd = FCNN(1, 3, hidden_units=(6,))
        a0, y0 = opz(netd(r), r, th, ph).detach().clone(), hz(th, ph).detach().clone()
        dl[1] = 4
        dl.append(7)
        a1, y1 = opz(netd(r), r, th, ph).detach(), hz(th, ph).detach()
        fresh = FB.ZonalSphericalHarmonicsLaplacian(degrees=[0, 2, 5])(netd(r), r, th, ph).detach()
        if not torch.allclose(a1, a0, rtol=0, atol=1e-12) or not torch.allclose(y1, y0, rtol=0, atol=1e-12) or not torch.allclose(a1, fresh, rtol=0, atol=1e-12):
            found.append(dict(case='degrees list edited by the caller after the zonal basis / Laplacian was built', max_abs_change=float((a1 - a0).abs().max())))
    except Exception as e:
        found.append(dict(case='degrees list edited by the caller after construction', error=f'{type(e).__name__}: {e}'))
    # high zonal degrees: still differentiable functions of theta - the basis Laplacian and the full Laplacian of the expanded field agree
    for degs_hi in ([21], [24, 3], [22, 26]):
        try:
            nh = FCNN(1, len(degs_hi), hidden_units=(6,))
            a = FB.ZonalSphericalHarmonicsLaplacian(degrees=degs_hi)(nh(r), r, th, ph)
            yh = FB.ZonalSphericalHarmonics(degrees=degs_hi)(th, ph)
            u = torch.sum(nh(r) * yh.reshape(n, len(degs_hi)), dim=1, keepdim=True)
            b = ops.spherical_laplacian(u, r, th, ph)
            scale = 1.0 + float(b.detach().abs().max())
            dth = diff(yh[:, :1], th)
            if not torch.allclose(a, b, rtol=1e-4, atol=1e-4 * scale) or float(dth.detach().abs().max()) == 0.0:
                found.append(dict(case='ZonalSphericalHarmonicsLaplacian vs spherical_laplacian at high degrees', degrees=degs_hi,
                                  max_abs_diff=float((a - b).detach().abs().max()), scale=scale, dY_dtheta_max=float(dth.detach().abs().max())))
        except Exception as e:
            found.append(dict(case='zonal harmonics of high degree', degrees=degs_hi, error=f'{type(e).__name__}: {e}'))
    # single-function bases and single evaluation points (shapes must stay (n, k))
    for basis, args, k in ((FB.LegendreBasis(max_degree=0), (x,), 1), (FB.ZonalSphericalHarmonics(degrees=[3]), (th, ph), 1),
                           (FB.RealFourierSeries(max_degree=0), (ph,), 1), (FB.RealSphericalHarmonics(max_degree=0), (th, ph), 1)):
        out = basis(*args)
        if tuple(out.shape) != (n, k):
            found.append(dict(case='basis output shape', basis=type(basis).__name__, shape=list(out.shape), want=[n, k]))
        out1 = basis(*[a[:1] for a in args])
        if tuple(out1.shape) != (1, k):
            found.append(dict(case='basis output shape for a single point', basis=type(basis).__name__, shape=list(out1.shape)))
    for degs1 in ([3], [0], [2, 5], [4, 0, 2]):
        net1 = FCNN(1, len(degs1), hidden_units=(6,))
        a = FB.ZonalSphericalHarmonicsLaplacian(degrees=degs1)(net1(r), r, th, ph)
        u = torch.sum(net1(r) * FB.ZonalSphericalHarmonics(degrees=degs1)(th, ph).reshape(n, len(degs1)), dim=1, keepdim=True)
        b = ops.spherical_laplacian(u, r, th, ph)
        if tuple(a.shape) != (n, 1) or not torch.allclose(a, b, rtol=1e-6, atol=1e-6):
            found.append(dict(case='ZonalSphericalHarmonicsLaplacian vs spherical_laplacian', degrees=degs1))
    for md in (0, 3, 12):
        net = FCNN(1, 2 * md + 1, hidden_units=(6,))
        a = FB.FourierLaplacian(max_degree=md)(net(r), r, ph)
        u = torch.sum(net(r) * FB.RealFourierSeries(max_degree=md)(ph), dim=1, keepdim=True)
        b = diff(u, r, order=2) + diff(u, r) / r + diff(u, ph, order=2) / r ** 2
        if not torch.allclose(a, b, rtol=1e-6, atol=1e-6):
            found.append(dict(case='FourierLaplacian vs polar laplacian', max_degree=md))
    return found


def runtime_checks():
    """the numeric observations of the search are cheap and deterministic: they run on every check, not only after a broken proof"""
    return search(1, 'quick')


STATIC = [('NdeVerif.Proofs.C17F', 'NdeVerif.C17F', ['hasDerivAt_term', 'hasDerivAt_termD', 'expansion_derivs', 'fourierLap_eq_polar'])]


def check(tier, seed):
    from ..calcprop import check_calc
    return check_calc(sys.modules[__name__], tier, seed)
