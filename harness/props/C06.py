"""C06 — solutions evaluate condition(net) faithfully, keep shape, and are snapshots.
Engine B: models NdeVerif.Model.Solution (+ Solver), theorems NdeVerif.Proofs.C06; correspondence: get_solution
aliasing interleaved with fit() in the scripted world, output shapes, and exact value/residual comparison on the
real solver classes with real conditions and networks."""
import itertools
import random
import warnings

from ..runner import Report, kernel_phase, run_driver, split_blocks
from ..solverprop import gen_script
from ..solverworld import run_script

PID = 'C06'
THEOREMS = ['copy_isolated', 'copy_captures', 'nocopy_live', 'best_none_rejected', 'nocopy_best_frozen', 'solution_shape',
            'solution_shape_noreshape']


def alias_scripts(rng, n):
    out = []
    for _ in range(n):
        lines, kw = gen_script(rng, 'quick')
        kw['n_points'] = 2
        body = [l for l in lines if not l.startswith('fit')]
        fits = [l for l in lines if l.startswith('fit')]
        seq = []
        for f in fits:
            for _ in range(rng.randint(0, 2)):
                seq.append(f'getsol {rng.randint(0, 1)} {rng.randint(0, 1)}')
            seq.append(f)
        seq.append(f'getsol {rng.randint(0, 1)} {rng.randint(0, 1)}')
        seq.append('evalsols')
        seq.append(f'fit {rng.randint(1, 3)}')
        seq.append('evalsols')
        out.append((body + seq, kw))
    return out


def shape_cases(tier):
    shapes = [(5,), (5, 1), (2, 3), (1,), (1, 1), (3, 1, 2)] if tier == 'quick' else \
        [(5,), (5, 1), (2, 3), (1,), (1, 1), (3, 1, 2), (4, 4), (7,), (2, 2, 2), (6, 1)]
    return list(itertools.product(shapes, [False, True], [False, True], [False, True], ['1d', '2d', 'spherical', 'bundle', 'generic'], [1, 2, 3]))


def real_shape(shape, ndarray, to_numpy, no_reshape, kind, n_funcs):
    import numpy as np
    import torch
    from neurodiffeq import solvers as S
    from neurodiffeq.conditions import NoCondition
    from neurodiffeq.networks import FCNN
    n_dims = {'1d': 1, '2d': 2, 'spherical': 3, 'bundle': 2, 'generic': 2}[kind]
    cls = {'1d': S.Solution1D, '2d': S.Solution2D, 'spherical': S.SolutionSpherical, 'bundle': S.BundleSolution1D, 'generic': S.GenericSolution}[kind]
    nets = [FCNN(n_dims, 1, hidden_units=(3,)) for _ in range(n_funcs)]
    sol = cls(nets, [NoCondition() for _ in range(n_funcs)])
    coords = [torch.rand(*shape) for _ in range(n_dims)]
    if ndarray:
        coords = [c.numpy() for c in coords]
    out = sol(*coords, to_numpy=to_numpy, no_reshape=no_reshape)
    many = isinstance(out, list)
    first = out[0] if many else out
    is_np = isinstance(first, np.ndarray)
    desc = (f'many {len(out)} ' if many else 'single ') + str(list(first.shape)) + f' numpy={"true" if is_np else "false"}'
    # values: identical to enforcing the condition on the network directly
    cs = [(torch.tensor(c) if ndarray else c).reshape(-1, 1) for c in coords]
    ok = True
    for i, net in enumerate(nets):
        want = NoCondition().enforce(net, *cs)
        got = out[i] if many else out
        got = torch.as_tensor(got).reshape(-1, 1)
        ok = ok and torch.equal(got, want.detach() if is_np else want)
    return desc, ok


def value_checks(seed):
    """exact equality of solution values / residuals with direct evaluation, real conditions, all solver classes"""
    import torch
    from neurodiffeq import solvers as S, diff
    from neurodiffeq.conditions import IVP, BundleIVP, DirichletBVP2D, DirichletBVPSpherical, DirichletBVPSphericalBasis
    from neurodiffeq.function_basis import RealSphericalHarmonics
    from neurodiffeq.generators import Generator1D, Generator2D, GeneratorSpherical
    from neurodiffeq.networks import FCNN
    bad = []
    torch.manual_seed(seed)
    with warnings.catch_warnings():
        warnings.simplefilter('ignore')
        cases = []
        ode = lambda u, v, t: [diff(u, t) - v, diff(v, t) + u]
        s1 = S.Solver1D(ode, [IVP(0., 0.), IVP(0., 1.)], t_min=0., t_max=1., nets=[FCNN(1, 1, hidden_units=(4,)) for _ in range(2)],
                        train_generator=Generator1D(6, 0., 1.), valid_generator=Generator1D(6, 0., 1.))
        cases.append(('Solver1D', s1, ode, [torch.rand(5)]))
        bode = lambda u, t, a: [diff(u, t) + a * u]
        sb = S.BundleSolver1D(bode, [BundleIVP(0., None, bundle_param_lookup={'u_0': 0})], t_min=0., t_max=1., theta_min=(0.,), theta_max=(1.,),
                              eq_param_index=(0,), nets=[FCNN(2, 1, hidden_units=(4,))])
        cases.append(('BundleSolver1D', sb, lambda u, t, a: bode(u, t, a), [torch.rand(4), torch.rand(4)]))
        pde = lambda u, x, y: [diff(u, x, order=2) + diff(u, y, order=2)]
        zero = lambda z: z * 0
        s2 = S.Solver2D(pde, [DirichletBVP2D(0., zero, 1., zero, 0., zero, 1., lambda x: torch.sin(x))], xy_min=(0., 0.), xy_max=(1., 1.),
                        nets=[FCNN(2, 1, hidden_units=(4,))], train_generator=Generator2D((3, 3)), valid_generator=Generator2D((3, 3)))
        cases.append(('Solver2D', s2, pde, [torch.rand(2, 3), torch.rand(2, 3)]))
        spde = lambda u, r, th, ph: [diff(u, r) + u]
        ss = S.SolverSpherical(spde, [DirichletBVPSpherical(0.1, lambda th, ph: th * 0, 1., lambda th, ph: th * 0 + 1)], r_min=0.1, r_max=1.,
                               nets=[FCNN(3, 1, hidden_units=(4,))], train_generator=GeneratorSpherical(8, 0.1, 1.), valid_generator=GeneratorSpherical(8, 0.1, 1.))
        cases.append(('SolverSpherical', ss, spde, [torch.rand(6) + 0.1, torch.rand(6) * 3, torch.rand(6) * 6]))
        for name, solver, eqs, coords in cases:
            solver.fit(3, tqdm_file=None)
            for best in (True, False):
                for copy in (True, False):
                    sol = solver.get_solution(copy=copy, best=best)
                    nets = solver.best_nets if best else solver.nets
                    cs = [c.reshape(-1, 1) for c in coords]
                    got = sol(*coords)
                    got = got if isinstance(got, list) else [got]
                    for i, (net, cond) in enumerate(zip(nets, solver.conditions)):
                        want = cond.enforce(net, *cs).reshape(coords[0].shape)
                        if not torch.equal(got[i], want):
                            bad.append(dict(case=name, violated='solution value != condition enforced on the selected network', best=best, copy=copy, unknown=i))
                    if copy and any(a is b for a, b in zip(sol.nets, nets)):
                        bad.append(dict(case=name, violated='copy=True shares network objects', best=best))
                    if copy and any(a is b for a, b in zip(sol.conditions, solver.conditions)):
                        bad.append(dict(case=name, violated='copy=True shares condition objects', best=best))
                    if not copy and not best and not all(a is b for a, b in zip(sol.nets, solver.nets)):
                        bad.append(dict(case=name, violated='copy=False, best=False does not share the live networks'))
                # residuals
                res = solver.get_residuals(*coords, best=best)
                res = res if isinstance(res, list) else [res]
                cs = [c.reshape(-1, 1).requires_grad_() for c in coords]
                funcs = solver.get_solution(copy=False, best=best)(*cs)
                funcs = funcs if isinstance(funcs, list) else [funcs]
                want = eqs(*funcs, *cs)
                for i, (a, b) in enumerate(zip(res, want)):
                    if not torch.allclose(a.reshape(-1), b.reshape(-1), rtol=0, atol=0):
                        bad.append(dict(case=name, violated='get_residuals != equations applied to the solution', best=best, equation=i))
            # copy=True is unaffected by further training AND by mutating the solver's conditions
            sol = solver.get_solution(copy=True, best=False)
            before = sol(*coords)
            before = [b.clone() for b in (before if isinstance(before, list) else [before])]
            solver.fit(2, tqdm_file=None)
            for cnd in solver.conditions:
                for attr in ('u_0', 'r_0', 'x0'):
                    if hasattr(cnd, attr) and isinstance(getattr(cnd, attr), float):
                        setattr(cnd, attr, getattr(cnd, attr) + 0.5)
            after = sol(*coords)
            after = after if isinstance(after, list) else [after]
            if not all(torch.equal(a, b) for a, b in zip(before, after)):
                bad.append(dict(case=name, violated='copy=True solution changed after later training / mutation of the solver'))
        # (i) numpy coordinates of any memory layout: the value at entry [i, j] of the result belongs to the point at entry [i, j]
        import numpy as np
        for name, solver, eqs, coords in cases[:1] + cases[2:3]:
            base = np.random.RandomState(seed).rand(3, 4)
            layouts = dict(transposed=base.T, fortran=np.asfortranarray(base), strided=np.random.RandomState(seed + 1).rand(6, 8)[::2, ::2])
            for lname, arr in layouts.items():
                args = [arr] + [np.ascontiguousarray(arr) * 0.5 + 0.1 * k for k in range(1, len(coords))]
                got = solver.get_solution()(*args, to_numpy=True)
                ref = solver.get_solution()(*[np.ascontiguousarray(a) for a in args], to_numpy=True)
                got, ref = (got if isinstance(got, list) else [got]), (ref if isinstance(ref, list) else [ref])
                if any(g.shape != arr.shape or not np.array_equal(g, r) for g, r in zip(got, ref)):
                    bad.append(dict(case=name, violated='numpy coordinates that are not C-contiguous: values are not at the grid points they belong to',
                                    layout=lname, shape=list(arr.shape)))
                try:
                    r1 = solver.get_residuals(*args, to_numpy=True)
                    r2 = solver.get_residuals(*[np.ascontiguousarray(a) for a in args], to_numpy=True)
                    r1, r2 = (r1 if isinstance(r1, list) else [r1]), (r2 if isinstance(r2, list) else [r2])
                    if any(not np.array_equal(a, b) for a, b in zip(r1, r2)):
                        bad.append(dict(case=name, violated='get_residuals on non-C-contiguous numpy coordinates', layout=lname))
                except Exception as e:
                    bad.append(dict(case=name, violated='get_residuals raised on numpy coordinates', layout=lname, error=f'{type(e).__name__}: {e}'))
        # (ii) copy=True is a snapshot of the conditions too: tensor-valued parameters updated IN PLACE, edited sub-conditions
        from neurodiffeq.conditions import EnsembleCondition
        u0 = torch.tensor([[0.25]])
        ivp_t = IVP(0., u0)
        ens = EnsembleCondition(IVP(0., 1.), IVP(0., 2.))
        sv = S.Solver1D(lambda u, w, t: [diff(u, t) + u, diff(w[:, :1], t) - u + w[:, 1:2] * 0], [ivp_t, ens], t_min=0., t_max=1.,
                        nets=[FCNN(1, 1, hidden_units=(3,)), FCNN(1, 2, hidden_units=(3,))],
                        train_generator=Generator1D(5, 0., 1.), valid_generator=Generator1D(5, 0., 1.))
        sv.fit(1, tqdm_file=None)
        tt = torch.rand(4)
        snap = sv.get_solution(copy=True, best=False)
        before = [b.clone() for b in snap(tt, no_reshape=True)]
        u0 += 3.0                                   # in-place update of a tensor parameter of the solver's condition
        ens.conditions[1].u_0 = 7.0                 # edit of a sub-condition of the solver's ensemble
        after = snap(tt, no_reshape=True)
        if not all(torch.equal(a, b) for a, b in zip(before, after)):
            bad.append(dict(case='Solver1D', violated='copy=True solution changed after an in-place update of a condition parameter / an edited sub-condition of the solver'))
        # (iii) get_residuals returns ALL the user's equations, whatever the number of unknowns
        eq2 = lambda u, t: [diff(u, t) + u, diff(u, t, order=2) - u]
        so = S.Solver1D(eq2, [IVP(0., 1.)], t_min=0., t_max=1., nets=[FCNN(1, 1, hidden_units=(3,))],
                        train_generator=Generator1D(5, 0., 1.), valid_generator=Generator1D(5, 0., 1.))
        so.fit(1, tqdm_file=None)
        eq1 = lambda u, v, t: [diff(u, t) + v]
        su = S.Solver1D(eq1, [IVP(0., 1.), IVP(0., 0.)], t_min=0., t_max=1., nets=[FCNN(1, 1, hidden_units=(3,)) for _ in range(2)],
                        train_generator=Generator1D(5, 0., 1.), valid_generator=Generator1D(5, 0., 1.))
        su.fit(1, tqdm_file=None)
        for nm, sol_, eqs_, n_eq in (('1 unknown / 2 equations', so, eq2, 2), ('2 unknowns / 1 equation', su, eq1, 1)):
            res = sol_.get_residuals(tt, best=False)
            lst = res if isinstance(res, (list, tuple)) else [res]
            cs = [tt.reshape(-1, 1).requires_grad_()]
            fs = sol_.get_solution(copy=False, best=False)(*cs)
            want = eqs_(*(fs if isinstance(fs, list) else [fs]), *cs)
            if len(lst) != n_eq or any(not torch.equal(a.reshape(-1), b.reshape(-1)) for a, b in zip(lst, want)) \
                    or (n_eq == 1) != (not isinstance(res, (list, tuple))):
                bad.append(dict(case=nm, violated='get_residuals does not return exactly the user\'s equations applied to the solution '
                                '(a single tensor for one equation, a list otherwise)', returned=len(lst), equations=n_eq,
                                container=type(res).__name__))
        # (iv) coordinates of different shapes with the same number of points: the result has the shape of the FIRST one
        name, solver, eqs, coords = cases[2]
        xa, ya = torch.rand(4, 5), torch.rand(20)
        for order, args in (('(4,5) then (20,)', (xa, ya)), ('(20,) then (4,5)', (ya, xa))):
            got = solver.get_solution()(*args)
            ref = solver.get_solution()(args[0].reshape(-1), args[1].reshape(-1))
            if tuple(got.shape) != tuple(args[0].shape) or not torch.equal(got.reshape(-1), ref.reshape(-1)):
                bad.append(dict(case=name, violated='result does not have the shape of the first coordinate', coordinates=order, got=list(got.shape)))
            res = solver.get_residuals(*args)
            if tuple(res.shape) != tuple(args[0].shape):
                bad.append(dict(case=name, violated='residual does not have the shape of the first coordinate', coordinates=order, got=list(res.shape)))
        # (v) the same tensor object passed for two coordinates (points on the diagonal x = y): the equations still see partial derivatives
        xd = torch.rand(6, 1)
        res = solver.get_residuals(xd, xd)
        c1, c2 = xd.clone().requires_grad_(), xd.clone().requires_grad_()
        fs = solver.get_solution(copy=False, best=True)(c1, c2)
        want = eqs(fs, c1, c2)[0]
        if not torch.allclose(res.reshape(-1), want.reshape(-1).detach(), rtol=0, atol=1e-12):
            bad.append(dict(case=name, violated='get_residuals with one tensor passed for both coordinates differs from the equations applied to '
                            'the solution (partial derivatives became total derivatives)', got=res.reshape(-1).tolist()[:4], want=want.reshape(-1).tolist()[:4]))
        # (vi) copy=True with FROZEN parameters (fine-tuning): the snapshot owns them too - later un-freezing / in-place edits do not reach it
        import torch.nn as nn
        fnet = FCNN(1, 1, hidden_units=(3,))
        frozen = list(fnet.parameters())[:2]
        for p_ in frozen:
            p_.requires_grad_(False)
        sf = S.Solver1D(lambda u, t: [diff(u, t) + u], [IVP(0., 1.)], t_min=0., t_max=1., nets=[fnet],
                        train_generator=Generator1D(5, 0., 1.), valid_generator=Generator1D(5, 0., 1.))
        sf.fit(2, tqdm_file=None)
        for best in (False, True):
            snap = sf.get_solution(copy=True, best=best)
            src = sf.best_nets if best else sf.nets
            before = snap(tt).clone()
            with torch.no_grad():
                for p_ in list(src[0].parameters())[:2]:
                    p_.add_(0.75)
            after = snap(tt)
            if not torch.equal(before, after):
                bad.append(dict(case='Solver1D with frozen first layer', violated='copy=True solution follows a later in-place change of a frozen '
                                '(requires_grad=False) parameter of the solver\'s networks', best=best,
                                drift=float((before - after).abs().max())))
            if any(a is b for a, b in zip(snap.nets[0].parameters(), src[0].parameters())):
                bad.append(dict(case='Solver1D with frozen first layer', violated='copy=True shares parameter tensors with the solver', best=best))

        # (vii) mode-dependent layers: the solution is condition(net) with the network AS TRAINED (same mode), copy or not
        class ModeLayer(nn.Module):
            def forward(self, x):
                return x * (1.0 if self.training else 0.5)
        mnet = nn.Sequential(nn.Linear(1, 3), nn.Tanh(), ModeLayer(), nn.Linear(3, 1))
        sm = S.Solver1D(lambda u, t: [diff(u, t) + u], [IVP(0., 1.)], t_min=0., t_max=1., nets=[mnet],
                        train_generator=Generator1D(5, 0., 1.), valid_generator=Generator1D(5, 0., 1.))
        sm.fit(2, tqdm_file=None)
        for best in (False, True):
            src = sm.best_nets if best else sm.nets
            modes = [bool(n.training) for n in src]
            want = sm.conditions[0].enforce(src[0], tt.reshape(-1, 1)).reshape(tt.shape)
            for copy in (True, False):
                sol_ = sm.get_solution(copy=copy, best=best)
                if not torch.equal(sol_(tt), want) or [bool(n.training) for n in sol_.nets] != modes or [bool(n.training) for n in src] != modes:
                    bad.append(dict(case='network with a mode-dependent layer', violated='solution differs from condition(network) of the selected '
                                    'network (training / eval mode of the networks changed)', copy=copy, best=best,
                                    modes_of_solution_nets=[bool(n.training) for n in sol_.nets], modes_of_solver_nets=modes))
        # (viii) residuals of equations that couple the points (integral / mean-field terms), on MANY points, numpy or not
        nl = lambda u, t: [diff(u, t) + u - u.mean()]
        sn = S.Solver1D(nl, [IVP(0., 1.)], t_min=0., t_max=1., nets=[FCNN(1, 1, hidden_units=(3,))],
                        train_generator=Generator1D(5, 0., 1.), valid_generator=Generator1D(5, 0., 1.))
        sn.fit(1, tqdm_file=None)
        for npts in (7, 4099, 33000, 70001):
            tl = torch.linspace(0., 1., npts)
            cs = [tl.reshape(-1, 1).requires_grad_()]
            want = nl(sn.get_solution(copy=False, best=True)(*cs), *cs)[0].detach().reshape(-1)
            for to_numpy in (True, False):
                got = sn.get_residuals(tl, to_numpy=to_numpy)
                got = torch.as_tensor(got).detach().reshape(-1)
                if got.shape != want.shape or not torch.equal(got, want):
                    bad.append(dict(case='Solver1D, equation with a mean-field term', violated='get_residuals != equations applied to the solution at '
                                    'the given coordinates', n_points=npts, to_numpy=to_numpy,
                                    max_error=float((got - want).abs().max()) if got.shape == want.shape else 'shape'))
        # (ix) "the residuals of THAT solution": get_residuals is the user's equations applied to what get_solution returns, also when the
        # two could differ - a training-time enforcer (SolverSpherical), a user subclass that overrides get_solution
        spde2 = lambda u, r, th, ph: [diff(u, r) + u]
        se = S.SolverSpherical(spde2, [DirichletBVPSpherical(0.1, lambda th, ph: th * 0, 1., lambda th, ph: th * 0 + 1)], r_min=0.1, r_max=1.,
                               nets=[FCNN(3, 1, hidden_units=(4,))], train_generator=GeneratorSpherical(8, 0.1, 1.), valid_generator=GeneratorSpherical(8, 0.1, 1.),
                               enforcer=lambda net, cond, coords: cond.enforce(net, *coords) + 0.25 * coords[0])

        class Shifted(S.Solver1D):
            def get_solution(self, copy=True, best=True):
                base = super().get_solution(copy=copy, best=best)
                return S.Solution1D(base.nets, [IVP(0., 2.5)])
        sh = Shifted(lambda u, t: [diff(u, t) + u], [IVP(0., 1.)], t_min=0., t_max=1., nets=[FCNN(1, 1, hidden_units=(3,))],
                     train_generator=Generator1D(5, 0., 1.), valid_generator=Generator1D(5, 0., 1.))
        for nm, sv_, eqs_, cds in (('SolverSpherical with an enforcer', se, spde2, [torch.rand(5) + 0.1, torch.rand(5) * 3, torch.rand(5) * 6]),
                                   ('user subclass overriding get_solution', sh, lambda u, t: [diff(u, t) + u], [torch.rand(5)])):
            try:
                sv_.fit(1, tqdm_file=None)
                res = sv_.get_residuals(*cds, best=False)
                cs = [c.reshape(-1, 1).requires_grad_() for c in cds]
                want = eqs_(sv_.get_solution(copy=False, best=False)(*cs), *cs)[0]
                if not torch.allclose(res.reshape(-1), want.reshape(-1).detach(), rtol=0, atol=1e-12):
                    bad.append(dict(case=nm, violated='get_residuals is not the equations applied to the solution that get_solution returns',
                                    max_abs_difference=float((res.reshape(-1) - want.reshape(-1)).abs().max())))
            except Exception as e:
                bad.append(dict(case=nm, violated='get_residuals / get_solution raised', error=f'{type(e).__name__}: {e}'))
        # (x) every get_solution(copy=True) is a snapshot of the solver AS IT IS THEN: a second snapshot after more training is a new one
        s2 = S.Solver1D(lambda u, t: [diff(u, t) + u], [IVP(0., 1.)], t_min=0., t_max=1., nets=[FCNN(1, 1, hidden_units=(3,))],
                        train_generator=Generator1D(5, 0., 1.), valid_generator=Generator1D(5, 0., 1.))
        try:
            s2.fit(1, tqdm_file=None)
            first = s2.get_solution(copy=True, best=False)
            v1 = first(tt).clone()
            s2.fit(2, tqdm_file=None)
            s2.conditions[0].u_0 = 1.75
            second = s2.get_solution(copy=True, best=False)
            want = s2.conditions[0].enforce(s2.nets[0], tt.reshape(-1, 1)).reshape(tt.shape)
            if not torch.equal(second(tt), want) or any(a is b for a, b in zip(first.nets, second.nets)) or not torch.equal(first(tt), v1):
                bad.append(dict(case='two snapshots (copy=True, best=False) with training in between', violated='the second snapshot is not the solver '
                                'as it is at the second call (or the first one changed)', second_equals_first=bool(torch.equal(second(tt), v1))))
        except Exception as e:
            bad.append(dict(case='two snapshots with training in between', violated='raised', error=f'{type(e).__name__}: {e}'))
        # spherical harmonics solution: sum_k enforce(net, r)_k * Y_k
        hf = RealSphericalHarmonics(max_degree=2)
        net = FCNN(1, 9, hidden_units=(5,))
        cond = DirichletBVPSphericalBasis(0.1, torch.zeros(9), 1.0, torch.ones(9))
        sol = S.SolutionSphericalHarmonics([net], [cond], harmonics_fn=hf)
        r, th, ph = torch.rand(5) + 0.1, torch.rand(5) * 3, torch.rand(5) * 6
        got = sol(r, th, ph)
        want = torch.sum(cond.enforce(net, r.reshape(-1, 1)) * hf(th.reshape(-1, 1), ph.reshape(-1, 1)), dim=1)
        if not torch.equal(got, want.reshape(r.shape)):
            bad.append(dict(case='SolutionSphericalHarmonics', violated='value != sum_k R_k(r) Y_k(theta, phi)'))
    return bad


def check(tier, seed):
    rep = Report(PID, tier, seed)
    ok, hits = kernel_phase(rep, 'NdeVerif.Proofs.C06', 'NdeVerif.C06', THEOREMS)
    if hits:
        print('forbidden tokens:', hits)
        rep.finish()
        return 2
    broken = [] if ok else [dict(kind='proof', failed=rep.failed)]
    rng = random.Random(seed)
    bad, mism = [], []
    # (a) aliasing interleaved with training
    scripts = alias_scripts(rng, 25 if tier == 'quick' else 300)
    reals = []
    for lines, kw in scripts:
        try:
            out, _ = run_script(lines, **kw)
        except Exception as e:
            bad.append(dict(script=lines, kw=kw, error=f'{type(e).__name__}: {e}'))
            out = None
        reals.append(out)
    # (b) shapes
    cases = shape_cases(tier)
    if tier == 'quick':
        cases = rng.sample(cases, 120)
    shape_lines = []
    shape_real = []
    for shape, nd, tn, nr, kind, nf in cases:
        try:
            desc, vals_ok = real_shape(shape, nd, tn, nr, kind, nf)
        except Exception as e:
            bad.append(dict(case='shape', shape=shape, ndarray=nd, to_numpy=tn, no_reshape=nr, solver=kind, n_funcs=nf, error=f'{type(e).__name__}: {e}'))
            continue
        if not vals_ok:
            bad.append(dict(case='shape', violated='values differ from condition.enforce(net, coords)', shape=shape, ndarray=nd, to_numpy=tn, no_reshape=nr, solver=kind))
        shape_real.append((('SHAPE ' + desc), (shape, nd, tn, nr, kind, nf)))
        shape_lines.append(f'shape {nf} {1 if tn else 0} {1 if nr else 0} ' + ' '.join(str(x) for x in shape))
        # the property itself: shape of the first coordinate, list iff several unknowns, numpy iff requested
        want = ('many %d ' % nf if nf > 1 else 'single ') + str([int(__import__('math').prod(shape)), 1] if nr else list(shape)) + f' numpy={"true" if tn else "false"}'
        if desc != want:
            bad.append(dict(case='shape', violated='output container/shape/type', got=desc, want=want, shape=shape, ndarray=nd, solver=kind))
    blocks = ['\n'.join(l) + '\n---' for (l, kw), o in zip(scripts, reals) if o is not None]
    blocks.append('\n'.join(shape_lines) + '\n---')
    mlines, dt = run_driver('Solver', '\n'.join(blocks) + '\n')
    mblocks = split_blocks(mlines)
    live = [o for o in reals if o is not None]
    for o, mb, (lines, kw) in zip(live, mblocks, [s for s, r in zip(scripts, reals) if r is not None]):
        if o != mb:
            first = next((i for i, (a, b) in enumerate(zip(o, mb)) if a != b), min(len(o), len(mb)))
            mism.append(dict(script=lines, kw=kw, first_difference=first, real=o[first:first + 1], model=mb[first:first + 1]))
        # the property itself on the real observations: EVAL lines vs captured values
    if mblocks and [r for r, _ in shape_real] != mblocks[-1]:
        diffs = [(r, m, c) for (r, c), m in zip(shape_real, mblocks[-1]) if r != m]
        mism.append(dict(stream='shapes', count=len(diffs), first=diffs[:2]))
    bad += [dict(value_check=b) for b in value_checks(seed)]
    if mism:
        broken.append(dict(kind='correspondence', stream='get_solution aliasing / shapes vs NdeVerif.Solution', count=len(mism), first=mism[:2]))
    n_get = sum(l.startswith('getsol') for s, _ in scripts for l in s)
    rep.coverage.update(programs=len(scripts) + len(cases), traces_validated_against_impl=len(live) + len(shape_real) - len(mism),
                        evaluations=n_get + len(cases), distinct_nontrivial=len({tuple(s) for s, _ in scripts}) + len(set(cases)),
                        rule='aliasing scripts interleave get_solution(copy, best) with fit() calls in the scripted world and evaluate every '
                             'solution twice (before/after more training); shape cases = (first-coordinate shape, tensor/ndarray, to_numpy, '
                             'no_reshape, solution class, number of unknowns); values compared bit-exactly with condition.enforce(net, coords)',
                        input_distribution=dict(get_solution_calls=n_get, shape_cases=len(cases), driver_seconds=round(dt, 1)))
    rep.samples = [dict(script=scripts[0][0][-8:]), dict(shape_case=str(cases[0]))]
    rep.assumptions = ['networks are values in the model; deepcopy fidelity, numpy conversion, dtype/device handling are runtime (observed, not proved)',
                       'SolutionSphericalHarmonics and get_residuals are compared numerically (bit-exact) with their defining expressions']
    for b in bad[:3]:
        rep.violation(dict(kind='failing-input', input=b, broken=broken))
    if broken and not bad:
        rep.violation(dict(kind='unproved', broken=broken), found_input=False, name='unproved')
    return rep.finish(checker_cmd='cd lean && lake build NdeVerif.Proofs.C06 && lake env lean --run drivers/Solver.lean < scripts')


def replay(path):
    import json
    d = json.load(open(path))
    print(json.dumps(d.get('input'), indent=1)[:3000])
    return 0
