"""C12 — condition composition: ensembles and output-unit selection act column-wise."""
import itertools
import random
import sys
from ..world import tie_check, SymWorld
from ..leangen import GenFile, Obligation

PID = 'C12'
KINDS = ['ivpd', 'ivpn', 'dbvp', 'noc', 'bivp']


def make_cond(kind, w, sfx):
    from neurodiffeq.conditions import IVP, DirichletBVP, NoCondition, BundleIVP
    p = lambda n: w.param(f'{n}_{sfx}')
    if kind == 'ivpd':
        return IVP(t_0=p('t0'), u_0=p('u0'))
    if kind == 'ivpn':
        return IVP(t_0=p('t0'), u_0=p('u0'), u_0_prime=p('up'))
    if kind == 'dbvp':
        return DirichletBVP(t_0=p('t0'), u_0=p('u0'), t_1=p('t1'), u_1=p('u1'))
    if kind == 'noc':
        return NoCondition()
    if kind == 'bivp':
        return BundleIVP(t_0=p('t0'), u_0=p('u0'))
    raise ValueError(kind)


def retarget(tree, ctx_from, ctx_to, sym_rename):
    """re-index variables/symbols of a tree traced in ctx_from for use in ctx_to"""
    op = tree[0]
    if op == 'var':
        return ('var', ctx_to.vars.index(ctx_from.vars[tree[1]]))
    if op in ('nat', 'rat', 'pi'):
        return tree
    if op == 'app':
        name = sym_rename.get(ctx_from.syms[tree[1]], ctx_from.syms[tree[1]])
        return ('app', ctx_to.syms.index(name), tree[2], tuple(retarget(a, ctx_from, ctx_to, sym_rename) for a in tree[3]))
    if op in ('D',):
        return ('D', ctx_to.vars.index(ctx_from.vars[tree[1]]), retarget(tree[2], ctx_from, ctx_to, sym_rename))
    if op == 'subst':
        raise ValueError('subst in retarget')
    return (op,) + tuple(retarget(a, ctx_from, ctx_to, sym_rename) if isinstance(a, tuple) else a for a in tree[1:])


def tuples(tier, seed):
    allt = [t for k in (1, 2, 3) for t in itertools.product(KINDS[:4], repeat=k)]
    four = [t for t in itertools.product(KINDS[:4], repeat=4)]
    rng = random.Random(seed)
    if tier == 'quick':
        must = [('ivpd',), ('ivpd', 'ivpn'), ('dbvp', 'noc', 'ivpn'), ('ivpn', 'dbvp', 'ivpd', 'noc'), ('bivp', 'ivpd')]
        out = must + rng.sample(allt, 5)
    else:
        out = allt + rng.sample(four, 40) + [('bivp', 'ivpd'), ('bivp', 'bivp', 'noc')]
    return list(dict.fromkeys(out))


def generate(seeds=(1, 2, 3), tier='quick'):
    from neurodiffeq.conditions import EnsembleCondition, NoCondition
    g = GenFile(PID)
    stats = {}
    tl = tuples(tier, seeds[0])
    from .. import fex as F, ex as X
    fg = F.FGenFile(PID + 'X')
    g.parts.append(fg)
    # sub-conditions that still carry an output-unit binding from an earlier (deprecated) set_impose_on: inside an ensemble the
    # position decides, column i belongs to sub-condition i
    stale = [(t, True) for t in tl if len(t) >= 2][:2 if tier == 'quick' else 12]
    for tup, stale_units in [(t, False) for t in tl] + stale:
        k = len(tup)
        name = ('ensu_' if stale_units else 'ens_') + '_'.join(tup)

        def scen(w, tup=tup, k=k, stale_units=stale_units):
            t = w.coord('t')
            conds = [make_cond(kd, w, i) for i, kd in enumerate(tup)]
            if stale_units:
                for i, c in enumerate(conds):
                    c.set_impose_on((i + 1) % k)
            return EnsembleCondition(*conds).enforce(w.net('N', 1, k), t)
        sw, outs, st = tie_check(scen, seeds[:2], n_rows=(3,))
        stats[name] = st
        for i, kd in enumerate(tup):
            tree = sw.tree(outs[0], i)
            g.add_def(f'{name}_c{i}', tree, f'traced from /repo: EnsembleCondition{tup} column {i}; variables {sw.ctx.vars}; symbols {sw.ctx.syms}')
            # the sub-condition alone, on a single-output network
            w1 = SymWorld()
            t1 = w1.coord('t')
            alone = make_cond(kd, w1, i).enforce(w1.net('M', 1, 1), t1)
            rhs = retarget(w1.tree(alone), w1.ctx, sw.ctx, {'M': f'N.{i}' if k > 1 else 'N'})
            rv = list(sw.ctx.vars)
            g.thm_eq(f'{name}_c{i}_eq', rv, rv, f'{name}_c{i}', tree, rhs,
                     what=f'EnsembleCondition{tup}: column {i} equals sub-condition {i} ({kd}) applied to the network\'s output {i} alone')
            # operation-order model: column i is, operation for operation, the sub-condition alone on output i (no arithmetic law needed)
            try:
                cF, c1 = X.Ctx(), X.Ctx()
                cF.vars, c1.vars = list(sw.ctx.vars), list(w1.ctx.vars)
                fcol = F.to_ftree(outs[0].cols[i], cF)
                falone = F.to_ftree(alone.cols[0], c1)
                target = 'F:' + (f'N.{i}' if k > 1 else 'N')
                smap = {j_: cF.syms.index(target if nm == 'F:M' else nm) for j_, nm in enumerate(c1.syms)}
                fg.add_def(f'{name}_c{i}_f', fcol, f'traced from /repo, operation for operation: EnsembleCondition{tup} column {i}; variables {cF.vars}; symbols {cF.syms}')
                fg.thm_same_ops(f'{name}_c{i}_same_operations', f'{name}_c{i}_f', fcol, F.retarget(falone, c1.vars, cF.vars, smap),
                                what=f'EnsembleCondition{tup}: column {i} performs exactly the operations of sub-condition {i} ({kd}) alone on output {i}')
            except (F.Unsupported, ValueError) as e:
                fg.skipped.append((f'{name}_c{i}', f'{type(e).__name__}: {e}'))

    # NoCondition: raw network output for any input/output width
    for n_in in range(1, 5):
        for n_out in (1, 2, 4) if tier == 'quick' else (1, 2, 3, 4):
            name = f'noc_{n_in}_{n_out}'

            def scen(w, n_in=n_in, n_out=n_out):
                xs = [w.coord(f'x{i}') for i in range(n_in)]
                return NoCondition().enforce(w.net('N', n_in, n_out), *xs)
            sw, outs, st = tie_check(scen, seeds[:1], n_rows=(2,))
            stats[name] = st
            for j in range(n_out):
                tree = sw.tree(outs[0], j)
                g.add_def(f'{name}_c{j}', tree, f'traced: NoCondition on a {n_in}->{n_out} network, column {j}')
                raw = ('app', sw.ctx.syms.index(f'N.{j}' if n_out > 1 else 'N'), (0,) * n_in, tuple(('var', i) for i in range(n_in)))
                rv = list(sw.ctx.vars)
                g.thm_eq(f'{name}_c{j}_id', rv, rv, f'{name}_c{j}', tree, raw, what='NoCondition returns the raw network output')

    # ith_unit: the condition on unit j of a shared 3-output network = the condition on a single-output network N.j
    from . import C01
    S = C01.scenarios()
    for base in ('ivp_d', 'ivp_n', 'dbvp', 'de_dd', 'de_dn', 'de_nd', 'de_nn'):
        w1 = SymWorld()
        alone = S[base](w1)
        t_alone = w1.tree(alone)
        for j in range(3):
            name = f'{base}_u{j}'
            sw, outs, st = tie_check(S[name], seeds[:1], n_rows=(2,))
            stats['unit_' + name] = st
            tree = sw.tree(outs[0])
            g.add_def(name, tree, f'traced: {base} with ith_unit={j} on a 3-output network')
            # symbols of the unit trace must be exactly {N_3.j}
            others = [s for s in sw.ctx.syms if s != f'N_3.{j}']
            rv = list(sw.ctx.vars)
            if others:
                g.failures.append((name, f'unit-{j} trace mentions other network outputs: {others}'))
            # alone-tree has aux vars in possibly different order: compare via resolve-level equality of the two traces
            try:
                rhs = retarget_resolved(t_alone, w1.ctx, sw.ctx, {'N': f'N_3.{j}'})
                g.thm_eq(f'{name}_only_that_column', rv, rv, name, tree, rhs,
                         what=f'{base} with ith_unit={j}: equals the condition enforced on output {j} alone (no other column occurs)')
            except KeyError as e:
                g.failures.append((name, f'retarget failed: {e}'))
    # overriding enforce() (IBVP1D, all four modes) and DirichletBVP2D with ith_unit on a shared 2-output network
    from . import C02
    S2 = C02.scenarios()
    for base in ['bvp2d'] + ['ibvp_' + m for m in ('dd', 'dn', 'nd', 'nn')]:
        w1 = SymWorld()
        t_alone = w1.tree(S2[base](w1))
        for j in range(2):
            name = f'{base}_u{j}'
            sw, outs, st = tie_check(S2[name], seeds[:1], n_rows=(2,))
            stats['unit_' + name] = st
            if len(outs[0].cols) != 1:
                g.failures.append((name, f'enforce with ith_unit={j} returned {len(outs[0].cols)} columns instead of 1'))
                g.raw(f'theorem {name}_single_column : False := by\n  fail "ith_unit={j}: {len(outs[0].cols)} output columns"\n',
                      [Obligation(f'{name}_single_column', 'shape', 'one output column', 'ith_unit selects exactly one column')])
                continue
            tree = sw.tree(outs[0])
            g.add_def(name, tree, f'traced: {base} with ith_unit={j} on a 2-output network')
            others = [s_ for s_ in sw.ctx.syms if s_.startswith('N') and s_ != f'N_2.{j}']
            if others:
                g.failures.append((name, f'unit-{j} trace mentions other network outputs: {others}'))
            rv = list(sw.ctx.vars)
            try:
                rhs = retarget_resolved(t_alone, w1.ctx, sw.ctx, {'N': f'N_2.{j}'})
                hy = [('hx', 'x0 ≠ x1')] + ([('hy', 'y0 ≠ y1')] if base == 'bvp2d' else [])
                g.thm_eq(f'{name}_only_that_column', rv, rv, name, tree, rhs, hyps=hy,
                         what=f'{base} with ith_unit={j}: equals the condition enforced on output {j} alone')
            except (KeyError, ValueError) as e:
                g.failures.append((name, f'retarget failed: {e}'))
    g.exact_info = dict(module='NdeVerif.Gen.C12X', theorems=len(fg.obligations), scenarios_outside_the_fragment=fg.skipped, not_reduced=[n for n, _ in fg.failures],
                        meaning='every traced ensemble column is, operation for operation (decidable syntactic equality of the operation-order expressions), '
                                'the sub-condition traced alone on that output unit: column-wise action holds bit for bit in any arithmetic')
    return g, stats


def retarget_resolved(tree, ctx_from, ctx_to, ren):
    from .. import ex as X
    t = X.resolve(tree)
    # after resolution no aux variables remain; map by name
    return retarget(t, ctx_from, ctx_to, ren)


ASSUMPTIONS = [
    'sub-conditions are drawn from the closed-form classes with one input (IVP both modes, DirichletBVP, NoCondition, BundleIVP)',
    'rejection paths (width mismatch; overridden enforce without force) are observed on the real code on every run',
]


def runtime_checks():
    """exact (non-numeric) observations on the real code; returns failing inputs"""
    import torch
    from neurodiffeq.conditions import EnsembleCondition, IVP, NoCondition, IBVP1D, DoubleEndedBVP1D, DirichletBVP, BaseCondition
    from neurodiffeq.networks import FCNN
    bad = []
    for k_net in range(1, 5):
        for k_cond in range(1, 5):
            net = FCNN(1, k_net, hidden_units=(3,))
            cond = EnsembleCondition(*[IVP(0., float(i)) for i in range(k_cond)])
            t = torch.rand(3, 1)
            try:
                out = cond.enforce(net, t)
                if k_net != k_cond:
                    bad.append(dict(case='mismatch-accepted', outputs=k_net, conditions=k_cond, shape=list(out.shape)))
                elif tuple(out.shape) != (3, k_cond):
                    bad.append(dict(case='wrong-shape', outputs=k_net, shape=list(out.shape)))
            except (ValueError, AssertionError):        # "rejected": the kind of error is not part of the property
                if k_net == k_cond:
                    bad.append(dict(case='match-rejected', outputs=k_net))
    # ith_unit: exactly one column comes back, for every unit index (0 included) and every overriding enforce()
    from neurodiffeq.conditions import DirichletBVP2D
    zero = lambda z: z * 0
    for n_out in (2, 3):
        for j in list(range(n_out)) + [-1]:        # -1: the last unit, in Python's usual indexing
            conds = [('IVP', IVP(0., 1.), 1), ('DirichletBVP', DirichletBVP(0., 0., 1., 1.), 1),
                     ('DoubleEndedBVP1D-dn', DoubleEndedBVP1D(0., 1., x_min_val=0., x_max_prime=1.), 1),
                     ('DoubleEndedBVP1D-nn', DoubleEndedBVP1D(0., 1., x_min_prime=0., x_max_prime=1.), 1),
                     ('DirichletBVP2D', DirichletBVP2D(0., zero, 1., zero, 0., zero, 1., zero), 2),
                     ('IBVP1D-dd', IBVP1D(0., 1., 0., zero, x_min_val=zero, x_max_val=zero), 2),
                     ('IBVP1D-dn', IBVP1D(0., 1., 0., zero, x_min_val=zero, x_max_prime=zero), 2),
                     ('IBVP1D-nn', IBVP1D(0., 1., 0., zero, x_min_prime=zero, x_max_prime=zero), 2)]
            for cname, c, n_in in conds:
                c.ith_unit = j
                net = FCNN(n_in, n_out, hidden_units=(3,))
                xs = [torch.rand(4, 1, requires_grad=True) for _ in range(n_in)]
                try:
                    out = c.enforce(net, *xs)
                    if tuple(out.shape) != (4, 1):
                        bad.append(dict(case='ith_unit output width', condition=cname, unit=j, outputs=n_out, shape=list(out.shape)))
                    elif j == -1:
                        c.ith_unit = n_out - 1
                        ref = c.enforce(net, *xs)
                        if not torch.equal(out, ref):
                            bad.append(dict(case='ith_unit = -1 does not select the last output unit', condition=cname, outputs=n_out))
                except Exception as e:
                    bad.append(dict(case='ith_unit enforce raised', condition=cname, unit=j, outputs=n_out, error=f'{type(e).__name__}: {e}'))
    # the width check holds on EVERY use of an ensemble object, not only on the first
    ens = EnsembleCondition(IVP(0., 1.), IVP(0., 2.))
    tt = torch.rand(3, 1)
    ens.enforce(FCNN(1, 2, hidden_units=(3,)), tt)
    for wider in (3, 4):
        try:
            out = ens.enforce(FCNN(1, wider, hidden_units=(3,)), tt)
            bad.append(dict(case='mismatch-accepted on a later use of the same ensemble object', outputs=wider, conditions=2, shape=list(out.shape)))
        except (ValueError, AssertionError):
            pass
    # a condition bound to one unit and later re-bound to another (the same conditions reused for a second single-network solve)
    import warnings as _w
    with _w.catch_warnings():
        _w.simplefilter('ignore')
        for first, second in ((0, 2), (2, 0), (1, 1)):
            net = FCNN(1, 3, hidden_units=(3,))
            tt = torch.rand(4, 1, requires_grad=True)
            c = IVP(0.25, 1.5)
            c.set_impose_on(first)
            c.enforce(net, tt)
            c.set_impose_on(second)
            ref = IVP(0.25, 1.5)
            ref.ith_unit = second
            if c.ith_unit != second or not torch.equal(c.enforce(net, tt), ref.enforce(net, tt)):
                bad.append(dict(case='set_impose_on called a second time', first_unit=first, second_unit=second, unit_now=c.ith_unit,
                                violated='the condition does not constrain the unit it was bound to last'))
    # a forced ensemble of conditions that override enforce(): column i is sub-condition i applied to output unit i (and to no other)
    with _w.catch_warnings():
        _w.simplefilter('ignore')
        subs = [DoubleEndedBVP1D(0., 1., x_min_val=1.0, x_max_val=-2.0), IVP(0., 5.0), DoubleEndedBVP1D(0., 1., x_min_val=3.0, x_max_val=4.0),
                IBVP1D(0., 1., 0., lambda x: x * 0 + 7.0, x_min_val=lambda t: t * 0 + 7.0, x_max_val=lambda t: t * 0 + 7.0)]
        for pick in ((0, 2), (2, 0), (0, 1, 2), (1, 2, 0)):
            cs = [subs[i] for i in pick]
            try:
                ens = EnsembleCondition(*cs, force=True)
                net = FCNN(1, len(cs), hidden_units=(3,))
                xx = torch.tensor([[0.0], [1.0], [0.4]], requires_grad=True)
                out = ens.enforce(net, xx)
                raw = net(xx)
                want = torch.cat([c.parameterize(raw[:, i:i + 1], xx) for i, c in enumerate(cs)], dim=1)
                if tuple(out.shape) != (3, len(cs)) or not torch.allclose(out, want, rtol=0, atol=1e-12):
                    bad.append(dict(case='forced ensemble of sub-conditions that override enforce()', sub_conditions=[type(c).__name__ for c in cs],
                                    violated='column i is not sub-condition i applied to output unit i', got=out.detach().tolist(), want=want.detach().tolist()))
            except Exception as e:
                bad.append(dict(case='forced ensemble of sub-conditions that override enforce()', error=f'{type(e).__name__}: {e}'))
        # conditions without parameters are still separate objects: binding one to a unit leaves the others alone
        net = FCNN(1, 3, hidden_units=(3,))
        tt = torch.rand(4, 1)
        ncs = [NoCondition() for _ in range(3)]
        for i, c in enumerate(ncs):
            c.set_impose_on(2 - i)
        raw = net(tt)
        for i, c in enumerate(ncs):
            got = c.enforce(net, tt)
            if c.ith_unit != 2 - i or not torch.equal(got, raw[:, 2 - i].view(-1, 1)):
                bad.append(dict(case='several NoCondition objects bound to different output units', index=i, bound_to=2 - i, unit_now=c.ith_unit,
                                violated='the condition does not hand back the unit it was bound to'))
        fresh = NoCondition()
        if getattr(fresh, 'ith_unit', None) is not None or tuple(fresh.enforce(net, tt).shape) != (4, 3):
            bad.append(dict(case='a new NoCondition after others were bound to units', unit_now=getattr(fresh, 'ith_unit', None),
                            violated='a fresh condition is already bound to a unit'))
    # copies of a condition (deepcopy - what get_solution(copy=True) makes -, copy, pickle) keep the output unit they are bound to
    import copy as _copy, pickle as _pickle
    net = FCNN(1, 3, hidden_units=(3,))
    tt = torch.rand(4, 1, requires_grad=True)
    for cname, mk in (('IVP', lambda: IVP(0.25, 1.5)), ('DirichletBVP', lambda: DirichletBVP(0., 0., 1., 1.)), ('NoCondition', lambda: NoCondition()),
                      ('DoubleEndedBVP1D-dn', lambda: DoubleEndedBVP1D(0., 1., x_min_val=0., x_max_prime=1.))):
        for unit in (0, 2):
            c = mk()
            c.ith_unit = unit
            ref = c.enforce(net, tt)
            for how, cp in (('deepcopy', lambda o: _copy.deepcopy(o)), ('copy', lambda o: _copy.copy(o)), ('pickle round trip', lambda o: _pickle.loads(_pickle.dumps(o)))):
                try:
                    cc = cp(c)
                    got = cc.enforce(net, tt)
                    if getattr(cc, 'ith_unit', None) != unit or tuple(got.shape) != (4, 1) or not torch.equal(got, ref):
                        bad.append(dict(case=f'{how} of a condition bound to an output unit', condition=cname, unit=unit, unit_of_copy=getattr(cc, 'ith_unit', None),
                                        shape=list(got.shape), violated='the copy does not constrain the same single output unit'))
                except Exception as e:
                    bad.append(dict(case=f'{how} of a condition bound to an output unit', condition=cname, unit=unit, error=f'{type(e).__name__}: {e}'))
    # user conditions derived from NoCondition (polymorphic in the input width) that DO re-parameterise: an ensemble applies each to its column
    class Squared(NoCondition):
        def parameterize(self, output_tensor, *input_tensors):
            return output_tensor ** 2 + 1.0

    class Damped(NoCondition):
        def parameterize(self, output_tensor, *input_tensors):
            return output_tensor * input_tensors[0]
    net2 = FCNN(1, 2, hidden_units=(3,))
    raw = net2(tt)
    for cs, want in (((Squared(), Damped()), torch.cat([raw[:, :1] ** 2 + 1.0, raw[:, 1:2] * tt], 1)), ((Squared(), Squared()), raw ** 2 + 1.0),
                     ((NoCondition(), Damped()), torch.cat([raw[:, :1], raw[:, 1:2] * tt], 1))):
        got = EnsembleCondition(*cs).enforce(net2, tt)
        if tuple(got.shape) != (4, 2) or not torch.allclose(got, want, rtol=0, atol=1e-12):
            bad.append(dict(case='ensemble of user conditions derived from NoCondition', sub_conditions=[type(c).__name__ for c in cs],
                            violated='column i is not sub-condition i applied to output unit i', got=got.detach().tolist(), want=want.detach().tolist()))
    # batches of exactly one sample (and of none): an ensemble still returns one row per sample and one column per sub-condition
    for nrows in (1, 0, 2):
        for k in (2, 3):
            t1 = torch.rand(nrows, 1, requires_grad=True)
            try:
                out = EnsembleCondition(*[IVP(0., float(i)) for i in range(k)]).enforce(FCNN(1, k, hidden_units=(3,)), t1)
                if tuple(out.shape) != (nrows, k):
                    bad.append(dict(case='ensemble on a batch of exactly one (or zero) samples', rows=nrows, conditions=k, shape=list(out.shape), want=[nrows, k]))
            except Exception as e:
                bad.append(dict(case='ensemble on a batch of exactly one (or zero) samples', rows=nrows, conditions=k, error=f'{type(e).__name__}: {e}'))
    # ONE condition object in every slot of an ensemble, and a user condition whose re-parameterisation looks at its whole input:
    # column i is still that condition applied to output unit i alone
    class Normalise(BaseCondition):
        def parameterize(self, output_tensor, *input_tensors):
            return output_tensor / (1.0 + output_tensor.abs().max()) + input_tensors[0] * 0
    shared = Normalise()
    net2 = FCNN(1, 2, hidden_units=(3,))
    raw = net2(tt)
    want = torch.cat([shared.parameterize(raw[:, i:i + 1], tt) for i in range(2)], dim=1)
    got = EnsembleCondition(shared, shared).enforce(net2, tt)
    if tuple(got.shape) != (4, 2) or not torch.allclose(got, want, rtol=0, atol=1e-12):
        bad.append(dict(case='one (user) condition object in every slot of an ensemble', violated='column i is not the condition applied to output unit i alone',
                        max_abs_difference=float((got - want).abs().max()) if got.shape == want.shape else 'shape'))
    same_ivp = IVP(0.25, 1.5)
    g2 = EnsembleCondition(same_ivp, same_ivp).enforce(net2, tt)
    w2 = torch.cat([same_ivp.parameterize(raw[:, i:i + 1], tt) for i in range(2)], dim=1)
    if not torch.allclose(g2, w2, rtol=0, atol=1e-12):
        bad.append(dict(case='one IVP object in every slot of an ensemble', violated='column i is not the condition applied to output unit i alone'))
    # output units selected with integers that are not Python ints (np.argmax, np.arange, a 0-d tensor)
    import numpy as np
    net3 = FCNN(1, 3, hidden_units=(3,))
    for what, idx in (('numpy.int64', np.int64(1)), ('element of numpy.arange', np.arange(3)[2]), ('0-d integer tensor', torch.tensor(1)), ('numpy.int32', np.int32(0))):
        for cname, mk in (('IVP', lambda: IVP(0.25, 1.5)), ('DoubleEndedBVP1D-dn', lambda: DoubleEndedBVP1D(0., 1., x_min_val=0., x_max_prime=1.)), ('NoCondition', lambda: NoCondition())):
            try:
                a, b = mk(), mk()
                a.ith_unit, b.ith_unit = idx, int(idx)
                ua, ub = a.enforce(net3, tt), b.enforce(net3, tt)
                if tuple(ua.shape) != (4, 1) or not torch.equal(ua, ub):
                    bad.append(dict(case='output unit given as an integer that is not a Python int', index_type=what, condition=cname, shape=list(ua.shape),
                                    violated='the condition does not constrain exactly that output unit'))
            except Exception as e:
                bad.append(dict(case='output unit given as an integer that is not a Python int', index_type=what, condition=cname, error=f'{type(e).__name__}: {e}'))
    # the width check is part of the behaviour, not a debugging aid: it also holds when Python runs with optimisations (-O strips asserts)
    import subprocess, sys as _sys, os as _os
    code = ("import warnings; warnings.simplefilter('ignore'); import torch\n"
            "from neurodiffeq.conditions import EnsembleCondition, IVP\nfrom neurodiffeq.networks import FCNN\n"
            "try:\n    out = EnsembleCondition(IVP(0., 1.), IVP(0., 2.)).enforce(FCNN(1, 3, hidden_units=(3,)), torch.rand(4, 1))\n    print('ACCEPTED', tuple(out.shape))\n"
            "except (ValueError, AssertionError):\n    print('REJECTED')\n")
    try:
        r = subprocess.run([_sys.executable, '-O', '-W', 'ignore', '-c', code], capture_output=True, text=True, timeout=300, env=dict(_os.environ))
        if 'REJECTED' not in r.stdout:
            bad.append(dict(case='python -O: 3-output network with a 2-condition ensemble', violated='the mismatch is not rejected with ValueError', stdout=r.stdout[-200:],
                            stderr=r.stderr[-300:]))
    except Exception as e:
        bad.append(dict(case='python -O subprocess', error=f'{type(e).__name__}: {e}'))
    one = lambda t: t
    for mk in (lambda: IBVP1D(0., 1., 0., one, x_min_val=one, x_max_val=one), lambda: DoubleEndedBVP1D(0., 1., x_min_val=0., x_max_val=1.)):
        c = mk()
        try:
            EnsembleCondition(IVP(0., 0.), c)
            bad.append(dict(case='overridden-enforce-accepted', cls=type(c).__name__))
        except ValueError:
            pass
        try:
            import warnings
            with warnings.catch_warnings():
                warnings.simplefilter('ignore')
                EnsembleCondition(IVP(0., 0.), c, force=True)
        except Exception as e:
            bad.append(dict(case='force-rejected', cls=type(c).__name__, error=str(e)))
    return bad


def search(seed, tier):
    import torch
    from neurodiffeq.conditions import EnsembleCondition, NoCondition
    from neurodiffeq.networks import FCNN
    from ..world import RealWorld
    found = list(runtime_checks())
    rng = random.Random(seed)
    for tup in tuples('thorough', seed)[: (40 if tier == 'quick' else 400)]:
        k = len(tup)
        rw = RealWorld(rng.randrange(1 << 30), 4)
        t = rw.coord('t')
        conds = [make_cond(kd, rw, i) for i, kd in enumerate(tup)]
        net = FCNN(1, k, hidden_units=(6,))
        stale = k >= 2 and rng.random() < 0.5
        if stale:           # output-unit bindings left on the sub-conditions by an earlier set_impose_on: the position decides
            import warnings
            with warnings.catch_warnings():
                warnings.simplefilter('ignore')
                for i, c in enumerate(conds):
                    c.set_impose_on((i + 1) % k)
        out = EnsembleCondition(*conds).enforce(net, t)
        raw = net(t)
        for i, c in enumerate(conds):
            want = c.parameterize(raw[:, i].view(-1, 1), t)
            if not torch.allclose(out[:, i:i + 1], want, rtol=1e-12, atol=1e-12):
                found.append(dict(case='ensemble-column', tuple=tup, column=i, sub_conditions_carry_stale_unit_binding=stale, got=out[:, i].tolist(), want=want.reshape(-1).tolist()))
    for n_in in range(1, 5):
        for n_out in range(1, 5):
            net = FCNN(n_in, n_out, hidden_units=(4,))
            xs = [torch.rand(3, 1) for _ in range(n_in)]
            if not torch.equal(NoCondition().enforce(net, *xs), net(torch.cat(xs, 1))):
                found.append(dict(case='nocondition', n_in=n_in, n_out=n_out))
    return found[:5]


def check(tier, seed):
    from ..calcprop import check_calc
    return check_calc(sys.modules[__name__], tier, seed)
