"""C13 — generator combinators preserve points, pairing and size arithmetic.

Engine B: Lean model NdeVerif.Model.GenComb (object tree with the fields the real objects keep), theorems
NdeVerif.Proofs.C13, correspondence with the REAL classes of neurodiffeq.generators over spy leaves.

An expression is a JSON-able nested list:
  ['L', id, dims, [sizes…]]                      spy leaf (k-th draw has sizes[k % len] fresh points)
  ['C'|'E'|'M', [children…]]                     Concat/Ensemble/MeshGenerator(*children)
  ['+'|'*'|'^', a, b]                            operator forms
  ['T', 'P', [None | [a, b], …], g]              TransformGenerator(g, transforms=[…])      (x -> a*x+b)
  ['T', 'R', g] / ['T', 'A', [a, b], g]          TransformGenerator(g, transform=reverse dims / same affine map on all)
  ['F', ['all'] | ['mod', m, r] | ['lt', c], size|None, update_size, g]
  ['R', size|None, replacement, g]               ResampleGenerator
  ['S', g]  ['P', [[…], …]]  ['Z', g]            Static / Predefined / SamplerGenerator (root only)
"""
import contextlib
import itertools
import json
import random

from ..runner import Report, kernel_phase, known_findings, run_driver, split_blocks

PID = 'C13'
KNOWN_KEY = 'composite-size-stale-over-filter'
THEOREMS = [
    'concat_cols', 'concat_rows', 'concat_size_sum', 'ensemble_cols', 'ensemble_row', 'ensemble_size',
    'meshgrid_col', 'combos_length', 'mem_combos', 'combos_nodup', 'combos_row_major', 'mesh_rows', 'mesh_run',
    'mesh_size_prod', 'mesh_flatten', 'mesh_flatten_build', 'transform_run', 'transform_row', 'filter_run', 'filter_rows',
    'filter_size_updates', 'resample_rows', 'ixUsed_valid', 'resample_distinct', 'static_constant', 'predefined_constant',
    'sampler_shape', 'op_add_eq_concat', 'op_mul_eq_ensemble', 'op_xor_eq_mesh', 'shape_run', 'size_eq_rows',
    'size_eq_rows_calls', 'stale_concat_over_filter', 'stale_mesh_over_filter', 'stale_static_over_filter',
    'stale_transform_over_filter', 'stale_sampler_over_filter', 'size_eq_rows_fails_without_stable', 'paired_run',
    'rows_stay_paired', 'static_ctor_paired', 'predefined_ctor_rectOK',
]
SIZE_READERS = {'C', 'E', 'M', '+', '*', '^', 'T', 'S', 'Z', 'R'}   # classes whose __init__ reads a child's .size


# ---------------------------------------------------------------- expressions

def children(e):
    k = e[0]
    if k in 'CEM':
        return list(e[1])
    if k in '+*^':
        return [e[1], e[2]]
    if k in ('L', 'P'):
        return []
    return [e[-1]]


def walk(e):
    yield e
    for c in children(e):
        yield from walk(c)


def depth(e):
    return 1 + max([depth(c) for c in children(e)], default=-1)


def tokens(e):
    k = e[0]
    if k == 'L':
        return ['L', e[1], e[2], len(e[3])] + list(e[3])
    if k in 'CEM':
        return [k, len(e[1])] + [t for c in e[1] for t in tokens(c)]
    if k in '+*^':
        return [k] + tokens(e[1]) + tokens(e[2])
    if k == 'T':
        if e[1] == 'P':
            return ['T', 'P', len(e[2])] + ['_' if m is None else f'{m[0]}:{m[1]}' for m in e[2]] + tokens(e[3])
        if e[1] == 'R':
            return ['T', 'R'] + tokens(e[2])
        return ['T', 'A', f'{e[2][0]}:{e[2][1]}'] + tokens(e[3])
    if k == 'F':
        return ['F'] + list(e[1]) + ['-' if e[2] is None else e[2], int(bool(e[3]))] + tokens(e[4])
    if k == 'R':
        return ['R', '-' if e[1] is None else e[1], int(bool(e[2]))] + tokens(e[3])
    if k == 'S':
        return ['S'] + tokens(e[1])
    if k == 'P':
        return ['P', len(e[1])] + [t for c in e[1] for t in [len(c)] + list(c)]
    if k == 'Z':
        return ['Z'] + tokens(e[1])
    raise ValueError(k)


def show(e):
    return ' '.join(str(t) for t in tokens(e))


# ---------------------------------------------------------------- the real run

def leaf_value(lid, p, j):
    return 1000000 * lid + 10 * p + j


def make_spy(lid, dims, sizes):
    import torch
    from neurodiffeq.generators import BaseGenerator

    class Spy(BaseGenerator):
        def __init__(self):
            super().__init__()
            self.size = sizes[0]
            self.draws = []       # rows (tuples of ints) of every draw
            self.counter = 0

        def get_examples(self):
            n = sizes[len(self.draws) % len(sizes)]
            pts = range(self.counter, self.counter + n)
            self.counter += n
            cols = [torch.tensor([float(leaf_value(lid, p, d)) for p in pts], dtype=torch.float64) for d in range(dims)]
            self.draws.append([tuple(leaf_value(lid, p, d) for d in range(dims)) for p in pts])
            if dims == 1:
                return cols[0]
            return cols if len(self.draws) % 2 else tuple(cols)     # both return conventions of the atomic generators
    return Spy()


def pred_fn(p):
    import torch
    if p[0] == 'all':
        return lambda xs: torch.ones_like(xs[0], dtype=torch.bool)
    if p[0] == 'mod':
        return lambda xs: torch.remainder(xs[0], p[1]) == p[2]
    return lambda xs: xs[0] < p[1]


def pred_py(p, v):
    return True if p[0] == 'all' else (v % p[1] == p[2] if p[0] == 'mod' else v < p[1])


def construct(e, spies):
    """build the real objects in Python's evaluation order (children left to right, then the node)"""
    import torch
    from neurodiffeq import generators as G
    k = e[0]
    if k == 'L':
        s = make_spy(e[1], e[2], e[3])
        spies[e[1]] = s
        return s
    if k in 'CEM':
        cs = [construct(c, spies) for c in e[1]]
        return {'C': G.ConcatGenerator, 'E': G.EnsembleGenerator, 'M': G.MeshGenerator}[k](*cs)
    if k in '+*^':
        a = construct(e[1], spies)
        b = construct(e[2], spies)
        return a + b if k == '+' else (a * b if k == '*' else a ^ b)
    if k == 'T':
        g = construct(e[-1], spies)
        if e[1] == 'P':
            aff = lambda m: (None if m is None else (lambda x, a=m[0], b=m[1]: a * x + b))
            return G.TransformGenerator(g, transforms=[aff(m) for m in e[2]])
        # user callables follow the package's own convention: one dimension = a bare tensor, several = a tuple
        one = lambda t: t[0] if len(t) == 1 else t
        if e[1] == 'R':
            return G.TransformGenerator(g, transform=lambda *xs: one(tuple(reversed(xs))))
        a, b = e[2]
        return G.TransformGenerator(g, transform=lambda *xs: one(tuple(a * x + b for x in xs)))
    if k == 'F':
        g = construct(e[4], spies)
        return G.FilterGenerator(g, pred_fn(e[1]), size=e[2], update_size=bool(e[3]))
    if k == 'R':
        g = construct(e[3], spies)
        return G.ResampleGenerator(g, size=e[1], replacement=bool(e[2]))
    if k == 'S':
        return G.StaticGenerator(construct(e[1], spies))
    if k == 'P':
        return G.PredefinedGenerator(*[torch.tensor([float(v) for v in c], dtype=torch.float64) for c in e[1]])
    if k == 'Z':
        return G.SamplerGenerator(construct(e[1], spies))
    raise ValueError(k)


@contextlib.contextmanager
def record_indices(log):
    """wrap torch.randperm / torch.randint for the duration of the real run; record what they returned"""
    import torch
    rp, ri = torch.randperm, torch.randint

    def randperm(*a, **kw):
        t = rp(*a, **kw)
        log.append([int(v) for v in t.tolist()])
        return t

    def randint(*a, **kw):
        t = ri(*a, **kw)
        log.append([int(v) for v in t.reshape(-1).tolist()])
        return t
    torch.randperm, torch.randint = randperm, randint
    try:
        yield
    finally:
        torch.randperm, torch.randint = rp, ri


def all_sizes(obj):
    """.size of every object, pre-order (MeshGenerator.generators is the spliced list)"""
    out = [int(obj.size)]
    if hasattr(obj, 'generators'):
        for g in obj.generators:
            out += all_sizes(g)
    elif hasattr(obj, 'generator'):
        out += all_sizes(obj.generator)
    return out


def canon(out):
    import torch
    cols = [out] if isinstance(out, torch.Tensor) else list(out)
    data, shapes = [], []
    for c in cols:
        vals = c.detach().reshape(-1).tolist()
        if any(v != int(v) for v in vals):
            raise AssertionError('non-integral spy value')
        data.append([int(v) for v in vals])
        shapes.append('x'.join(str(s) for s in c.shape))
    return data, shapes


def exc_name(ex):
    n = type(ex).__name__
    return n if n in ('ValueError', 'IndexError', 'RuntimeError', 'TypeError') else f'Other:{n}'


def real_run(e, ncalls, torch_seed=0):
    """returns dict(lines=canonical lines as the driver prints them (without ok/stable), calls=[(data, shapes, size)],
    idx=recorded index tensors, spies, error)"""
    import torch
    torch.manual_seed(torch_seed)
    spies, idx, lines, calls = {}, [], [], []
    res = dict(lines=lines, calls=calls, idx=idx, spies=spies, build_error=None, error=None, obj=None)
    with record_indices(idx):
        try:
            obj = construct(e, spies)
        except Exception as ex:
            res['build_error'] = exc_name(ex)
            lines.append(f'build error {exc_name(ex)}')
            return res
        res['obj'] = obj
        lines += ['build ok', f'size {int(obj.size)}', 'sizes ' + ','.join(map(str, all_sizes(obj)))]
        for _ in range(ncalls):
            try:
                out = obj.get_examples()
                data, shapes = canon(out)
            except Exception as ex:
                res['error'] = exc_name(ex)
                lines.append(f'error {exc_name(ex)}')
                break
            calls.append((data, shapes, int(obj.size)))
            lines += ['call ' + '|'.join(','.join(map(str, c)) for c in data), 'shapes ' + '|'.join(shapes),
                      f'size {int(obj.size)}', 'sizes ' + ','.join(map(str, all_sizes(obj)))]
    return res


def block(e, ncalls, idx):
    return '\n'.join([str(ncalls), show(e)] + ['idx ' + ','.join(map(str, i)) for i in idx] + ['---'])


# ---------------------------------------------------------------- the property itself (row-based reference)

class Pre(Exception):
    """a caller's precondition of the property does not hold on this input (nothing to check)"""


class SpecNode:
    """what C13 says a combinator returns, computed on ROWS (tuples = points) from the sub-generators' samples:
    the spy leaves' recorded draws and the recorded index tensors; size = number of rows returned"""

    def __init__(self, e, spies, idxq, root=True):
        self.e, self.k = e, e[0]
        self.nominal = nominal_sizes(e)
        k = e[0]
        if k in 'CEM' or k in '+*^':
            cs = list(e[1]) if k in 'CEM' else [e[1], e[2]]
            self.kind = {'C': 'C', '+': 'C', 'E': 'E', '*': 'E', 'M': 'M', '^': 'M'}[k]
            self.ch = [SpecNode(c, spies, idxq, False) for c in cs]
            if self.kind == 'M':       # nested meshes are flattened
                self.ch = [s for c in self.ch for s in (c.ch if getattr(c, 'kind', None) == 'M' else [c])]
        elif k == 'L':
            self.spy, self.n = spies[e[1]], 0
        elif k == 'P':
            if len({len(c) for c in e[1]}) != 1:
                raise Pre('predefined columns of different lengths')
            self.rows = [tuple(r) for r in zip(*e[1])]
        else:
            self.g = SpecNode(e[-1], spies, idxq, False)
            if k == 'S':
                self.rows = self.g.draw()
        self.idxq = idxq

    def draw(self):
        k = self.k
        if k == 'L':
            if self.n >= len(self.spy.draws):
                raise Pre('the reference needs a leaf draw the real run did not take')
            self.n += 1
            return list(self.spy.draws[self.n - 1])
        if k in ('P', 'S'):
            return list(self.rows)
        if getattr(self, 'kind', None):
            parts = [c.draw() for c in self.ch]
            if self.kind == 'C':
                if len({len(r) for p in parts for r in p}) > 1:
                    raise Pre('concat of generators with different numbers of dimensions')
                return [r for p in parts for r in p]
            if self.kind == 'E':
                if len({len(p) for p in parts}) != 1:
                    raise Pre('ensemble of generators returning different numbers of rows')
                return [sum(rs, ()) for rs in zip(*parts)]
            if any(len(r) != 1 for p in parts for r in p):
                raise Pre('mesh of a generator that is not one-dimensional')
            return [sum(c, ()) for c in itertools.product(*parts)]     # row-major: last factor varies fastest
        rows = self.g.draw()
        if k == 'T':
            if self.e[1] == 'P':
                ms = self.e[2]
                return [tuple(x if m is None else m[0] * x + m[1] for m, x in zip(ms, r)) for r in rows]
            if self.e[1] == 'R':
                return [tuple(reversed(r)) for r in rows]
            a, b = self.e[2]
            return [tuple(a * x + b for x in r) for r in rows]
        if k == 'F':
            return [r for r in rows if pred_py(self.e[1], r[0])]
        if k == 'R':
            size, repl = self.e[1], bool(self.e[2])
            if repl and not rows:
                raise Pre('resampling with replacement from an empty draw')
            if not self.idxq:
                raise Pre('no recorded index tensor left')
            rec = self.idxq.pop(0)
            n = len(rows)
            if repl:
                if any(not 0 <= i < n for i in rec):
                    raise AssertionError('torch.randint returned an index out of range')
                return [rows[i] for i in rec]
            if sorted(rec) != list(range(n)):
                raise AssertionError('torch.randperm did not return a permutation')
            if size is not None and size > n:
                raise Pre('resample without replacement asked for more distinct rows than were drawn')
            want = self.nominal if size is None else size
            return [rows[i] for i in rec[:want]]
        if k == 'Z':
            return rows
        raise ValueError(k)


def nominal_sizes(e, memo=None):
    """constructor-time `.size` by the documented arithmetic (sum / first / product / child / explicit)"""
    k = e[0]
    if k == 'L':
        return e[3][0]
    if k == 'P':
        return len(e[1][0])
    if k in ('C', '+'):
        return sum(nominal_sizes(c) for c in children(e))
    if k in ('E', '*'):
        return nominal_sizes(children(e)[0])
    if k in ('M', '^'):
        p = 1
        for c in children(e):
            p *= nominal_sizes(c)
        return p
    if k in ('F', 'R') and e[{'F': 2, 'R': 1}[k]] is not None:
        return e[{'F': 2, 'R': 1}[k]]
    return nominal_sizes(e[-1])


def size_changing_filter_below(e):
    """a FilterGenerator whose .size can differ from the rows it returns (real mask, explicit size=, or update_size=False)
    strictly below a node whose __init__ read a child's .size"""
    return e[0] in SIZE_READERS and any(x[0] == 'F' and (x[1][0] != 'all' or x[2] is not None or not x[3])
                                        for c in children(e) for x in walk(c))


def decode(v):
    return v // 1000000, (v % 1000000) // 10, v % 10


def check_pairing_direct(e, data):
    """transform-free trees: every row must split into blocks, each block = all coordinates of ONE leaf point"""
    if any(x[0] in ('T', 'P') for x in walk(e)):
        return None
    dims = {x[1]: x[2] for x in walk(e) if x[0] == 'L'}
    n = len(data[0]) if data else 0
    if any(len(c) != n for c in data):
        return None
    for i in range(n):
        row = [c[i] for c in data]
        j = 0
        while j < len(row):
            lid, p, d = decode(row[j])
            w = dims.get(lid)
            if w is None or d != 0 or row[j:j + w] != [leaf_value(lid, p, t) for t in range(w)]:
                return f'row {i}: coordinates {row} are not a juxtaposition of whole leaf points'
            j += w
    return None


def evaluate_property(e, real):
    """returns (verdicts, skipped): verdicts = list of dict(kind=…, call=…, msg=…) for every clause that FAILS on the
    real observations; skipped = precondition text if the property does not speak about this input"""
    if real['build_error'] or real['error']:
        return [], 'exception (rejection path, compared with the model only)'
    try:
        spec = SpecNode(e, real['spies'], [list(i) for i in real['idx']])
    except Pre as p:
        return [], str(p)
    except AssertionError as a:
        return [dict(kind='indices', call=-1, msg=str(a))], None
    bad = []
    skipped = None
    for ci, (data, shapes, size) in enumerate(real['calls']):
        try:
            rows = spec.draw()
        except Pre as p:
            skipped = str(p)
            break
        except AssertionError as a:      # e.g. sampling "without replacement" used repeated indices
            bad.append(dict(kind='indices', call=ci, msg=str(a)))
            break
        got = [tuple(c[i] for c in data) for i in range(len(data[0]))] if data and len({len(c) for c in data}) == 1 else None
        if got != rows:
            bad.append(dict(kind='samples', call=ci, msg=f'returned rows {got if got is None else got[:6]}… expected {rows[:6]}…'))
        pd = check_pairing_direct(e, data)
        if pd:
            bad.append(dict(kind='pairing', call=ci, msg=pd))
        want_shape = (lambda n: f'{n}x1') if e[0] == 'Z' else (lambda n: f'{n}')
        if shapes != [want_shape(len(c)) for c in data]:
            bad.append(dict(kind='shape', call=ci, msg=f'tensor shapes {shapes}'))
        # update_size=False: the caller asked for a frozen size; a spy leaf with a varying schedule has a stale size itself
        size_in_scope = not (e[0] == 'F' and not e[3]) and all(len(set(x[3])) == 1 for x in walk(e) if x[0] == 'L')
        if size_in_scope and size != len(rows):
            bad.append(dict(kind='size', call=ci, msg=f'.size = {size} but {len(rows)} rows returned', size=size, rows=len(rows)))
    return bad, skipped


# ---------------------------------------------------------------- script generators

def static_dims(e):
    k = e[0]
    if k == 'L':
        return e[2]
    if k == 'P':
        return len(e[1])
    if k in ('C', '+'):
        return static_dims(children(e)[0])
    if k in ('E', '*', 'M', '^'):
        return sum(static_dims(c) for c in children(e))
    if k == 'T' and e[1] == 'P':
        return min(len(e[2]), static_dims(e[3]))
    return static_dims(e[-1])


class TreeGen:
    """random in-scope expressions: concat children of equal dims, ensemble children of equal nominal size, mesh over
    one-dimensional children (possibly nested meshes), both constructor and operator forms"""

    def __init__(self, rng):
        self.rng, self.next_id = rng, 1

    def leaf(self, dims, size):
        r = self.rng
        dims = dims or r.randint(1, 3)
        size = size or r.randint(1, 8)
        if size > 8 or r.random() < 0.08:
            base = 900000000 + 1000 * r.randint(0, 900)
            return ['P', [[base + 10 * i + j for i in range(size)] for j in range(dims)]]
        lid = self.next_id
        self.next_id += 1
        return ['L', lid, dims, [size]]

    def aff(self):
        r = self.rng
        return [r.choice([-2, -1, 1, 2, 3]), r.randint(-5, 5)]

    def pred(self):
        r = self.rng
        x = r.random()
        if x < 0.15:
            return ['all']
        if x < 0.8:
            m = r.choice([2, 3, 4, 20, 20])
            return ['mod', m, r.randrange(m) if m < 20 else r.choice([0, 10])]
        return ['lt', 1000000 * r.randint(0, max(1, self.next_id)) + 10 * r.randint(0, 30)]

    def split(self, total, k):
        cuts = sorted(self.rng.sample(range(1, total), k - 1))
        return [b - a for a, b in zip([0] + cuts, cuts + [total])]

    def gen(self, d, dims=None, size=None):
        r = self.rng
        if d <= 0:
            return self.leaf(dims, size)
        kinds = ['T', 'T', 'F', 'F', 'R', 'S', 'C', 'C']
        if dims is None or dims >= 2:
            kinds += ['E', 'E']
        if dims in (None, 2, 3) and (size is None or size <= 60):
            kinds += ['M', 'M']
        k = r.choice(kinds)
        sub = lambda: r.randint(0, d - 1) if r.random() < 0.5 else d - 1
        if k == 'C':
            n = r.randint(2, 3)
            if size is not None and size < n:
                return self.gen(d - 1, dims, size)
            dd = dims or r.randint(1, 3)
            sizes = self.split(size, n) if size is not None else [None] * n
            cs = [self.gen(sub(), dd, s) for s in sizes]
            return ['+', cs[0], cs[1]] if n == 2 and r.random() < 0.5 else ['C', cs]
        if k == 'E':
            n = 2 if dims == 2 else r.randint(2, 3)
            ds = self.split(dims, n) if dims is not None else [None] * n
            first = self.gen(sub(), ds[0], size)
            s = nominal_sizes(first)
            cs = [first] + [self.gen(sub(), x, s) for x in ds[1:]]
            return ['*', cs[0], cs[1]] if n == 2 and r.random() < 0.5 else ['E', cs]
        if k == 'M':
            n = dims or r.randint(2, 3)
            if size is not None:
                fs, rest = [], size
                for _ in range(n - 1):
                    f = r.choice([x for x in range(1, min(rest, 8) + 1) if rest % x == 0])
                    fs.append(f)
                    rest //= f
                fs.append(rest)
            else:
                fs = [r.randint(1, 5) for _ in range(n)]
            if n == 3 and d >= 2 and r.random() < 0.5:      # nested mesh (flattened by the constructor)
                inner = [self.gen(min(sub(), d - 2), 1, f) for f in fs[:2]]
                inner = ['^', inner[0], inner[1]] if r.random() < 0.5 else ['M', inner]
                last = self.gen(sub(), 1, fs[2])
                return ['^', inner, last] if r.random() < 0.5 else ['M', [inner, last]]
            cs = [self.gen(sub(), 1, f) for f in fs]
            return ['^', cs[0], cs[1]] if n == 2 and r.random() < 0.5 else ['M', cs]
        if k == 'T':
            g = self.gen(d - 1, dims, size)
            x = r.random()
            if x < 0.6:
                return ['T', 'P', [None if r.random() < 0.25 else self.aff() for _ in range(static_dims(g))], g]
            return ['T', 'R', g] if x < 0.8 else ['T', 'A', self.aff(), g]
        if k == 'F':
            g = self.gen(d - 1, dims, None if size is not None else None)
            explicit = size if size is not None else (r.randint(1, 8) if r.random() < 0.15 else None)
            return ['F', self.pred(), explicit, 0 if r.random() < 0.12 else 1, g]
        if k == 'R':
            g = self.gen(d - 1, dims, None)
            repl = 1 if r.random() < 0.4 else 0
            n = nominal_sizes(g)
            explicit = size if size is not None else (r.randint(1, n) if r.random() < 0.5 else None)
            if explicit is not None and explicit > n and not repl:
                repl = 1
            return ['R', explicit, repl, g]
        return ['S', self.gen(d - 1, dims, size)]

    def tree(self, maxdepth=4):
        r = self.rng
        for _ in range(50):
            self.next_id = 1
            d = r.choice([1, 2, 2, 3, 3, 3, 4, 4, 4])
            if d <= maxdepth - 1 and r.random() < 0.25:
                e = ['Z', self.gen(d)]
            else:
                e = self.gen(d)
            if depth(e) <= maxdepth and nominal_sizes(e) <= 1500 and static_dims(e) <= 8:
                return e
        return self.gen(1)


def malformed(rng):
    """rejection paths and inputs outside the property's preconditions (compared with the model, not alarmed on)"""
    L = lambda i, d=1, s=(8,): ['L', i, d, list(s)]
    F = lambda g, m=20, r_=0: ['F', ['mod', m, r_], None, 1, g]
    out = [
        ['E', [L(1, 1, (3,)), L(2, 1, (4,))]],                       # ValueError: sizes differ
        ['*', L(1, 2, (2,)), L(2, 1, (5,))],
        ['E', [F(L(1)), L(2)]],                                      # passes the check, ragged columns (caller's precondition)
        ['F', ['all'], None, 1, ['E', [F(L(1)), L(2)]]],             # IndexError: mask does not fit column 1
        ['R', None, 0, ['E', [L(1), F(L(2))]]],                      # IndexError (indices of the long column on the short)
        ['R', None, 0, ['E', [F(L(1)), L(2)]]],
        ['R', 3, 1, ['F', ['lt', -5], None, 1, L(1)]],               # RuntimeError: randint(0, …)
        ['R', None, 0, ['F', ['lt', -5], None, 1, L(1)]],            # empty draw, empty permutation
        ['M', [L(1, 2, (3,)), L(2, 1, (2,))]],                       # mesh of a 2-dimensional generator
        ['^', ['E', [L(1, 1, (2,)), L(2, 1, (2,))]], L(3, 1, (3,))],
        ['C', [L(1, 2, (3,)), L(2, 3, (2,))]],                       # zip truncates to 2 dimensions
        ['T', 'P', [[2, 1]], L(1, 3, (4,))],                         # fewer maps than dimensions
        ['T', 'P', [[2, 1], None, [3, 0], [1, 1]], L(1, 2, (4,))],   # more maps than dimensions
        L(1, 2, (3, 5, 2)),                                          # varying draw sizes
        ['C', [L(1, 1, (3, 1)), L(2, 1, (2, 4, 6))]],
        ['R', 6, 0, L(1, 2, (4,))],                                  # more distinct rows than exist
        ['P', [[1, 2, 3], [4, 5]]],                                  # ValueError
        ['S', ['R', 3, 0, ['C', [L(1, 2, (2,)), L(2, 2, (3,))]]]],   # index tensor consumed at construction
        ['M', [['S', F(L(1))], L(2, 1, (3,))]],
        ['F', ['mod', 20, 0], 5, 0, L(1, 2)],                        # update_size=False keeps size 5
    ]
    rng.shuffle(out)
    return out


KNOWN_REPRO = [      # the stale-size family on spy leaves: (expression, constructor-time size, rows of the first call)
    (['C', [['F', ['mod', 20, 0], None, 1, ['L', 1, 1, [8]]], ['L', 2, 1, [8]]]], 16, 12),
    (['M', [['F', ['mod', 20, 0], None, 1, ['L', 1, 1, [8]]], ['L', 2, 1, [8]]]], 64, 32),
    (['S', ['F', ['mod', 20, 0], None, 1, ['L', 1, 1, [8]]]], 8, 4),
    (['T', 'P', [[2, 1]], ['F', ['mod', 20, 0], None, 1, ['L', 1, 1, [8]]]], 8, 4),
    (['Z', ['F', ['mod', 20, 0], None, 1, ['L', 1, 1, [8]]]], 8, 4),
]


def exhaustive(rng):
    """every expression of depth ≤ 2 over a small vocabulary (thorough tier)"""
    def leaves(i):
        return [['L', i, 1, [2]], ['L', i, 1, [3]], ['L', i, 2, [2]]]

    def unary(g):
        d = static_dims(g)
        return [['T', 'P', [[2, 1]] + [None] * (d - 1), g], ['T', 'R', g], ['T', 'A', [-1, 3], g],
                ['F', ['mod', 20, 0], None, 1, g], ['F', ['all'], None, 1, g], ['F', ['mod', 20, 10], 2, 0, g],
                ['R', None, 0, g], ['R', 2, 1, g], ['R', 1, 0, g], ['S', g], ['Z', g]]

    def binary(a, b):
        return [['C', [a, b]], ['E', [a, b]], ['M', [a, b]], ['+', a, b], ['*', a, b], ['^', a, b]]

    def relabel(e, off):
        if e[0] == 'L':
            return ['L', e[1] + off] + e[2:]
        return [relabel(x, off) if isinstance(x, list) and x and isinstance(x[0], str) and x[0] in 'LCEM+*^TFRSPZ' and not (e[0] == 'F' and x is e[1]) else
                ([relabel(y, off) for y in x] if e[0] in 'CEM' and x is e[1] else x) for x in e]

    d0 = leaves(1)
    d1 = [u for g in d0 for u in unary(g) if u[0] != 'Z'] + [b for a in d0 for c in leaves(2) for b in binary(a, c)]
    out = list(d0) + [['Z', g] for g in d0] + d1
    for g in d1:
        out += unary(g)
    for a in d1:
        for c in leaves(7):
            out += binary(a, c) + binary(c, a)
    return out


# ---------------------------------------------------------------- the check

def literal_reproducer():
    """the known finding on the package's own atomic generator (no spies): returns (size, rows) pairs"""
    import torch
    from neurodiffeq import generators as G
    f = lambda: G.FilterGenerator(G.Generator1D(8, 0.0, 1.0, method='equally-spaced'), lambda xs: xs[0] > 0.5)
    g8 = lambda: G.Generator1D(8, 0.0, 1.0, method='equally-spaced')
    c = G.ConcatGenerator(f(), g8())
    m = G.MeshGenerator(f(), g8())
    return dict(concat=(int(c.size), len(c.get_examples())), mesh=(int(m.size), len(m.get_examples()[0])))


def scripts(tier, seed):
    rng = random.Random(seed)
    tg = TreeGen(rng)
    out = [dict(e=e, ncalls=3, stream='known-reproducer') for e, _, _ in KNOWN_REPRO]
    out += [dict(e=e, ncalls=3, stream='malformed') for e in malformed(rng)]
    for _ in range(150 if tier == 'quick' else 5000):
        out.append(dict(e=tg.tree(), ncalls=rng.randint(3, 5 if tier == 'quick' else 7), stream='random'))
    if tier == 'thorough':
        out += [dict(e=e, ncalls=3, stream='exhaustive') for e in exhaustive(rng)]
    return out


def compare(real_lines, model_lines):
    m = [l for l in model_lines if not l.startswith(('ok ', 'stable ', 'idxleft '))]
    if m == real_lines:
        return None
    first = next((i for i, (a, b) in enumerate(zip(real_lines, m)) if a != b), min(len(real_lines), len(m)))
    return dict(first_difference=first, real=real_lines[first:first + 2], model=m[first:first + 2])


def check(tier, seed):
    rep = Report(PID, tier, seed)
    ok, hits = kernel_phase(rep, 'NdeVerif.Proofs.C13', 'NdeVerif.C13', THEOREMS)
    if hits:
        print('forbidden tokens:', hits)
        rep.finish()
        return 2
    broken = [] if ok else [dict(kind='proof', failed=rep.failed)]
    scr = scripts(tier, seed)
    reals, blocks = [], []
    for i, s in enumerate(scr):
        r = real_run(s['e'], s['ncalls'], torch_seed=seed * 100003 + i)
        reals.append(r)
        blocks.append(block(s['e'], s['ncalls'], r['idx']))
    lines, dt = run_driver('C13', '\n'.join(blocks) + '\n')
    mblocks = split_blocks(lines)
    mismatches, failing, known_hits = [], [], []
    hist = dict(streams={}, depth={}, node_kinds={}, dims={}, exceptions={}, preconditions_not_met={}, model_ok_calls=0,
                model_stable_trees=0, index_tensors=0, calls=0, operator_forms=0, size_clause_stale=0)
    evaluations = 0
    if len(mblocks) != len(scr):
        mismatches.append(dict(error='driver returned a different number of blocks', got=len(mblocks), want=len(scr)))
    for s, r, mb in zip(scr, reals, mblocks):
        e = s['e']
        hist['streams'][s['stream']] = hist['streams'].get(s['stream'], 0) + 1
        hist['depth'][depth(e)] = hist['depth'].get(depth(e), 0) + 1
        for x in walk(e):
            hist['node_kinds'][x[0]] = hist['node_kinds'].get(x[0], 0) + 1
        hist['operator_forms'] += any(x[0] in '+*^' for x in walk(e))
        hist['index_tensors'] += len(r['idx'])
        hist['calls'] += len(r['calls'])
        if r['calls']:
            nd = len(r['calls'][0][0])
            hist['dims'][nd] = hist['dims'].get(nd, 0) + 1
        err = r['build_error'] or r['error']
        if err:
            hist['exceptions'][err] = hist['exceptions'].get(err, 0) + 1
        hist['model_ok_calls'] += sum(l == 'ok 1' for l in mb)
        hist['model_stable_trees'] += bool(mb[3:4] and mb[3].startswith('stable ') and mb[3] != 'stable none')
        diff = compare(r['lines'], mb)
        if diff is None and not err and mb[-1:] != ['idxleft 0']:
            diff = dict(error='the model did not consume exactly the recorded index tensors', model_tail=mb[-1:])
        if diff:
            mismatches.append(dict(script=dict(e=e, ncalls=s['ncalls'], text=show(e)), **diff))
        # model says SizeStable (n, d)  =>  the real object must return d columns of n = .size rows on every call
        st = next((l for l in mb if l.startswith('stable ')), 'stable none')
        if st != 'stable none' and not err and diff is None:
            n, d = map(int, st.split()[1:])
            for data, _, size in r['calls']:
                if size != n or len(data) != d or any(len(c) != n for c in data):
                    mismatches.append(dict(script=dict(e=e, text=show(e)), error=f'model claims {st}, real returned {[len(c) for c in data]} size {size}'))
                    break
        bad, skipped = evaluate_property(e, r)
        if err and diff is not None and not any(l in (f'error {err}', f'build error {err}') for l in mb):
            # the real code raised where the model (= the code as it was when the theorems were proved) returns samples
            bad = bad + [dict(kind='exception', call=len(r['calls']), msg=f'{err} raised; the model returns samples here')]
        evaluations += len(r['calls'])
        if skipped:
            hist['preconditions_not_met'][skipped] = hist['preconditions_not_met'].get(skipped, 0) + 1
        for b in bad:
            stale = (b['kind'] == 'size' and diff is None and st == 'stable none' and size_changing_filter_below(e)
                     and b['size'] == nominal_sizes(e))
            if stale:
                hist['size_clause_stale'] += 1
                known_hits.append((e, b))
            else:
                failing.append(dict(script=dict(e=e, ncalls=s['ncalls'], text=show(e)), clause=b['kind'], call=b['call'], violated=b['msg']))
    # the known finding: constructor-time .size of a composite over a size-changing FilterGenerator
    kf = [f for f in known_findings(PID) if f.get('key') == KNOWN_KEY]
    lit = literal_reproducer()
    if known_hits:
        by_root = {}
        for e, b in known_hits:
            by_root.setdefault(e[0], (e, b))
        e0, b0 = known_hits[0]
        text = (f'{KNOWN_KEY}: .size of a composite keeps its constructor-time value over a size-changing FilterGenerator; '
                f'ConcatGenerator(FilterGenerator(Generator1D(8), x>0.5), Generator1D(8)): size {lit["concat"][0]}, rows {lit["concat"][1]}; '
                f'MeshGenerator: size {lit["mesh"][0]}, rows {lit["mesh"][1]}; {len({show(e) for e, _ in known_hits})} trees this run, roots '
                f'{sorted(by_root)}; e.g. "{show(e0)}" {b0["msg"]}')
        if kf:
            rep.known.append(text)
        else:
            for e, b in list(by_root.values())[:3]:
                failing.append(dict(script=dict(e=e, ncalls=3, text=show(e)), clause='size', call=b['call'], violated=b['msg'],
                                    note=f'matches the pattern {KNOWN_KEY} but /verif/known_findings.json has no such entry'))
    elif kf:
        broken.append(dict(kind='known-finding-not-reproduced', key=KNOWN_KEY, literal=lit))
    if mismatches:
        broken.append(dict(kind='correspondence', stream='neurodiffeq.generators combinators vs NdeVerif.GenComb',
                           mismatches=mismatches[:3], count=len(mismatches)))
    rep.coverage.update(
        programs=len(scr), traces_validated_against_impl=len(scr) - len(mismatches), evaluations=evaluations,
        distinct_nontrivial=len({show(s['e']) for s in scr if depth(s['e']) >= 2}),
        rule='a script = (combinator expression over spy leaves / predefined points, number of get_examples() calls); non-trivial = '
             'depth >= 2; the REAL classes are constructed and called, torch.randperm/randint are wrapped to record the index tensors, '
             'the Lean model is run on the same expression and index tensors; compared exactly: construction outcome, returned '
             'values of every dimension, tensor shapes, .size of EVERY object of the tree after construction and after every call, '
             'exception kind; the property is evaluated on the real observations by an independent row-based reference',
        input_distribution=hist, driver_seconds=round(dt, 1))
    rep.samples = [dict(script=show(s['e']), first_lines=r['lines'][:5]) for s, r in list(zip(scr, reals))[25:31]]
    rep.assumptions = [
        'torch.cat / meshgrid(indexing="ij").flatten / boolean-mask and integer indexing behave as the list operations of the model '
        '(observed by the correspondence on every run)',
        'torch.randperm(n) returns a permutation of range(n) and torch.randint(n, (s,)) s indices below n (checked on every recorded tensor)',
        'SamplerGenerator is modelled at the root only; one-dimensional data are bare tensors (the package convention), so a '
        'ConcatGenerator never mixes a bare tensor with a list; composites have at least one sub-generator',
        'ensemble: children return equally many rows; mesh: children are one-dimensional; concat: children have equally many '
        'dimensions; resample without replacement: size <= rows drawn (callers\' preconditions, hypotheses of the theorems)',
    ]
    failing += input_aliasing_checks()
    for f in failing[:3]:
        rep.violation(dict(kind='failing-input', input=f, broken=broken))
    if broken and not failing:
        rep.violation(dict(kind='unproved', broken=broken), found_input=False, name='unproved')
    return rep.finish(checker_cmd='cd lean && lake build NdeVerif.Proofs.C13 && lake env lean --run drivers/C13.lean < scripts')


def input_aliasing_checks():
    """"static and predefined return the same points forever": also when the caller reuses / overwrites the arrays or lists it
    passed in (array-likes are converted, hence copied, at construction)"""
    import numpy as np
    import torch
    from neurodiffeq import generators as G
    bad = []

    def flat(out):
        out = [out] if torch.is_tensor(out) else list(out)
        return [[float(v) for v in c.detach().reshape(-1)] for c in out]
    for kind in ('numpy float64', 'numpy float32', 'list'):     # (a torch tensor passed in is documented to be used as is)
        xs, ys = [0.5, 1.5, 2.5, 3.5], [10.0, 20.0, 30.0, 40.0]
        mk = {'numpy float64': lambda v: np.array(v, dtype=np.float64), 'numpy float32': lambda v: np.array(v, dtype=np.float32),
              'torch': lambda v: torch.tensor(v), 'list': lambda v: list(v)}[kind]
        a, b = mk(xs), mk(ys)
        try:
            g = G.PredefinedGenerator(a, b)
            first = flat(g.get_examples())
            # the caller reuses its buffers
            for buf in (a, b):
                if kind == 'list':
                    buf[0] = -99.0
                else:
                    buf[:] = -99.0
            second = flat(g.get_examples())
            if first != [xs, ys] or second != [xs, ys]:
                bad.append(dict(script=dict(text=f'PredefinedGenerator({kind} inputs), inputs overwritten by the caller after construction'), clause='predefined',
                                call=1, violated=f'points changed: first {first}, then {second}, expected {[xs, ys]} forever'))
        except Exception as e:
            bad.append(dict(script=dict(text=f'PredefinedGenerator({kind} inputs)'), clause='predefined', call=0, violated=f'{type(e).__name__}: {e}'))
    # generator objects used twice: a mesh that was the leading argument of another mesh is still the mesh it was
    try:
        g1, g2, g3 = (G.Generator1D(n_, 0.0, 1.0, method='equally-spaced') for n_ in (2, 3, 2))
        xy = g1 ^ g2
        before = flat(xy.get_examples())
        xyz = xy ^ g3
        after = flat(xy.get_examples())
        if len(after) != 2 or after != before or xy.size != 6 or len(flat(xyz.get_examples())) != 3 or xyz.size != 12:
            bad.append(dict(script=dict(text='xy = g1 ^ g2; xyz = xy ^ g3; xy.get_examples()'), clause='mesh', call=1,
                            violated=f'a mesh reused after being nested changed: {len(after)} coordinates of {len(after[0])} rows, size {xy.size}'))
        # a random (stateful) filter is asked once per draw: every coordinate is cut with the same mask, rows stay paired
        class Pair(G.BaseGenerator):
            def __init__(self):
                super().__init__()
                self.size = 40

            def get_examples(self):
                x = torch.arange(40, dtype=torch.float64)
                return x, x + 100.0, x + 200.0
        torch.manual_seed(4)
        fg = G.FilterGenerator(Pair(), lambda xs: torch.rand(len(xs[0])) < 0.5)
        for call in range(3):
            out = flat(fg.get_examples())
            if len({len(c) for c in out}) != 1 or any(b != a + 100.0 or c != a + 200.0 for a, b, c in zip(*out)):
                bad.append(dict(script=dict(text='FilterGenerator(3-coordinate generator, random mask)'), clause='filter', call=call,
                                violated=f'coordinates cut with different masks: lengths {[len(c) for c in out]}'))
                break
        # an explicit size of 0 is a size (not "no size given")
        pool = G.Generator1D(8, 0.0, 1.0, method='equally-spaced')
        rs = G.ResampleGenerator(pool, size=0)
        out = flat(rs.get_examples())
        if rs.size != 0 or any(len(c) != 0 for c in out):
            bad.append(dict(script=dict(text='ResampleGenerator(pool of 8, size=0)'), clause='resample', call=0,
                            violated=f'size {rs.size}, {[len(c) for c in out]} rows returned, expected 0'))
    except Exception as e:
        bad.append(dict(script=dict(text='reused / stateful / empty combinators'), clause='reuse', call=0, violated=f'{type(e).__name__}: {e}'))
    # one generator OBJECT in two positions of a combinator: every position gets a draw of its own, in order
    try:
        class Counter(G.BaseGenerator):
            def __init__(self, size=3):
                super().__init__()
                self.size, self.k = size, 0

            def get_examples(self):
                self.k += 1
                return torch.arange(self.size, dtype=torch.float64) + 100.0 * self.k
        c_ = Counter()
        out = flat((c_ * c_).get_examples())
        if out != [[100.0, 101.0, 102.0], [200.0, 201.0, 202.0]]:
            bad.append(dict(script=dict(text='g * g with one generator object'), clause='ensemble', call=0, violated=f'positions do not get successive draws: {out}'))
        c_, d_ = Counter(), Counter()
        out = flat(G.EnsembleGenerator(c_, d_, c_).get_examples())
        if out != [[100.0, 101.0, 102.0], [100.0, 101.0, 102.0], [200.0, 201.0, 202.0]]:
            bad.append(dict(script=dict(text='EnsembleGenerator(c, d, c)'), clause='ensemble', call=0, violated=f'positions do not get successive draws: {out}'))
        c_ = Counter(2)
        out = flat((c_ ^ c_).get_examples())
        if out != [[100.0, 100.0, 101.0, 101.0], [200.0, 201.0, 200.0, 201.0]]:
            bad.append(dict(script=dict(text='g ^ g with one generator object'), clause='mesh', call=0, violated=f'axes do not get successive draws: {out}'))
        # an axis that refills ITS OWN buffer and hands the same tensor object back: every mesh draw shows the axis as it is then
        class Refill(G.BaseGenerator):
            def __init__(self):
                super().__init__()
                self.size, self.k, self.buf = 2, 0, torch.zeros(2, dtype=torch.float64)

            def get_examples(self):
                self.k += 1
                self.buf.copy_(torch.tensor([10.0 * self.k, 10.0 * self.k + 1]))
                return self.buf
        fixed = G.Generator1D(2, 0.0, 1.0, method='equally-spaced')
        mg = Refill() ^ fixed
        outs = [flat(mg.get_examples()) for _ in range(3)]
        want = [[[10.0 * k, 10.0 * k, 10.0 * k + 1, 10.0 * k + 1], [0.0, 1.0, 0.0, 1.0]] for k in (1, 2, 3)]
        if outs != want:
            bad.append(dict(script=dict(text='mesh of an axis that refills its own buffer in place and a fixed axis'), clause='mesh', call=1,
                            violated=f'draws {outs} expected {want}'))
        # transform: the maps given at construction are the maps applied, on every draw
        maps = [lambda x: x * 2.0, None]
        tg = G.TransformGenerator(G.Generator2D((2, 2), (0., 0.), (1., 1.), method='equally-spaced'), transforms=maps)
        first = flat(tg.get_examples())
        maps[0] = lambda x: x * 0.0 - 7.0
        maps[1] = lambda x: x + 100.0
        again = flat(tg.get_examples())
        lazy = G.TransformGenerator(G.Generator2D((2, 2), (0., 0.), (1., 1.), method='equally-spaced'), transforms=(f for f in (lambda x: x * 2.0, None)))
        l1, l2 = flat(lazy.get_examples()), flat(lazy.get_examples())
        if again != first or l1 != first or l2 != first or len(l2) != 2:
            bad.append(dict(script=dict(text='TransformGenerator whose list of maps is edited by the caller afterwards / given as a one-shot iterable'), clause='transform',
                            call=1, violated=f'first {first}, after the edit {again}, iterable: {l1} then {l2}'))
    except Exception as e:
        bad.append(dict(script=dict(text='one generator object in two positions / refilled axis / edited maps'), clause='reuse', call=0, violated=f'{type(e).__name__}: {e}'))
    # predefined points are returned as given - also in a single-precision session; static points survive copies and pickles; a transform
    # applies its maps on EVERY draw (maps may read state that changes between draws)
    import copy as _copy, pickle as _pickle
    prev_dt = torch.get_default_dtype()
    try:
        torch.set_default_dtype(torch.float32)
        pts = np.array([1.0 + 2.0 ** -40, 3.0 + 2.0 ** -45, 0.1], dtype=np.float64)
        got = G.PredefinedGenerator(pts, list(pts)).get_examples()
        if [float(v) for v in got[0].detach().double()] != pts.tolist():
            bad.append(dict(script=dict(text='PredefinedGenerator(float64 numpy points) in a float32 session'), clause='predefined', call=0,
                            violated=f'points were rounded: {[float(v) for v in got[0].detach().double()]} expected {pts.tolist()}'))
    except Exception as e:
        bad.append(dict(script=dict(text='PredefinedGenerator in a float32 session'), clause='predefined', call=0, violated=f'{type(e).__name__}: {e}'))
    finally:
        torch.set_default_dtype(prev_dt)
    try:
        torch.manual_seed(12)
        sg = G.StaticGenerator(G.Generator1D(5, 0.0, 1.0, method='uniform'))
        ref = flat(sg.get_examples())
        for how, cp in (('deepcopy', lambda o: _copy.deepcopy(o)), ('pickle', lambda o: _pickle.loads(_pickle.dumps(o)))):
            try:
                twin = cp(sg)
            except Exception:
                continue          # not being copyable is not what the property is about
            if flat(twin.get_examples()) != ref or flat(sg.get_examples()) != ref:
                bad.append(dict(script=dict(text=f'StaticGenerator over a random generator, {how}'), clause='static', call=1,
                                violated='the copy (or the original afterwards) returns other points than the original did'))
        state = dict(h=1.0)
        for base_name, base in (('StaticGenerator', G.StaticGenerator(G.Generator1D(3, 0.0, 1.0, method='equally-spaced'))), ('PredefinedGenerator', G.PredefinedGenerator([0.0, 0.5, 1.0]))):
            tg2 = G.TransformGenerator(base, transform=lambda x: x * state['h'])
            state['h'] = 1.0
            d1 = flat(tg2.get_examples())
            state['h'] = 3.0
            d2 = flat(tg2.get_examples())
            if d1 != [[0.0, 0.5, 1.0]] or d2 != [[0.0, 1.5, 3.0]]:
                bad.append(dict(script=dict(text=f'TransformGenerator over a {base_name} with a map that reads a changing horizon'), clause='transform', call=1,
                                violated=f'draws {d1}, {d2}: the map was not applied anew on the second draw'))
    except Exception as e:
        bad.append(dict(script=dict(text='copies of static generators / transforms of fixed points'), clause='reuse', call=0, violated=f'{type(e).__name__}: {e}'))
    # sub-generators of different precision: every sample comes back with the value the sub-generator produced
    try:
        lo = G.PredefinedGenerator(torch.tensor([0.5, 1.5], dtype=torch.float32), torch.tensor([2.5, 3.5], dtype=torch.float32))
        hi_x = torch.tensor([1.0 + 2.0 ** -40, 3.0 + 2.0 ** -45], dtype=torch.float64)
        hi_y = torch.tensor([5.0 + 2.0 ** -41, 7.0 + 2.0 ** -44], dtype=torch.float64)
        hi = G.PredefinedGenerator(hi_x, hi_y)
        for order, gens, want in (('float32 then float64', (lo, hi), [[0.5, 1.5] + hi_x.tolist(), [2.5, 3.5] + hi_y.tolist()]),
                                  ('float64 then float32', (hi, lo), [hi_x.tolist() + [0.5, 1.5], hi_y.tolist() + [2.5, 3.5]])):
            out = [[float(v) for v in c.detach().double().reshape(-1)] for c in G.ConcatGenerator(*gens).get_examples()]
            if out != want:
                bad.append(dict(script=dict(text=f'ConcatGenerator of 2-D predefined generators, {order}'), clause='concat', call=0,
                                violated=f'samples differ from the sub-generators\' samples: {out} expected {want}'))
        lo1 = G.PredefinedGenerator(torch.tensor([0.5, 1.5], dtype=torch.float32))
        hi1 = G.PredefinedGenerator(hi_x)
        out = [float(v) for v in (lo1 + hi1).get_examples().detach().double().reshape(-1)]
        if out != [0.5, 1.5] + hi_x.tolist():
            bad.append(dict(script=dict(text='float32 generator + float64 generator (1-D)'), clause='concat', call=0,
                            violated=f'samples differ from the sub-generators\' samples: {out}'))
    except Exception as e:
        bad.append(dict(script=dict(text='sub-generators of different precision'), clause='concat', call=0, violated=f'{type(e).__name__}: {e}'))
    return bad


def replay(path):
    d = json.load(open(path))
    s = d.get('input', {}).get('script')
    if not s:
        print('replay file names no script:', json.dumps(d.get('broken'))[:2000])
        return 1
    e = s['e']
    r = real_run(e, s.get('ncalls', 3), torch_seed=d.get('seed', 0))
    bad, skipped = evaluate_property(e, r)
    print('expression:', show(e))
    for l in r['lines']:
        print('  ', l[:200])
    print('->', [f"{b['kind']}@call{b['call']}: {b['msg']}" for b in bad] or skipped or 'property holds')
    return 1 if bad else 0
