"""C17, first clause: the 25 real spherical harmonics are mutually orthogonal on the sphere with a common normalisation.

Everything is regenerated from the *traced* harmonics:
  * each traced Y_k is separated, Y_k(θ, φ) = A_k(θ) · B_k(φ) (sympy proposes A_k, B_k; the kernel checks the identity),
  * every 1-D integral  ∫₀^π A_i A_j sin θ dθ  and  ∫₀^{2π} B_i B_j dφ  that is needed is proved by the fundamental theorem of
    calculus from an antiderivative certificate: sympy proposes G, the kernel checks `Ex.D G = integrand` (D_sound) and evaluates
    G at the end points,
  * the 300 orthogonality theorems and the 25 norm theorems  |∫∫ Y_k² sin θ − π| ≤ 10⁻⁷  follow from
    `iterated_integral_split`.
sympy is not trusted anywhere: a wrong separation, antiderivative or value makes a kernel obligation fail.
"""
from fractions import Fraction
import sympy as sp

from ..leangen import GenFile, Obligation, UNFOLD
from ..calc import Calc, norm_inv
from .. import ex as X

TH, PH = sp.Symbol('th', real=True), sp.Symbol('ph', real=True)
S_, C_, s_, c_ = sp.symbols('S_ C_ s_ c_')
NORM_TOL = Fraction(1, 10 ** 7)


class OrthFailure(Exception):
    pass


def tree_to_sym(t, syms):
    op = t[0]
    if op == 'var':
        return syms[t[1]]
    if op == 'nat':
        return sp.Integer(t[1])
    if op == 'rat':
        return sp.Rational(t[1], t[2])
    if op == 'pi':
        return sp.pi
    if op == 'add':
        return tree_to_sym(t[1], syms) + tree_to_sym(t[2], syms)
    if op == 'mul':
        return tree_to_sym(t[1], syms) * tree_to_sym(t[2], syms)
    if op == 'neg':
        return -tree_to_sym(t[1], syms)
    if op == 'pow':
        return tree_to_sym(t[1], syms) ** t[2]
    if op == 'un' and t[1] in ('sin', 'cos'):
        return getattr(sp, t[1])(tree_to_sym(t[2], syms))
    raise OrthFailure(f'harmonic is not a trigonometric polynomial: node {op} {t[1] if op == "un" else ""}')


def poly_to_tree(p, gens, leaves):
    """sympy polynomial expression in `gens` with rational coefficients -> Ex tree; leaves[g] is the tree of generator g"""
    P = sp.Poly(sp.expand(p), *gens)
    terms = []
    for mon, co in P.terms():
        co = sp.Rational(co)
        t = None
        for g, e in zip(gens, mon):
            if e == 0:
                continue
            f = leaves[g] if e == 1 else ('pow', leaves[g], int(e))
            t = f if t is None else ('mul', t, f)
        q = Fraction(int(co.p), int(co.q))
        if t is None:
            t = X.frac_tree(abs(q))
        elif abs(q) != 1:
            t = ('mul', X.frac_tree(abs(q)), t)
        terms.append((q < 0, t))
    if not terms:
        return ('nat', 0)
    acc = None
    for negative, t in terms:
        t = ('neg', t) if negative else t
        acc = t if acc is None else ('add', acc, t)
    return acc


def separate(tree):
    """traced harmonic (resolved tree over var 0 = θ, var 1 = φ) -> (A(S_, C_), B(s_, c_)) sympy polynomials"""
    y = sp.expand_trig(tree_to_sym(tree, [TH, PH]))
    y = sp.expand(y.subs({sp.sin(TH): S_, sp.cos(TH): C_, sp.sin(PH): s_, sp.cos(PH): c_}))
    if y.free_symbols - {S_, C_, s_, c_}:
        raise OrthFailure(f'not a polynomial in sin/cos of the angles: {y.free_symbols}')
    if y == 0:
        raise OrthFailure('harmonic is identically zero')
    co, factors = sp.factor_list(y)
    A, B = sp.Rational(co), sp.Integer(1)
    for f, e in factors:
        fs = f.free_symbols
        if fs <= {S_, C_}:
            A = A * f ** e
        elif fs <= {s_, c_}:
            B = B * f ** e
        else:
            raise OrthFailure(f'factor {f} mixes θ and φ: the harmonic does not separate')
    return sp.expand(A), sp.expand(B)


def antiderivative(F, a, b, x):
    """F polynomial in (a, b) = (sin x, cos x): returns G polynomial in (a, b, x) with dG/dx = F (checked), via Fourier form"""
    # product-to-sum through complex exponentials, exact
    z = sp.Symbol('z_')
    N = sp.Poly(F, a, b).total_degree()
    lau = sp.Poly(sp.expand(sp.expand(F.subs({a: (z - 1 / z) / (2 * sp.I), b: (z + 1 / z) / 2})) * z ** N), z)
    G = sp.Integer(0)
    for (k,), co in lau.terms():
        n = k - N
        if n == 0:
            G += co * x
        else:
            # ∫ e^{inx} = e^{inx} / (in);  e^{inx} = cos nx + i sin nx, expanded in sin x, cos x (Chebyshev)
            m = abs(n)
            cn, sn = sp.expand_trig(sp.cos(m * x)), sp.expand_trig(sp.sin(m * x)) * (1 if n > 0 else -1)
            G += co / (sp.I * n) * (cn + sp.I * sn)
    G = sp.expand(sp.expand(G).subs({sp.sin(x): a, sp.cos(x): b}))
    if G.has(sp.I):
        raise OrthFailure(f'antiderivative of {F} is not real')
    # check (sympy side only; the kernel re-checks): d/dx with a' = b, b' = -a, modulo a² + b² = 1
    dG = sp.expand(sp.diff(G, x) + sp.diff(G, a) * b - sp.diff(G, b) * a - F)
    _, rem = sp.reduced(dG, [a ** 2 + b ** 2 - 1], a, b, x) if dG != 0 else (None, 0)
    if rem != 0:
        raise OrthFailure(f'antiderivative check failed for {F}')
    return G


def lit(q):
    q = Fraction(q)
    return f'(({q.numerator}:ℝ) / ({q.denominator}:ℝ))' if q >= 0 else f'(-(({-q.numerator}:ℝ) / ({q.denominator}:ℝ)))'


def frac(r):
    r = sp.Rational(r)
    return Fraction(int(r.p), int(r.q))


class Integrals:
    """one generated file of 1-D integral theorems, de-duplicated by integrand"""

    def __init__(self, gen, kind):
        self.g = gen
        self.kind = kind            # 'T' (θ over [0, π], weight sin θ) or 'P' (φ over [0, 2π])
        self.by_key = {}

    def get(self, Fpoly):
        """returns (theorem name, integrand text as a function body of th/ph, value as (rational coefficient, has_pi))"""
        key = sp.srepr(sp.expand(Fpoly))
        if key in self.by_key:
            return self.by_key[key]
        k = len(self.by_key)
        g = self.g
        if self.kind == 'T':
            a, b, x, var, idx, envt = S_, C_, TH, 'th', 0, ['th']
            lo, hi, lo_t, hi_t = 0, sp.pi, '(0:ℝ)', 'Real.pi'
            leaves = {S_: ('un', 'sin', ('var', 0)), C_: ('un', 'cos', ('var', 0)), x: ('var', 0)}
        else:
            a, b, x, var, idx, envt = s_, c_, PH, 'ph', 1, ['(0:ℝ)', 'ph']
            lo, hi, lo_t, hi_t = 0, 2 * sp.pi, '(0:ℝ)', '(2 * Real.pi)'
            leaves = {s_: ('un', 'sin', ('var', 1)), c_: ('un', 'cos', ('var', 1)), x: ('var', 1)}
        G = antiderivative(Fpoly, a, b, x)
        at = lambda v: G.subs({a: sp.sin(v), b: sp.cos(v), x: v})
        val = sp.expand(at(hi) - at(lo))
        cpi = sp.expand(val).coeff(sp.pi, 1)
        c0 = sp.expand(val - cpi * sp.pi)
        if self.kind == 'T' and cpi != 0 or self.kind == 'P' and c0 != 0 or not (cpi.is_Rational and c0.is_Rational):
            raise OrthFailure(f'unexpected value {val} of a {self.kind} integral')
        Ft = poly_to_tree(Fpoly, [a, b], leaves)
        Gt = poly_to_tree(G, [a, b, x], leaves)
        name = f'{self.kind}{k}'
        g.add_def(f'{name}_G', Gt, f'antiderivative certificate (proposed by sympy, checked by the kernel) of the integrand of {name}')
        ok = g.thm_deriv(f'{name}_G_deriv', [var], envt, idx, var, f'{name}_G', Gt, Ft,
                         what=f'd/d{var} of the certificate = integrand of {name} (D_sound + certified value of Ex.D)')
        g.obligations = [o for o in g.obligations if not o.name.startswith(f'{name}_G_deriv')]   # helper lemmas, not property obligations
        calc = Calc(envt)
        _, ftext = calc.poly(norm_inv(X.resolve(Ft)))
        if self.kind == 'T':
            vtext, value = lit(frac(c0)), (frac(c0), False)
            envs = [('ea_', '[Real.pi]', 0, 'Real.pi'), ('eb_', '[(0:ℝ)]', 0, '(0:ℝ)')]
            fl = '[v_]'
        else:
            vtext, value = f'({lit(frac(cpi))} * Real.pi)', (frac(cpi), True)
            envs = [('ea_', '[(0:ℝ), (2 * Real.pi)]', 1, '(2 * Real.pi)'), ('eb_', '[(0:ℝ), (0:ℝ)]', 1, '(0:ℝ)')]
            fl = '[(0:ℝ), v_]'
        stmt = f'∫ {var} in {lo_t}..{hi_t}, {ftext} = {vtext}'
        lines = [f'theorem {name}_int : {stmt} := by']
        for en, lst, i, v in envs:
            lines.append(f'  have {en} : env {lst} {i} = {v} := rfl')
        lines.append(f'  rw [NdeVerif.integral_of_antiderivative (fun v_ => Ex.eval expInterp (env {fl}) {name}_G) _ _ _')
        lines.append(f'    (fun {var} => {name}_G_deriv expInterp expInterp_smooth {var}) (by fun_prop)]')
        lines.append(f'  simp (config := {{decide := true}}) only [{name}_G, {UNFOLD}, ea_, eb_, Real.sin_pi, Real.cos_pi, Real.sin_zero, '
                     'Real.cos_zero, Real.sin_two_pi, Real.cos_two_pi]')
        lines.append('  first | done | ring | norm_num | (norm_num; ring)')
        g.raw('\n'.join(lines) + '\n')
        res = (f'{name}_int', ftext, value)
        self.by_key[key] = res
        return res


def generate_orth(trees, names, lm, imports_base='NdeVerif.Gen.C17', base_ns='GenC17'):
    """trees: {name: resolved/unresolved traced tree}. Returns [(module suffix, GenFile)] and the list of property obligations."""
    gS = GenFile('C17S', imports=[imports_base, 'NdeVerif.Lemmas.SphereInt'], opens=[base_ns])
    gP = GenFile('C17P', imports=['NdeVerif.Lemmas.SphereInt'])
    gT = GenFile('C17T', imports=['NdeVerif.Lemmas.SphereInt'])
    NO = 3
    gOs = [GenFile(f'C17O{k}', imports=['NdeVerif.Gen.C17S', 'NdeVerif.Gen.C17P', 'NdeVerif.Gen.C17T'], opens=[base_ns, 'GenC17S', 'GenC17P', 'GenC17T'])
           for k in range(NO)]
    npair = 0
    AB = {}
    leavesA = {S_: ('un', 'sin', ('var', 0)), C_: ('un', 'cos', ('var', 0))}
    leavesB = {s_: ('un', 'sin', ('var', 1)), c_: ('un', 'cos', ('var', 1))}
    split_text = {}
    for n in names:
        t = X.resolve(trees[n])
        try:
            A, B = separate(t)
        except OrthFailure as e:
            gS.failures.append((f'{n}_split', str(e)))
            gS.raw(f'theorem {n}_split : False := by\n  fail "{str(e)[:100]}"\n',
                   [Obligation(f'{n}_split', 'eq', f'{n} separates as A(θ)·B(φ)', 'separation of variables')])
            continue
        AB[n] = (A, B)
        At, Bt = poly_to_tree(A, [S_, C_], leavesA), poly_to_tree(B, [s_, c_], leavesB)
        calc = Calc(['th', 'ph'])
        _, at = calc.poly(At)
        _, bt = calc.poly(Bt)
        split_text[n] = (at, bt)
        gS.thm_eq(f'{n}_split', ['th', 'ph'], ['th', 'ph'], n, t, ('mul', At, Bt),
                  what=f'{n}(θ, φ) = A(θ)·B(φ) with A, B regenerated from the traced expression (double angles expanded)')
    Pint, Tint = Integrals(gP, 'P'), Integrals(gT, 'T')
    gram = {}
    for i, ni in enumerate(names):
        for j in range(i, len(names)):
            nj = names[j]
            if ni not in AB or nj not in AB:
                continue
            (Ai, Bi), (Aj, Bj) = AB[ni], AB[nj]
            name = f'orth_{ni}_{nj}' if i != j else f'norm_{ni}'
            gO = gOs[npair % NO]
            npair += 1
            integrand = (f'Ex.eval I (env [th, ph]) {ni} * Ex.eval I (env [th, ph]) {nj} * Real.sin th')
            lhs = f'∫ th in (0:ℝ)..Real.pi, ∫ ph in (0:ℝ)..(2 * Real.pi), {integrand}'
            try:
                pname, ptext, (pv, _) = Pint.get(sp.expand(Bi * Bj))
                use_T = (i == j) or pv != 0
                if use_T:
                    tname, ttext, (tv, _) = Tint.get(sp.expand(Ai * Aj * S_))
                else:
                    # integrand text of the θ factor without proving its integral
                    calc = Calc(['th'])
                    _, ttext = calc.poly(norm_inv(poly_to_tree(sp.expand(Ai * Aj * S_), [S_, C_], leavesA)))
                    tname, tv = None, None
            except OrthFailure as e:
                gO.failures.append((name, str(e)))
                gO.raw(f'theorem {name} : False := by\n  fail "{str(e)[:100]}"\n', [Obligation(name, 'integral', lhs, str(e))])
                continue
            (ai, bi), (aj, bj) = split_text[ni], split_text[nj]
            head = [f'  have h := NdeVerif.iterated_integral_split (fun th ph => {integrand})',
                    f'    (fun th => {ttext}) (fun ph => {ptext}) (0:ℝ) Real.pi (0:ℝ) (2 * Real.pi)',
                    f'    (fun th ph => by simp only [{ni}_split I th ph, {nj}_split I th ph]; ring)']
            if i != j:
                zero_by = pname if pv == 0 else (tname if tv == 0 else None)
                stmt = f'{lhs} = 0'
                if zero_by is None:
                    gO.failures.append((name, f'harmonics are NOT orthogonal: θ-integral {tv}, φ-integral {pv}·π'))
                    gO.raw(f'theorem {name} (I : Interp) :\n    {stmt} := by\n  fail "not orthogonal"\n',
                           [Obligation(name, 'integral', stmt, 'orthogonality')])
                    gram[(i, j)] = float(tv * pv)
                    continue
                other = 'zero_mul' if zero_by == tname else 'mul_zero'
                gO.raw('\n'.join([f'theorem {name} (I : Interp) :\n    {stmt} := by'] + head +
                                 [f'  simp only [{zero_by}, zero_div, zero_mul, mul_zero] at h', '  exact h']) + '\n',
                       [Obligation(name, 'integral', stmt, f'{ni} ⟂ {nj} on the sphere (measure sin θ dθ dφ)')])
                gram[(i, j)] = 0.0
            else:
                q = tv * pv        # norm² = q·π
                gram[(i, j)] = float(q)
                stmt = f'|({lhs}) - Real.pi| ≤ {lit(NORM_TOL)}'
                if abs(q - 1) * 4 > NORM_TOL:
                    gO.failures.append((name, f'norm² = {float(q)}·π, not π within {float(NORM_TOL)}'))
                dev = abs(q - 1)
                gO.raw('\n'.join([f'theorem {name} (I : Interp) :\n    {stmt} := by'] + head + [
                    f'  simp only [{tname}, {pname}] at h',
                    '  rw [h]',
                    f'  have hq : {lit(tv)} * ({lit(pv)} * Real.pi) - Real.pi = ({lit(q - 1)}) * Real.pi := by ring',
                    '  rw [hq, abs_mul, abs_of_pos Real.pi_pos]',
                    f'  have hd : |{lit(q - 1)}| ≤ {lit(dev)} := by rw [abs_le]; constructor <;> norm_num',
                    '  have hp := Real.pi_lt_four',
                    f'  calc |{lit(q - 1)}| * Real.pi ≤ {lit(dev)} * 4 := by',
                    f'        apply mul_le_mul hd hp.le Real.pi_pos.le (by norm_num)',
                    f'    _ ≤ {lit(NORM_TOL)} := by norm_num']) + '\n',
                    [Obligation(name, 'integral', stmt, f'∫∫ {ni}² sin θ dθ dφ = π up to the rounding of the decimal constants (the library\'s common normalisation)')])
    stats = dict(harmonics_separated=len(AB), phi_integrals=len(Pint.by_key), theta_integrals=len(Tint.by_key),
                 gram_entries=len(gram), max_norm_deviation=max([abs(v - 1) for (i, j), v in gram.items() if i == j] or [0]))
    return [gS, gP, gT] + gOs, stats
