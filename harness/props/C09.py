"""C09 — spherical and cylindrical operators agree with the Cartesian definitions."""
import sys
from ..world import tie_check
from ..leangen import GenFile

PID = 'C09'


def add(*ts):
    acc = ts[0]
    for t in ts[1:]:
        acc = ('add', acc, t)
    return acc


def sub(a, b):
    return ('add', a, ('neg', b))


def mul(*ts):
    acc = ts[0]
    for t in ts[1:]:
        acc = ('mul', acc, t)
    return acc


def neg(a):
    return ('neg', a)


SIN = lambda a: ('un', 'sin', a)
COS = lambda a: ('un', 'cos', a)


def generate(seeds=(1, 2, 3), tier='quick'):
    from neurodiffeq import operators as ops
    g = GenFile(PID)
    stats = {}

    def trace(name, scen):
        sw, outs, st = tie_check(scen, seeds)
        stats[name] = st
        trees = []
        for k, o in enumerate(outs):
            t = sw.tree(o)
            dn = name if len(outs) == 1 else f'{name}_{k}'
            g.add_def(dn, t, f'traced from /repo: {name} output {k}; variables {sw.ctx.vars}; symbols {sw.ctx.syms}')
            trees.append((dn, t))
        return sw.ctx, trees

    # ---------------- spherical -------------------------------------------------------------------
    r, th, ph = ('var', 0), ('var', 1), ('var', 2)
    XYZ = (mul(mul(r, SIN(th)), COS(ph)), mul(mul(r, SIN(th)), SIN(ph)), mul(r, COS(th)))
    E = dict(r=(mul(SIN(th), COS(ph)), mul(SIN(th), SIN(ph)), COS(th)),
             t=(mul(COS(th), COS(ph)), mul(COS(th), SIN(ph)), neg(SIN(th))),
             p=(neg(SIN(ph)), COS(ph), ('nat', 0)))

    def sph_coords(w):
        r = w.coord('r', 0.3, 3.0); th = w.coord('th', 0.2, 2.9); ph = w.coord('ph', 0.0, 6.28)
        import torch
        s, c = (torch.sin, torch.cos)
        X, Y, Z = r * s(th) * c(ph), r * s(th) * s(ph), r * c(th)
        return (r, th, ph), (X, Y, Z)

    def sph_vec(w):
        import torch
        (r, th, ph), P = sph_coords(w)
        f, gg, h = (w.fn(n)(*P) for n in 'fgh')
        s, c = (torch.sin, torch.cos)
        ur = s(th) * c(ph) * f + s(th) * s(ph) * gg + c(th) * h
        ut = c(th) * c(ph) * f + c(th) * s(ph) * gg - s(th) * h
        up = -s(ph) * f + c(ph) * gg
        return (ur, ut, up), (r, th, ph)

    def F(ctx, XYZ):
        return lambda s, mi: ('app', ctx.syms.index(s), tuple(mi), XYZ)

    def dot(e, v):
        return add(*[mul(a, b) for a, b in zip(e, v)])

    rv = ['r', 'th', 'ph']
    hy = [('hr', 'r ≠ 0'), ('hs', 'Real.sin th ≠ 0')]

    def scalar_and_vector(prefix, coords_fn, vec_fn, opsd, XYZ, E, rv, hy, frame):
        def sc_grad(w):
            cs, P = coords_fn(w)
            return tuple(opsd['grad'](w.fn('f')(*P), *cs))
        ctx, trees = trace(f'{prefix}_grad', sc_grad)
        f = F(ctx, XYZ)
        gradf = (f('f', (1, 0, 0)), f('f', (0, 1, 0)), f('f', (0, 0, 1)))
        for i, k in enumerate(frame):
            g.thm_eq(f'{prefix}_grad_{k}_eq', rv, rv, *trees[i], dot(E[k], gradf), hyps=hy,
                     what=f'{prefix} gradient, {k}-component = e_{k} . (Cartesian gradient of f) at the Cartesian point')

        def sc_lap(w):
            cs, P = coords_fn(w)
            return opsd['lap'](w.fn('f')(*P), *cs)
        ctx, trees = trace(f'{prefix}_lap', sc_lap)
        f = F(ctx, XYZ)
        g.thm_eq(f'{prefix}_lap_eq', rv, rv, *trees[0], add(f('f', (2, 0, 0)), f('f', (0, 2, 0)), f('f', (0, 0, 2))), hyps=hy,
                 what=f'{prefix} Laplacian = f_xx + f_yy + f_zz at the Cartesian point')

        def sc_div(w):
            us, cs = vec_fn(w)
            return opsd['div'](*us, *cs)
        ctx, trees = trace(f'{prefix}_div', sc_div)
        f = F(ctx, XYZ)
        g.thm_eq(f'{prefix}_div_eq', rv, rv, *trees[0], add(f('f', (1, 0, 0)), f('g', (0, 1, 0)), f('h', (0, 0, 1))), hyps=hy,
                 what=f'{prefix} divergence = f_x + g_y + h_z')

        def sc_curl(w):
            us, cs = vec_fn(w)
            return tuple(opsd['curl'](*us, *cs))
        ctx, trees = trace(f'{prefix}_curl', sc_curl)
        f = F(ctx, XYZ)
        C = (sub(f('h', (0, 1, 0)), f('g', (0, 0, 1))), sub(f('f', (0, 0, 1)), f('h', (1, 0, 0))),
             sub(f('g', (1, 0, 0)), f('f', (0, 1, 0))))
        for i, k in enumerate(frame):
            g.thm_eq(f'{prefix}_curl_{k}_eq', rv, rv, *trees[i], dot(E[k], C), hyps=hy,
                     what=f'{prefix} curl, {k}-component = e_{k} . (Cartesian curl of (f,g,h))')

        def sc_vlap(w):
            us, cs = vec_fn(w)
            return tuple(opsd['vlap'](*us, *cs))
        ctx, trees = trace(f'{prefix}_vlap', sc_vlap)
        f = F(ctx, XYZ)
        L = tuple(add(f(s, (2, 0, 0)), f(s, (0, 2, 0)), f(s, (0, 0, 2))) for s in 'fgh')
        for i, k in enumerate(frame):
            g.thm_eq(f'{prefix}_vlap_{k}_eq', rv, rv, *trees[i], dot(E[k], L), hyps=hy,
                     what=f'{prefix} vector Laplacian, {k}-component = e_{k} . (Laplacian f, Laplacian g, Laplacian h)')

    # fields given directly in curvilinear coordinates (the numeric replay also uses fields that are affine in a
    # coordinate, for which autograd returns constant gradients): traced only for the tie, no extra theorems
    def direct(prefix, names, ranges, opsd):
        def sc(w):
            cs = [w.coord(n, *rg) for n, rg in zip(names, ranges)]
            u = w.fn('u')(*cs)
            vs = [w.fn(f'v{i}')(*cs) for i in range(3)]
            return tuple(opsd['grad'](u, *cs)) + (opsd['lap'](u, *cs), opsd['div'](*vs, *cs)) + tuple(opsd['curl'](*vs, *cs)) \
                + tuple(opsd['vlap'](*vs, *cs))
        sw, outs, st = tie_check(sc, seeds)
        stats[f'{prefix}_direct_fields'] = st
    direct('sph', ['r', 'th', 'ph'], [(0.3, 3.0), (0.2, 2.9), (0.0, 6.2)],
           dict(grad=ops.spherical_grad, lap=ops.spherical_laplacian, div=ops.spherical_div, curl=ops.spherical_curl,
                vlap=ops.spherical_vector_laplacian))
    direct('cyl', ['rho', 'ph', 'z'], [(0.3, 3.0), (0.0, 6.2), (-2.0, 2.0)],
           dict(grad=ops.cylindrical_grad, lap=ops.cylindrical_laplacian, div=ops.cylindrical_div, curl=ops.cylindrical_curl,
                vlap=ops.cylindrical_vector_laplacian))

    scalar_and_vector('sph', sph_coords, sph_vec,
                      dict(grad=ops.spherical_grad, lap=ops.spherical_laplacian, div=ops.spherical_div,
                           curl=ops.spherical_curl, vlap=ops.spherical_vector_laplacian),
                      XYZ, E, rv, hy, ('r', 't', 'p'))

    # ---------------- cylindrical -----------------------------------------------------------------
    rho, phc, z = ('var', 0), ('var', 1), ('var', 2)
    XYZc = (mul(rho, COS(phc)), mul(rho, SIN(phc)), z)
    Ec = dict(r=(COS(phc), SIN(phc), ('nat', 0)), p=(neg(SIN(phc)), COS(phc), ('nat', 0)),
              z=(('nat', 0), ('nat', 0), ('nat', 1)))

    def cyl_coords(w):
        import torch
        rho = w.coord('rho', 0.3, 3.0); ph = w.coord('ph', 0.0, 6.28); z = w.coord('z', -2.0, 2.0)
        return (rho, ph, z), (rho * torch.cos(ph), rho * torch.sin(ph), z)

    def cyl_vec(w):
        import torch
        (rho, ph, z), P = cyl_coords(w)
        f, gg, h = (w.fn(n)(*P) for n in 'fgh')
        ur = torch.cos(ph) * f + torch.sin(ph) * gg
        up = -torch.sin(ph) * f + torch.cos(ph) * gg
        return (ur, up, h), (rho, ph, z)

    # ---------------- coordinate conversions (definitions only; theorems are hand-written in Proofs/C09.lean) ----
    def conv(name, fn, names, ranges):
        def scen(w):
            cs = [w.coord(n, *rg) for n, rg in zip(names, ranges)]
            return tuple(fn(*cs))
        ctx, trees = trace(name, scen)
        return trees
    conv('s2c', ops.spherical_to_cartesian, ['r', 'th', 'ph'], [(0.3, 3.0), (0.2, 2.9), (0.0, 6.2)])
    conv('c2s', ops.cartesian_to_spherical, ['x', 'y', 'z'], [(-2.0, 2.0)] * 3)
    conv('cyl2c', ops.cylindrical_to_cartesian, ['rho', 'ph', 'z'], [(0.3, 3.0), (0.0, 6.2), (-2.0, 2.0)])
    conv('c2cyl', ops.cartesian_to_cylindrical, ['x', 'y', 'z'], [(-2.0, 2.0)] * 3)

    scalar_and_vector('cyl', cyl_coords, cyl_vec,
                      dict(grad=ops.cylindrical_grad, lap=ops.cylindrical_laplacian, div=ops.cylindrical_div,
                           curl=ops.cylindrical_curl, vlap=ops.cylindrical_vector_laplacian),
                      XYZc, Ec, ['rho', 'ph', 'z'], [('hr', 'rho ≠ 0')], ('r', 'p', 'z'))
    return g, stats


STATIC = [('NdeVerif.Proofs.C09', 'NdeVerif.C09', ['s2c_traced', 'c2s_traced', 'cyl2c_traced', 'c2cyl_traced', 's2c_c2s', 'c2s_s2c', 'c2s_ranges',
                                                   'cyl2c_c2cyl', 'c2cyl_cyl2c', 'c2cyl_ranges'])]

ASSUMPTIONS = [
    'theorems are over the reals, off the coordinate singularities (r != 0, sin(theta) != 0; rho != 0)',
    'a Cartesian field is an arbitrary smooth symbol composed with the coordinate map; curvilinear components are the '
    'local-frame projections of the Cartesian components',
]


def search(seed, tier):
    """random Cartesian fields: curvilinear operators of the real code vs rotated sympy Cartesian operators"""
    import random
    import numpy as np
    import sympy as sp
    import torch
    from neurodiffeq import operators as ops
    rng = random.Random(seed)
    found = []
    x, y, z = sp.symbols('x y z')
    mods = [{k: (lambda a, f=f: f(torch.as_tensor(a, dtype=torch.float64))) for k, f in
             (('sin', torch.sin), ('cos', torch.cos), ('exp', torch.exp))}]

    def rand_field():
        terms = []
        for _ in range(rng.randint(1, 3)):
            lin = sum(rng.randint(-2, 2) * v for v in (x, y, z)) + rng.randint(-1, 1)
            mono = sp.Mul(*[v ** rng.randint(0, 2) for v in (x, y, z)])
            terms.append(rng.choice([mono, sp.sin(lin) * mono, sp.exp(lin / 4), sp.cos(lin) + mono]) * rng.randint(-3, 3))
        return sum(terms) + x * 0

    def T(expr):
        f = sp.lambdify((x, y, z), expr, modules=mods)
        return lambda *ts: f(*ts) + 0 * ts[0]

    def N(expr, P):
        f = sp.lambdify((x, y, z), expr, 'numpy')
        return np.broadcast_to(np.asarray(f(*[p.detach().numpy() for p in P]), dtype=float), P[0].shape)

    def cmp(what, got, want, info):
        gnp = got.detach().numpy()
        if not np.allclose(gnp, want, rtol=1e-6, atol=1e-6 * (1 + np.abs(want).max())):
            found.append(dict(op=what, got=gnp.reshape(-1).tolist(), want=np.asarray(want).reshape(-1).tolist(), **info))

    lap = lambda e: sum(sp.diff(e, v, 2) for v in (x, y, z))
    for it in range(20 if tier == 'quick' else 200):
        n = 3
        f, gf, h = rand_field(), rand_field(), rand_field()
        # spherical
        r = torch.tensor([[rng.uniform(0.3, 3)] for _ in range(n)], requires_grad=True)
        th = torch.tensor([[rng.uniform(0.2, 2.94)] for _ in range(n)], requires_grad=True)
        ph = torch.tensor([[rng.uniform(0, 6.28)] for _ in range(n)], requires_grad=True)
        s, c = torch.sin, torch.cos
        P = (r * s(th) * c(ph), r * s(th) * s(ph), r * c(th))
        info = dict(fields=[str(f), str(gf), str(h)], r=r.reshape(-1).tolist(), theta=th.reshape(-1).tolist(), phi=ph.reshape(-1).tolist())
        sn, cn = np.sin, np.cos
        thn, phn = th.detach().numpy(), ph.detach().numpy()
        Er = (sn(thn) * cn(phn), sn(thn) * sn(phn), cn(thn))
        Et = (cn(thn) * cn(phn), cn(thn) * sn(phn), -sn(thn))
        Ep = (-sn(phn), cn(phn), 0 * phn)
        frame = (Er, Et, Ep)
        dotn = lambda e, v: sum(a * b for a, b in zip(e, v))
        gradf = [N(sp.diff(f, v), P) for v in (x, y, z)]
        for i, o in enumerate(ops.spherical_grad(T(f)(*P), r, th, ph)):
            cmp(f'spherical_grad[{i}]', o, dotn(frame[i], gradf), info)
        cmp('spherical_laplacian', ops.spherical_laplacian(T(f)(*P), r, th, ph), N(lap(f), P), info)

        def comps():
            Fv = [T(e)(*P) for e in (f, gf, h)]
            ur = s(th) * c(ph) * Fv[0] + s(th) * s(ph) * Fv[1] + c(th) * Fv[2]
            ut = c(th) * c(ph) * Fv[0] + c(th) * s(ph) * Fv[1] - s(th) * Fv[2]
            up = -s(ph) * Fv[0] + c(ph) * Fv[1]
            return ur, ut, up
        cmp('spherical_div', ops.spherical_div(*comps(), r, th, ph), N(sp.diff(f, x) + sp.diff(gf, y) + sp.diff(h, z), P), info)
        C = [N(e, P) for e in (sp.diff(h, y) - sp.diff(gf, z), sp.diff(f, z) - sp.diff(h, x), sp.diff(gf, x) - sp.diff(f, y))]
        for i, o in enumerate(ops.spherical_curl(*comps(), r, th, ph)):
            cmp(f'spherical_curl[{i}]', o, dotn(frame[i], C), info)
        L = [N(lap(e), P) for e in (f, gf, h)]
        for i, o in enumerate(ops.spherical_vector_laplacian(*comps(), r, th, ph)):
            cmp(f'spherical_vector_laplacian[{i}]', o, dotn(frame[i], L), info)
        # cylindrical
        rho = torch.tensor([[rng.uniform(0.3, 3)] for _ in range(n)], requires_grad=True)
        zz = torch.tensor([[rng.uniform(-2, 2)] for _ in range(n)], requires_grad=True)
        P = (rho * c(ph), rho * s(ph), zz)
        info = dict(fields=[str(f), str(gf), str(h)], rho=rho.reshape(-1).tolist(), phi=ph.reshape(-1).tolist(), z=zz.reshape(-1).tolist())
        Er = (cn(phn), sn(phn), 0 * phn); Ep = (-sn(phn), cn(phn), 0 * phn); Ez = (0 * phn, 0 * phn, 1 + 0 * phn)
        frame = (Er, Ep, Ez)
        gradf = [N(sp.diff(f, v), P) for v in (x, y, z)]
        for i, o in enumerate(ops.cylindrical_grad(T(f)(*P), rho, ph, zz)):
            cmp(f'cylindrical_grad[{i}]', o, dotn(frame[i], gradf), info)
        cmp('cylindrical_laplacian', ops.cylindrical_laplacian(T(f)(*P), rho, ph, zz), N(lap(f), P), info)

        def ccomps():
            Fv = [T(e)(*P) for e in (f, gf, h)]
            return c(ph) * Fv[0] + s(ph) * Fv[1], -s(ph) * Fv[0] + c(ph) * Fv[1], Fv[2]
        cmp('cylindrical_div', ops.cylindrical_div(*ccomps(), rho, ph, zz), N(sp.diff(f, x) + sp.diff(gf, y) + sp.diff(h, z), P), info)
        C = [N(e, P) for e in (sp.diff(h, y) - sp.diff(gf, z), sp.diff(f, z) - sp.diff(h, x), sp.diff(gf, x) - sp.diff(f, y))]
        for i, o in enumerate(ops.cylindrical_curl(*ccomps(), rho, ph, zz)):
            cmp(f'cylindrical_curl[{i}]', o, dotn(frame[i], C), info)
        L = [N(lap(e), P) for e in (f, gf, h)]
        for i, o in enumerate(ops.cylindrical_vector_laplacian(*ccomps(), rho, ph, zz)):
            cmp(f'cylindrical_vector_laplacian[{i}]', o, dotn(frame[i], L), info)
        # fields given directly in curvilinear coordinates (incl. affine in a coordinate): textbook formulas via sympy
        R, TH, PH, ZZ = sp.symbols('r th ph zz', positive=True)
        try:
            a1, a2, a3, a4 = (rng.randint(-3, 3) for _ in range(4))
            for usym in (a1 * R + a2, a1 * R + sp.sin(TH) * sp.cos(PH), a1 * R ** 2 * sp.cos(TH) + a3 * PH, a2 * TH + a3):
                fu = sp.lambdify((R, TH, PH), usym, modules=mods)
                U = lambda: fu(r, th, ph) + 0 * r
                want = [sp.diff(usym, R), sp.diff(usym, TH) / R, sp.diff(usym, PH) / (R * sp.sin(TH))]
                ev = lambda e: np.broadcast_to(np.asarray(sp.lambdify((R, TH, PH), e, 'numpy')(r.detach().numpy(), thn.reshape(-1, 1), phn.reshape(-1, 1)), dtype=float), (n, 1))
                for i, o in enumerate(ops.spherical_grad(U(), r, th, ph)):
                    cmp(f'spherical_grad[{i}] of the curvilinear field {usym}', o, ev(want[i]), info)
                lapw = sp.diff(R ** 2 * sp.diff(usym, R), R) / R ** 2 + sp.diff(sp.sin(TH) * sp.diff(usym, TH), TH) / (R ** 2 * sp.sin(TH)) \
                    + sp.diff(usym, PH, 2) / (R ** 2 * sp.sin(TH) ** 2)
                cmp(f'spherical_laplacian of the curvilinear field {usym}', ops.spherical_laplacian(U(), r, th, ph), ev(lapw), info)
            for usym in (a1 * ZZ + a2, a1 * R + a2 * ZZ, a3 * PH + R * ZZ):
                fu = sp.lambdify((R, PH, ZZ), usym, modules=mods)
                U = lambda: fu(rho, ph, zz) + 0 * rho
                ev = lambda e: np.broadcast_to(np.asarray(sp.lambdify((R, PH, ZZ), e, 'numpy')(rho.detach().numpy(), phn.reshape(-1, 1), zz.detach().numpy()), dtype=float), (n, 1))
                want = [sp.diff(usym, R), sp.diff(usym, PH) / R, sp.diff(usym, ZZ)]
                for i, o in enumerate(ops.cylindrical_grad(U(), rho, ph, zz)):
                    cmp(f'cylindrical_grad[{i}] of the curvilinear field {usym}', o, ev(want[i]), info)
                lapw = sp.diff(usym, R, 2) + sp.diff(usym, R) / R + sp.diff(usym, PH, 2) / R ** 2 + sp.diff(usym, ZZ, 2)
                cmp(f'cylindrical_laplacian of the curvilinear field {usym}', ops.cylindrical_laplacian(U(), rho, ph, zz), ev(lapw), info)
        except Exception as e:
            found.append(dict(error=f'{type(e).__name__}: {e}', where='curvilinear fields'))
        # conversion helpers: mutual inverses and ranges
        try:
            import math
            x_, y_, z_ = (torch.tensor([[rng.uniform(-2, 2)] for _ in range(n)]) for _ in range(3))
            rr, tt, pp = ops.cartesian_to_spherical(x_, y_, z_)
            back = ops.spherical_to_cartesian(rr, tt, pp)
            for nm, a_, b_ in zip('xyz', back, (x_, y_, z_)):
                cmp(f'spherical_to_cartesian(cartesian_to_spherical(p)).{nm}', a_, b_.numpy(), dict(p=[x_.tolist(), y_.tolist(), z_.tolist()]))
            if not (bool((tt >= 0).all()) and bool((tt <= math.pi).all()) and bool((pp > -math.pi - 1e-12).all()) and bool((pp <= math.pi).all())):
                found.append(dict(op='cartesian_to_spherical ranges', theta=tt.tolist(), phi=pp.tolist()))
            r2 = torch.tensor([[rng.uniform(0.3, 3)] for _ in range(n)]); t2 = torch.tensor([[rng.uniform(0.2, 2.94)] for _ in range(n)])
            p2 = torch.tensor([[rng.uniform(-3.1, 3.1)] for _ in range(n)])
            for nm, a_, b_ in zip(('r', 'theta', 'phi'), ops.cartesian_to_spherical(*ops.spherical_to_cartesian(r2, t2, p2)), (r2, t2, p2)):
                cmp(f'cartesian_to_spherical(spherical_to_cartesian(q)).{nm}', a_, b_.numpy(), dict(q=[r2.tolist(), t2.tolist(), p2.tolist()]))
            cr, cp_, cz = ops.cartesian_to_cylindrical(x_, y_, z_)
            for nm, a_, b_ in zip('xyz', ops.cylindrical_to_cartesian(cr, cp_, cz), (x_, y_, z_)):
                cmp(f'cylindrical_to_cartesian(cartesian_to_cylindrical(p)).{nm}', a_, b_.numpy(), dict(p=[x_.tolist(), y_.tolist(), z_.tolist()]))
            for nm, a_, b_ in zip(('rho', 'phi', 'z'), ops.cartesian_to_cylindrical(*ops.cylindrical_to_cartesian(r2, p2, z_)), (r2, p2, z_)):
                cmp(f'cartesian_to_cylindrical(cylindrical_to_cartesian(q)).{nm}', a_, b_.numpy(), dict(q=[r2.tolist(), p2.tolist(), z_.tolist()]))
        except Exception as e:
            found.append(dict(error=f'{type(e).__name__}: {e}', where='conversion helpers'))
        if len(found) >= 3:
            break
    return found


def runtime_checks():
    """exact observations at special points, every run: batches in which every row has the same special angle, points close to
    (but off) the coordinate singularity, points on the negative x-axis for the conversions"""
    import math
    import torch
    from neurodiffeq import operators as ops
    bad = []
    col = lambda *v: torch.tensor([[float(a)] for a in v], requires_grad=True)

    def cmp(case, name, got, want, rtol=1e-9):
        g, w = got.detach().reshape(-1), torch.as_tensor(want, dtype=torch.float64).reshape(-1)
        if g.shape != w.shape or not torch.allclose(g, w, rtol=rtol, atol=rtol * float(1e-300 + w.abs().max())):
            bad.append(dict(case=case, quantity=name, got=g.tolist(), want=w.tolist()))
    try:
        # u = x^2 - y^2 = r^2 sin^2(theta) cos(2 phi) is harmonic; every row at phi = 0 (where du/dphi vanishes in all rows)
        for ph0 in (0.0, math.pi / 2, math.pi):
            r, th, ph = col(1.0, 2.0, 0.5), col(0.7, 1.2, 2.0), col(ph0, ph0, ph0)
            u = r ** 2 * torch.sin(th) ** 2 * torch.cos(2 * ph)
            g, w = ops.spherical_laplacian(u, r, th, ph).detach().reshape(-1), torch.zeros(3)
            if not torch.allclose(g, w, rtol=0, atol=1e-9):
                bad.append(dict(case=f'every row at phi = {ph0}', quantity='spherical_laplacian of the harmonic x^2 - y^2', got=g.tolist(), want=[0, 0, 0]))
            rho, phc, z = col(1.0, 2.0, 0.5), col(ph0, ph0, ph0), col(0.3, -0.4, 1.0)
            uc = rho ** 2 * torch.cos(2 * phc) + 0 * z
            g = ops.cylindrical_laplacian(uc, rho, phc, z).detach().reshape(-1)
            if not torch.allclose(g, w, rtol=0, atol=1e-9):
                bad.append(dict(case=f'every row at phi = {ph0}', quantity='cylindrical_laplacian of the harmonic x^2 - y^2', got=g.tolist(), want=[0, 0, 0]))
            # vector field e_phi * rho (rigid rotation): curl = 2 e_z, div = 0, at every azimuth
            cr = ops.cylindrical_curl(rho * 0, rho + 0 * phc, z * 0, rho, phc, z)
            cmp(f'every row at phi = {ph0}', 'cylindrical_curl of the rigid rotation, z-component', cr[2], [2.0, 2.0, 2.0])
        # small radii (off the singularity): u = r^2 cos(theta) = r z;  grad u = (2 r cos, -r sin, 0);  laplacian = 4 cos(theta)
        r, th, ph = col(1e-3, 1e-5, 1e-7), col(0.7, 1.2, 2.0), col(0.4, 1.0, 5.0)
        u = r ** 2 * torch.cos(th) + 0 * ph
        gr = ops.spherical_grad(u, r, th, ph)
        cmp('small radius', 'spherical_grad[r]', gr[0], (2 * r * torch.cos(th)).detach())
        cmp('small radius', 'spherical_grad[theta]', gr[1], (-r * torch.sin(th)).detach())
        cmp('small radius', 'spherical_laplacian', ops.spherical_laplacian(u, r, th, ph), (4 * torch.cos(th)).detach(), rtol=1e-7)
        # e_phi-directed field u_phi = r sin(theta) (rigid rotation about z): curl = 2 e_z = (2 cos(theta), -2 sin(theta), 0)
        cu = ops.spherical_curl(r * 0, r * 0, r * torch.sin(th) + 0 * ph, r, th, ph)
        cmp('small radius', 'spherical_curl[r] of the rigid rotation', cu[0], (2 * torch.cos(th)).detach(), rtol=1e-7)
        cmp('small radius', 'spherical_curl[theta] of the rigid rotation', cu[1], (-2 * torch.sin(th)).detach(), rtol=1e-7)
        rho, phc, z = col(1e-3, 1e-5, 1e-7), col(0.4, 1.0, 5.0), col(0.3, -0.4, 1.0)
        gc = ops.cylindrical_grad(rho ** 2 * torch.sin(phc) + z, rho, phc, z)
        cmp('small radius', 'cylindrical_grad[phi]', gc[1], (rho * torch.cos(phc)).detach())
        # conversions on the negative x-axis (y = 0 exactly) and other axis points
        x, y, z = torch.tensor([[-2.0], [-0.5], [3.0], [0.0]]), torch.tensor([[0.0], [0.0], [0.0], [1.5]]), torch.tensor([[1.0], [0.0], [-2.0], [0.0]])
        rh, phc, zc = ops.cartesian_to_cylindrical(x, y, z)
        cmp('axis points', 'cartesian_to_cylindrical phi', phc, [math.pi, math.pi, 0.0, math.pi / 2], rtol=1e-15)
        cmp('axis points', 'cartesian_to_cylindrical rho', rh, [2.0, 0.5, 3.0, 1.5], rtol=1e-15)
        rs, ths, phs = ops.cartesian_to_spherical(x, y, z)
        cmp('axis points', 'cartesian_to_spherical phi', phs, [math.pi, math.pi, 0.0, math.pi / 2], rtol=1e-15)
        cmp('axis points', 'cartesian_to_spherical theta', ths, [math.atan2(2.0, 1.0), math.pi / 2, math.atan2(3.0, -2.0), math.pi / 2], rtol=1e-15)
        for nm, fwd, back in (('cylindrical', ops.cartesian_to_cylindrical, ops.cylindrical_to_cartesian), ('spherical', ops.cartesian_to_spherical, ops.spherical_to_cartesian)):
            xb, yb, zb = back(*fwd(x, y, z))
            for cn, a, b in (('x', xb, x), ('y', yb, y), ('z', zb, z)):
                if not torch.allclose(a, b, rtol=0, atol=1e-12):
                    bad.append(dict(case='axis points', quantity=f'{nm} round trip, {cn}', got=a.reshape(-1).tolist(), want=b.reshape(-1).tolist()))
        # "follow the documented ranges": where an angle is not defined (origin, polar axis) the documented default is 0, and radii are exact
        x, y, z = torch.tensor([[0.0], [0.0], [0.0]]), torch.tensor([[0.0], [0.0], [0.0]]), torch.tensor([[0.0], [2.5], [-1.5]])
        for dt in (torch.float64, torch.float32):
            rs, ths, phs = ops.cartesian_to_spherical(x.to(dt), y.to(dt), z.to(dt))
            rh, phc, zc = ops.cartesian_to_cylindrical(x.to(dt), y.to(dt), z.to(dt))
            for nm, got, want in (('cartesian_to_spherical r', rs, [0.0, 2.5, 1.5]), ('cartesian_to_spherical theta', ths, [0.0, 0.0, math.pi]),
                                  ('cartesian_to_spherical phi', phs, [0.0, 0.0, 0.0]), ('cartesian_to_cylindrical rho', rh, [0.0, 0.0, 0.0]),
                                  ('cartesian_to_cylindrical phi', phc, [0.0, 0.0, 0.0])):
                g = got.detach().double().reshape(-1).tolist()
                if any(abs(a - b) > (1e-6 if (dt == torch.float32 and b != 0.0) else 0.0) for a, b in zip(g, want)):
                    bad.append(dict(case='origin and points on the polar axis (angles not defined: documented default 0)', quantity=nm, dtype=str(dt), got=g, want=want))
        # tensors that were first seen by the library in another autograd state (under no_grad, or before requires_grad_ was set)
        r = torch.tensor([[1.1], [2.0], [0.6]]); th = torch.tensor([[0.7], [1.2], [2.0]]); ph = torch.tensor([[0.4], [1.0], [5.0]])
        with torch.no_grad():
            ops.spherical_to_cartesian(r, th, ph)
            ops.cylindrical_to_cartesian(r, ph, th)
            ops.spherical_laplacian(r * 1.0, r, th, ph) if False else None
        for t_ in (r, th, ph):
            t_.requires_grad_(True)
        u = r ** 2 * torch.sin(th) ** 2 * torch.cos(2 * ph)                # x^2 - y^2: harmonic
        lap = ops.spherical_laplacian(u, r, th, ph).detach().reshape(-1)
        if not torch.allclose(lap, torch.zeros(3), rtol=0, atol=1e-9):
            bad.append(dict(case='coordinate tensors first used under torch.no_grad(), then with requires_grad', quantity='spherical_laplacian of x^2 - y^2',
                            got=lap.tolist(), want=[0, 0, 0]))
        dv = ops.spherical_div(r + 0 * th, 0 * r, 0 * r, r, th, ph).detach().reshape(-1)        # position vector field r e_r: divergence 3
        if not torch.allclose(dv, torch.full((3,), 3.0), rtol=0, atol=1e-9):
            bad.append(dict(case='coordinate tensors first used under torch.no_grad(), then with requires_grad', quantity='spherical_div of r e_r',
                            got=dv.tolist(), want=[3, 3, 3]))
        # a coordinate column used directly as the field (u = r, u = z, the position field, rigid rotation u_phi = rho)
        r, th, ph = col(1.1, 2.0, 0.6), col(0.7, 1.2, 2.0), col(0.4, 1.0, 5.0)
        cmp('field is a coordinate column', 'spherical_grad(r)[0]', ops.spherical_grad(r, r, th, ph)[0], [1.0, 1.0, 1.0])
        cmp('field is a coordinate column', 'spherical_laplacian(r)', ops.spherical_laplacian(r, r, th, ph), (2 / r).detach())
        cmp('field is a coordinate column', 'spherical_div(r, 0, 0)', ops.spherical_div(r, 0 * r, 0 * r, r, th, ph), [3.0, 3.0, 3.0])
        rho, phc, z = col(1.0, 2.0, 0.5), col(0.4, 1.0, 5.0), col(0.3, -0.4, 1.0)
        cmp('field is a coordinate column', 'cylindrical_div(rho, 0, z)', ops.cylindrical_div(rho, 0 * rho, z, rho, phc, z), [3.0, 3.0, 3.0])
        cmp('field is a coordinate column', 'cylindrical_curl(0, rho, 0)[2]', ops.cylindrical_curl(0 * rho, rho, 0 * rho, rho, phc, z)[2], [2.0, 2.0, 2.0])
        cmp('field is a coordinate column', 'cylindrical_grad(z)[2]', ops.cylindrical_grad(z, rho, phc, z)[2], [1.0, 1.0, 1.0])
        # keyword calls in any order name the same arguments as the positional call
        import inspect
        import itertools
        r, th, ph = col(1.1, 2.0, 0.6), col(0.7, 1.2, 2.0), col(0.4, 1.0, 5.0)
        fld = lambda: (r ** 2 * torch.sin(th) * torch.cos(ph), r * torch.cos(th) + ph, torch.sin(r) * th)
        for opname in ('spherical_grad', 'spherical_div', 'spherical_curl', 'spherical_laplacian', 'spherical_vector_laplacian',
                       'cylindrical_grad', 'cylindrical_div', 'cylindrical_curl', 'cylindrical_laplacian', 'cylindrical_vector_laplacian'):
            op = getattr(ops, opname)
            names = list(inspect.signature(op).parameters)
            nf = len(names) - 3
            args = list(fld()[:nf]) + [r, th, ph]
            ref = op(*args)
            ref = [ref] if torch.is_tensor(ref) else list(ref)
            for perm in list(itertools.permutations(range(len(names))))[1::7][:6]:
                kw = {names[i]: args[i] for i in perm}
                got = op(**kw)
                got = [got] if torch.is_tensor(got) else list(got)
                if any(not torch.allclose(a.detach(), b.detach(), rtol=0, atol=1e-12) for a, b in zip(got, ref)):
                    bad.append(dict(case='keyword call', operator=opname, keyword_order=[names[i] for i in perm],
                                    violated='differs from the positional call with the same arguments'))
                    break
        # compositions stay exact: lap(lap u) and div(grad(lap u)) of u = x^2 y^2 z + x^4 agree with the Cartesian operators
        cart = lambda x, y, z: x ** 2 * y ** 2 * z + x ** 4
        x, y, z = col(0.7, -1.1, 0.4), col(0.5, 0.9, -1.3), col(1.2, -0.6, 0.8)
        U = cart(x, y, z)
        want = ops.laplacian(ops.laplacian(U, x, y, z), x, y, z).detach()
        rs, ths, phs = [t.detach().clone().requires_grad_(True) for t in ops.cartesian_to_spherical(x.detach(), y.detach(), z.detach())]
        us = cart(*ops.spherical_to_cartesian(rs, ths, phs))
        ls = ops.spherical_laplacian(us, rs, ths, phs)
        cmp('composition', 'spherical_laplacian(spherical_laplacian u)', ops.spherical_laplacian(ls, rs, ths, phs), want, rtol=1e-8)
        cmp('composition', 'spherical_div(spherical_grad(spherical_laplacian u))', ops.spherical_div(*ops.spherical_grad(ls, rs, ths, phs), rs, ths, phs), want, rtol=1e-8)
        rc, pc, zc = [t.detach().clone().requires_grad_(True) for t in ops.cartesian_to_cylindrical(x.detach(), y.detach(), z.detach())]
        uc = cart(*ops.cylindrical_to_cartesian(rc, pc, zc))
        lc = ops.cylindrical_laplacian(uc, rc, pc, zc)
        cmp('composition', 'cylindrical_laplacian(cylindrical_laplacian u)', ops.cylindrical_laplacian(lc, rc, pc, zc), want, rtol=1e-8)
        cmp('composition', 'cylindrical_div(cylindrical_grad(cylindrical_laplacian u))', ops.cylindrical_div(*ops.cylindrical_grad(lc, rc, pc, zc), rc, pc, zc), want, rtol=1e-8)
        vl = ops.cylindrical_vector_laplacian(*ops.cylindrical_vector_laplacian(*ops.cylindrical_grad(uc, rc, pc, zc), rc, pc, zc), rc, pc, zc)
        gl = ops.cylindrical_grad(ops.cylindrical_laplacian(lc, rc, pc, zc), rc, pc, zc)      # Δ_vec Δ_vec ∇u = ∇ ΔΔu
        for k_, (a, b) in enumerate(zip(vl, gl)):
            if not torch.allclose(a.detach(), b.detach(), rtol=1e-7, atol=1e-9):
                bad.append(dict(case='composition', quantity=f'cylindrical_vector_laplacian^2(grad u)[{k_}] = grad(lap lap u)[{k_}]',
                                got=a.detach().reshape(-1).tolist(), want=b.detach().reshape(-1).tolist()))
    except Exception as e:
        bad.append(dict(case='special-point observations', error=f'{type(e).__name__}: {e}'))
    return bad


def check(tier, seed):
    from ..calcprop import check_calc
    return check_calc(sys.modules[__name__], tier, seed)
