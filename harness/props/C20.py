"""C20 — legacy space-time API (neurodiffeq.temporal): exact initial state, on-domain samplers on every draw,
mini-batches partition the training set, one history entry per epoch and series.

Two engines in one check:
  A (translator): the real `SingleNetworkApproximator{1D,2D}SpatialTemporal.__call__` are traced on symbolic tensors,
     the traces are emitted to lean/NdeVerif/Gen/C20.lean with the theorems u(x,0)=u0(x) (and u_t(x,y,0)=v0(x,y)).
  B (model): lean/NdeVerif/Model/Temporal.lean + lean/NdeVerif/Proofs/C20.lean; correspondence with the real samplers
     (recorded torch.rand draws, every draw index compared, generator frames compared after the last draw), the real
     `_train_*` routines (spied calculate_loss, recorded torch.randperm) and the real `_solve_*` (history lengths).
"""
import contextlib
import os
import random
import sys
import time
import traceback

import numpy as np

from ..runner import Report, kernel_phase, run_driver, split_blocks, known_findings, LEAN, ROOT
from ..world import tie_check
from ..leangen import GenFile
from ..sym import Untranslatable

PID = 'C20'
THEOREMS = ['linspace_mid', 'run1d_eq_map', 'sampler1d_point_form', 'sampler1d_in_stratum', 'sampler1d_in_stratum_reversed',
            'runT_eq', 'samplerT_in_stratum', 'samplerT_in_stratum_reversed',
            'runSeg_eq_map', 'segment_in_stratum', 'cartesian_getElem', 'runRect_eq_map', 'rectangle_in_strata',
            'batchLoop_flatten', 'minibatch_partition', 'minibatch_sizes', 'minibatch_each_point_once', 'train_epoch_once',
            'happend_fold', 'solveLoop_eq', 'initHistory_spec', 'history_one_per_epoch', 'history_metric_named_loss']
KNOWN_KEY_SIZE1 = 'train/size-1-squeeze-0d'
ZERO = '(0:ℝ)'

ASSUMPTIONS = [
    'theorems are over the reals: floating-point rounding is not modelled (the Python predicate allows 1e-12 relative slack at stratum edges)',
    'a network / initial datum is an arbitrary function symbol; the derivative statement assumes it is differentiable (Smooth I)',
    'torch.rand returns numbers in [0, 1) (hypothesis UnitDraw of the sampler theorems; observed on every recorded draw)',
    'torch.randperm(n) returns a permutation of 0..n-1 (hypothesis of minibatch_each_point_once; observed on every recorded permutation)',
    'torch.linspace / cartesian_prod / slicing behave as modelled (trusted torch; compared on every run)',
    'history_one_per_epoch assumes pairwise distinct series names, i.e. no metric is itself called "loss" (the collision is outside the '
    'property quantifier; theorem history_metric_named_loss shows what the code does then: two entries per epoch)',
    'the 1-D approximator is covered with a first-order initial condition (it never reads u0dot); the 2-D approximator with both orders',
    f'the real _train_* routines are exercised for training-set sizes >= 2: size 1 raises TypeError (known finding {KNOWN_KEY_SIZE1}); '
    'the mini-batch theorems hold for every n including 0 and 1 (they are about the loop)',
]


# =====================================================================================================================
# Engine A: approximators
# =====================================================================================================================

def scenarios():
    from neurodiffeq import temporal as T
    S = {}

    def approx1d(w):
        x = w.coord('x'); t = w.coord('t')
        ap = T.SingleNetworkApproximator1DSpatialTemporal(w.net('N', 2), None, T.FirstOrderInitialCondition(u0=w.fn('u0')), [])
        return ap(x.reshape(-1), t.reshape(-1))
    S['approx1d'] = approx1d

    def approx2d(w):
        x = w.coord('x'); y = w.coord('y'); t = w.coord('t')
        ap = T.SingleNetworkApproximator2DSpatialTemporal(w.net('N', 3), None, T.FirstOrderInitialCondition(u0=w.fn('u0')), [])
        return ap(x.reshape(-1), y.reshape(-1), t.reshape(-1))
    S['approx2d'] = approx2d

    def approx2d_second(w):
        x = w.coord('x'); y = w.coord('y'); t = w.coord('t')
        ic = T.SecondOrderInitialCondition(u0=w.fn('u0'), u0dot=w.fn('v0'))
        ap = T.SingleNetworkApproximator2DSpatialTemporal(w.net('N', 3), None, ic, [])
        return ap(x.reshape(-1), y.reshape(-1), t.reshape(-1))
    S['approx2d_second'] = approx2d_second
    return S


def generate(seeds=(1, 2, 3), tier='quick'):
    g = GenFile(PID)
    stats, trees, ctxs, fnodes = {}, {}, {}, {}
    for name, scen in scenarios().items():
        sw, outs, st = tie_check(scen, seeds)
        stats[name] = st
        trees[name] = sw.tree(outs[0])
        ctxs[name] = sw.ctx
        fnodes[name] = outs[0].cols[0]
        g.add_def(name, trees[name], f'traced from /repo: scenario {name}; variables {sw.ctx.vars}; symbols {sw.ctx.syms}')
    # operation-order model: the initial state is reproduced EXACTLY at t = 0 in every arithmetic with the IEEE-754 identities
    from .. import fex as FX
    FX.exact_part(g, PID, fnodes, ctxs, [
        ('approx1d_initial_exact', 'approx1d', [('t', 0)], FX.app_of('u0', 'x'), 'SingleNetworkApproximator1DSpatialTemporal: u(x, 0) is exactly u0(x)'),
        ('approx2d_initial_exact', 'approx2d', [('t', 0)], FX.app_of('u0', 'x', 'y'), 'SingleNetworkApproximator2DSpatialTemporal, first-order IC: u(x, y, 0) is exactly u0(x, y)'),
        ('approx2d_second_initial_exact', 'approx2d_second', [('t', 0)], FX.app_of('u0', 'x', 'y'),
         'SingleNetworkApproximator2DSpatialTemporal, second-order IC: u(x, y, 0) is exactly u0(x, y)')])

    def fn(name, s, vs):
        c = ctxs[name]
        return ('app', c.syms.index(s), (0,) * len(vs), tuple(('var', c.vars.index(v)) for v in vs))

    n = 'approx1d'
    assert ctxs[n].vars == ['x', 't'], ctxs[n].vars
    g.thm_eq('approx1d_initial', ['x'], ['x', ZERO], n, trees[n], fn(n, 'u0', ['x']),
             what='SingleNetworkApproximator1DSpatialTemporal: u(x, 0) = u0(x) for every network')
    n = 'approx2d'
    assert ctxs[n].vars == ['x', 'y', 't'], ctxs[n].vars
    g.thm_eq('approx2d_initial', ['x', 'y'], ['x', 'y', ZERO], n, trees[n], fn(n, 'u0', ['x', 'y']),
             what='SingleNetworkApproximator2DSpatialTemporal, first-order IC: u(x, y, 0) = u0(x, y) for every network')
    n = 'approx2d_second'
    assert ctxs[n].vars == ['x', 'y', 't'], ctxs[n].vars
    g.thm_eq('approx2d_second_initial', ['x', 'y'], ['x', 'y', ZERO], n, trees[n], fn(n, 'u0', ['x', 'y']),
             what='SingleNetworkApproximator2DSpatialTemporal, second-order IC: u(x, y, 0) = u0(x, y) for every network')
    g.thm_deriv('approx2d_second_initial_deriv', ['x', 'y'], ['x', 'y', ZERO], 2, 't', n, trees[n], fn(n, 'v0', ['x', 'y']),
                what='second-order IC: d/dt u(x, y, t) at t = 0 equals u0dot(x, y) for every smooth network')
    return g, stats


def search_approx(seed, tier):
    """the initial-state clause evaluated numerically on the real approximators (failing-input search)"""
    import torch
    from neurodiffeq import temporal as T
    from neurodiffeq.networks import FCNN
    rng = random.Random(seed)
    found, n_eval = [], 0
    for it in range(25 if tier == 'quick' else 200):
        torch.manual_seed(rng.randrange(1 << 30))
        a, b, c = (rng.uniform(-3, 3) for _ in range(3))
        rows = rng.choice([2, 5, 9])
        xx = torch.tensor([rng.uniform(-4, 4) for _ in range(rows)])
        yy = torch.tensor([rng.uniform(-4, 4) for _ in range(rows)])
        t0 = torch.zeros(rows, requires_grad=True)
        u0_1 = lambda x: torch.sin(a * x) + b
        u0_2 = lambda x, y: torch.sin(a * x) * torch.cos(b * y) + c
        v0_2 = lambda x, y: a * x - torch.tanh(c * y) + b
        hidden = rng.choice([(4,), (8, 8), (3, 5, 2)])
        cases = [
            ('approx1d', T.SingleNetworkApproximator1DSpatialTemporal(FCNN(2, 1, hidden_units=hidden), None, T.FirstOrderInitialCondition(u0_1), []),
             (xx, t0), u0_1(xx), None),
            ('approx2d', T.SingleNetworkApproximator2DSpatialTemporal(FCNN(3, 1, hidden_units=hidden), None, T.FirstOrderInitialCondition(u0_2), []),
             (xx, yy, t0), u0_2(xx, yy), None),
            ('approx2d_second', T.SingleNetworkApproximator2DSpatialTemporal(FCNN(3, 1, hidden_units=hidden), None,
                                                                           T.SecondOrderInitialCondition(u0_2, v0_2), []),
             (xx, yy, t0), u0_2(xx, yy), v0_2(xx, yy)),
        ]
        # the initial state is exact "for every network": also one whose raw output is huge (an untrained or diverged network)
        class Scaled(torch.nn.Module):
            def __init__(self, base, k):
                super().__init__()
                self.base, self.k = base, k

            def forward(self, x):
                return self.base(x) * self.k
        big = rng.choice([1e6, 1e9, 1e12])
        cases += [
            ('approx1d/huge-network-output', T.SingleNetworkApproximator1DSpatialTemporal(Scaled(FCNN(2, 1, hidden_units=hidden), big), None,
                                                                                           T.FirstOrderInitialCondition(u0_1), []), (xx, t0), u0_1(xx), None),
            ('approx2d_second/huge-network-output', T.SingleNetworkApproximator2DSpatialTemporal(Scaled(FCNN(3, 1, hidden_units=hidden), big), None,
                                                                                                 T.SecondOrderInitialCondition(u0_2, v0_2), []),
             (xx, yy, t0), u0_2(xx, yy), v0_2(xx, yy)),
        ]
        # "... for every network": also one that standardises / rescales its input tensor IN PLACE before its dense layers
        class Standardising(torch.nn.Module):
            def __init__(self, base, shift):
                super().__init__()
                self.base, self.shift = base, shift

            def forward(self, inputs):
                inputs -= self.shift
                inputs *= 0.5
                return self.base(inputs)
        sh = rng.uniform(0.5, 2.0)
        cases += [
            ('approx1d/network-preprocessing-its-input-in-place', T.SingleNetworkApproximator1DSpatialTemporal(
                Standardising(FCNN(2, 1, hidden_units=hidden), sh), None, T.FirstOrderInitialCondition(u0_1), []), (xx, t0), u0_1(xx), None),
            ('approx2d/network-preprocessing-its-input-in-place', T.SingleNetworkApproximator2DSpatialTemporal(
                Standardising(FCNN(3, 1, hidden_units=hidden), sh), None, T.FirstOrderInitialCondition(u0_2), []), (xx, yy, t0), u0_2(xx, yy), None),
            ('approx2d_second/network-preprocessing-its-input-in-place', T.SingleNetworkApproximator2DSpatialTemporal(
                Standardising(FCNN(3, 1, hidden_units=hidden), sh), None, T.SecondOrderInitialCondition(u0_2, v0_2), []),
             (xx, yy, t0), u0_2(xx, yy), v0_2(xx, yy)),
        ]
        # the initial condition is an attribute of the approximator / a field of the condition object: what is prescribed NOW is what counts
        u0_new = lambda x: torch.cos(b * x) - a
        u0_new2 = lambda x, y: torch.cos(b * x) * y - a
        ic1, ic2 = T.FirstOrderInitialCondition(u0_1), T.FirstOrderInitialCondition(u0_2)
        ap1 = T.SingleNetworkApproximator1DSpatialTemporal(FCNN(2, 1, hidden_units=hidden), None, ic1, [])
        ap2 = T.SingleNetworkApproximator2DSpatialTemporal(FCNN(3, 1, hidden_units=hidden), None, ic2, [])
        ap1(xx, t0), ap2(xx, yy, t0)
        ic1.u0 = u0_new
        ap2.u0 = u0_new2
        ic2.u0 = u0_new2
        cases += [('approx1d/u0 of the condition object replaced after construction', ap1, (xx, t0), u0_new(xx), None),
                  ('approx2d/u0 replaced after construction', ap2, (xx, yy, t0), u0_new2(xx, yy), None)]
        # an initial profile that is a stored table (u0 hands back the same tensor object on every call): evaluating the approximator at t != 0
        # leaves the table alone, and t = 0 still returns it
        tab = torch.sin(a * xx) + b
        tab_keep = tab.clone()
        apt = T.SingleNetworkApproximator1DSpatialTemporal(FCNN(2, 1, hidden_units=hidden), None, T.FirstOrderInitialCondition(lambda x: tab), [])
        with torch.no_grad():
            apt(xx, torch.full_like(xx, 0.7))
        if not torch.equal(tab, tab_keep):
            found.append(dict(kind='approximator', case='approx1d/u0 returns a stored table', violated='the table was modified by an evaluation at t = 0.7',
                              max_change=float((tab - tab_keep).abs().max())))
        cases.append(('approx1d/u0 returns a stored table, evaluated at t = 0.7 before', apt, (xx, t0), tab_keep, None))
        for name, ap, args, want, wantdot in cases:
            n_eval += 1
            try:
                u = ap(*args)
                err = float((u - want).abs().max())
                bad = not err <= 1e-9 * (1 + float(want.abs().max()))
                derr = None
                if wantdot is not None:
                    du, = torch.autograd.grad(u, t0, torch.ones_like(u), create_graph=False)
                    derr = float((du - wantdot).abs().max())
                    bad = bad or not derr <= 1e-9 * (1 + float(wantdot.abs().max()))
                if bad:
                    found.append(dict(kind='approximator', case=name, hidden=list(hidden), a=a, b=b, c=c, x=xx.tolist(), y=yy.tolist(),
                                      value_error=err, derivative_error=derr))
            except Exception as e:
                found.append(dict(kind='approximator', case=name, error=f'{type(e).__name__}: {e}'))
        if len(found) >= 3:
            break
    return found, n_eval


# =====================================================================================================================
# Engine B: samplers
# =====================================================================================================================

def bits(vals):
    return ' '.join(map(str, np.asarray(vals, dtype=np.float64).reshape(-1).view(np.uint64).tolist()))


def unbits(tokens):
    return np.array([int(t) for t in tokens], dtype=np.uint64).view(np.float64)


@contextlib.contextmanager
def record_torch(name, log):
    """wrap torch.<name> (rand / randperm) so that every result is appended to `log`"""
    import torch
    orig = getattr(torch, name)

    def wrapped(*a, **k):
        r = orig(*a, **k)
        log.append(r.detach().reshape(-1).tolist())
        return r
    setattr(torch, name, wrapped)
    try:
        yield
    finally:
        setattr(torch, name, orig)


def make_sampler(cfg):
    from neurodiffeq import temporal as T
    k = cfg['kind']
    if k == 'gen1d':
        return T.generator_1dspatial(cfg['size'], cfg['lo'], cfg['hi'], random=cfg['random'])
    if k == 'gent':
        return T.generator_temporal(cfg['size'], cfg['lo'], cfg['hi'], random=cfg['random'])
    if k == 'seg':
        return T.generator_2dspatial_segment(cfg['size'], tuple(cfg['start']), tuple(cfg['end']), random=cfg['random'])
    if k == 'rect':
        return T.generator_2dspatial_rectangle(tuple(cfg['size']), cfg['xlo'], cfg['xhi'], cfg['ylo'], cfg['yhi'], random=cfg['random'])
    raise ValueError(k)


def frame_of(cfg, g):
    """the generator object's frame (its state between two next() calls), canonicalised"""
    fl = g.gi_frame.f_locals
    fix = lambda t: [] if t is None else np.asarray(t.detach().reshape(-1).tolist(), dtype=np.float64)
    if cfg['kind'] == 'rect':
        fx, fy = fl['x_generator'].gi_frame.f_locals, fl['y_generator'].gi_frame.f_locals
        return dict(center=(fix(fx['center']), fix(fy['center'])),
                    consts=np.array([fx['seg_len'], fx['noise_lo'], fy['seg_len'], fy['noise_lo']], dtype=np.float64),
                    noise=(fix(fx.get('noise')), fix(fy.get('noise'))))
    w = fl['step'] if cfg['kind'] == 'seg' else fl['seg_len']
    return dict(center=fix(fl['center']), consts=np.array([w, fl['noise_lo']], dtype=np.float64), noise=fix(fl.get('noise')))


def real_sampler(cfg):
    """run the real sampler `ndraws` times; returns (per-draw torch.rand results, per-draw outputs, final frame)"""
    import torch
    torch.manual_seed(cfg['torch_seed'])
    log = []
    draws, outs = [], []
    with record_torch('rand', log):
        g = make_sampler(cfg)
        for _ in range(cfg['ndraws']):
            del log[:]
            o = next(g)
            draws.append([list(c) for c in log])
            if isinstance(o, (tuple, list)):
                outs.append(tuple(np.asarray(c.detach().reshape(-1).tolist(), dtype=np.float64) for c in o))
            else:
                outs.append(np.asarray(o.detach().reshape(-1).tolist(), dtype=np.float64))
    return draws, outs, frame_of(cfg, g)


def sampler_block(cfg, draws):
    k = cfg['kind']
    r = 1 if cfg['random'] else 0
    if k in ('gen1d', 'gent'):
        head = f'{k} {cfg["size"]} {r} {bits([cfg["lo"]])} {bits([cfg["hi"]])}'
    elif k == 'seg':
        head = f'seg {cfg["size"]} {r} {bits([cfg["start"][0], cfg["start"][1], cfg["end"][0], cfg["end"][1]])}'
    else:
        head = f'rect {cfg["size"][0]} {cfg["size"][1]} {r} {bits([cfg["xlo"], cfg["xhi"], cfg["ylo"], cfg["yhi"]])}'
    lines = [head]
    for d in draws:
        if k == 'rect':
            a, b = (d + [[], []])[:2] if cfg['random'] else ([], [])
            lines.append(('r ' + bits(a)).strip() + ' | ' + bits(b))
        else:
            lines.append(('r ' + bits(d[0] if d else [])).strip())
    lines.append('---')
    return '\n'.join(lines)


def close(a, b, tol=1e-9):
    a, b = np.asarray(a, dtype=np.float64), np.asarray(b, dtype=np.float64)
    if a.shape != b.shape:
        return False, 0
    if a.size == 0:
        return True, 0
    ok = bool(np.all(np.abs(a - b) <= tol * (1 + np.abs(b))))
    return ok, int(np.sum(a == b))


def compare_sampler(cfg, draws, outs, frame, mb):
    """model block vs real observations; returns (None | mismatch dict, #values compared, #bit-exact)"""
    two = cfg['kind'] in ('seg', 'rect')
    n = len(outs)
    if len(mb) != n + 3:
        return dict(cfg=cfg, error=f'model printed {len(mb)} lines for {n} draws'), 0, 0
    tot = exact = 0

    def parse(line, tag, pair):
        body = line[len(tag):]
        if pair:
            a, b = body.split('|')
            return unbits(a.split()), unbits(b.split())
        return unbits(body.split())
    for k in range(n):
        m = parse(mb[k], 'p', two)
        pairs = list(zip(m, outs[k])) if two else [(m, outs[k])]
        for mm, rr in pairs:
            ok, ex = close(mm, rr)
            tot += len(rr); exact += ex
            if not ok:
                return dict(cfg=cfg, draw_index=k + 1, model=np.asarray(mm).tolist()[:6], real=np.asarray(rr).tolist()[:6],
                            what='points of this draw differ'), tot, exact
    rect = cfg['kind'] == 'rect'
    for tag, line, real in (('center', mb[n], frame['center']), ('consts', mb[n + 1], frame['consts']), ('noise', mb[n + 2], frame['noise'])):
        m = parse(line, tag, rect and tag != 'consts')
        pairs = list(zip(m, real)) if (rect and tag != 'consts') else [(m, real)]
        for mm, rr in pairs:
            ok, ex = close(mm, rr)
            tot += len(rr); exact += ex
            if not ok:
                return dict(cfg=cfg, after_draws=n, what=f'generator frame differs in `{tag}`', model=np.asarray(mm).tolist()[:6],
                            real=np.asarray(rr).tolist()[:6]), tot, exact
    return None, tot, exact


def sampler_property(cfg, draws, outs):
    """the property itself on the real observations: every draw on-domain, one point per stratum (None = holds)"""
    k = cfg['kind']
    for d in draws:
        for c in d:
            if c and not (min(c) >= 0.0 and max(c) < 1.0):
                return dict(what='torch.rand outside [0,1)')

    def strata(lo, hi, n):
        w = (hi - lo) / n
        a = lo + np.arange(n) * w
        b = lo + (np.arange(n) + 1) * w
        tol = 1e-12 * (1 + abs(lo) + abs(hi))
        return np.minimum(a, b) - tol, np.maximum(a, b) + tol

    def first_bad(arr, lo_, hi_):
        bad = ~((arr >= lo_[None, :]) & (arr <= hi_[None, :]))
        if bad.any():
            kk, ii = np.argwhere(bad)[0]
            return int(kk), int(ii)
        return None
    if k in ('gen1d', 'gent'):
        n = cfg['size']
        if any(o.shape != (n,) for o in outs):
            return dict(what='wrong number of points', sizes=sorted({o.shape for o in outs})[:3])
        arr = np.stack(outs)
        lo_, hi_ = strata(cfg['lo'], cfg['hi'], n)
        fb = first_bad(arr, lo_, hi_)
        if fb:
            return dict(what='point outside its stratum', draw_index=fb[0] + 1, point_index=fb[1], value=float(arr[fb]),
                        stratum=[float(lo_[fb[1]]), float(hi_[fb[1]])])
        return None
    if k == 'rect':
        nx, ny = cfg['size']
        if any(o[0].shape != (nx * ny,) or o[1].shape != (nx * ny,) for o in outs):
            return dict(what='wrong number of points')
        xs = np.stack([o[0] for o in outs]); ys = np.stack([o[1] for o in outs])
        lx, hx = strata(cfg['xlo'], cfg['xhi'], nx)
        ly, hy = strata(cfg['ylo'], cfg['yhi'], ny)
        fb = first_bad(xs, np.repeat(lx, ny), np.repeat(hx, ny))
        if fb:
            return dict(what='x outside its stratum', draw_index=fb[0] + 1, point_index=fb[1], value=float(xs[fb]))
        fb = first_bad(ys, np.tile(ly, nx), np.tile(hy, nx))
        if fb:
            return dict(what='y outside its stratum', draw_index=fb[0] + 1, point_index=fb[1], value=float(ys[fb]))
        return None
    n = cfg['size']
    (x1, y1), (x2, y2) = cfg['start'], cfg['end']
    if any(o[0].shape != (n,) or o[1].shape != (n,) for o in outs):
        return dict(what='wrong number of points')
    xs = np.stack([o[0] for o in outs]); ys = np.stack([o[1] for o in outs])
    lx, hx = strata(x1, x2, n)
    ly, hy = strata(y1, y2, n)
    fb = first_bad(xs, lx, hx)
    if fb:
        return dict(what='x outside the i-th stratum of the segment', draw_index=fb[0] + 1, point_index=fb[1], value=float(xs[fb]),
                    stratum=[float(lx[fb[1]]), float(hx[fb[1]])])
    fb = first_bad(ys, ly, hy)
    if fb:
        return dict(what='y outside the i-th stratum of the segment', draw_index=fb[0] + 1, point_index=fb[1], value=float(ys[fb]))
    cross = (xs - x1) * (y2 - y1) - (ys - y1) * (x2 - x1)
    scale = (1 + abs(x1) + abs(x2)) * (1 + abs(y1) + abs(y2))
    if np.abs(cross).max() > 1e-11 * scale:
        kk, ii = np.argwhere(np.abs(cross) > 1e-11 * scale)[0]
        return dict(what='point off the segment line', draw_index=int(kk) + 1, point_index=int(ii))
    return None


def tensor_bound_checks():
    """samplers whose bounds are given as 0-d tensors (data.min(), data.max()): the caller's tensors are left alone, and every sampler built
    from the same bound objects stratifies the interval the bounds describe"""
    import torch
    from neurodiffeq import temporal as T
    bad = []
    lo, hi = torch.tensor(0.25, dtype=torch.float64), torch.tensor(2.0, dtype=torch.float64)

    def strata_ok(v, a, b, n):
        w = (b - a) / n
        return all(a + i * w - 1e-9 <= float(x) <= a + (i + 1) * w + 1e-9 for i, x in enumerate(v))
    try:
        made = [('generator_1dspatial(random=False)', T.generator_1dspatial(4, lo, hi, random=False)), ('generator_temporal(random=True)', T.generator_temporal(4, lo, hi, random=True)),
                ('generator_1dspatial(random=True)', T.generator_1dspatial(4, lo, hi, random=True)), ('generator_temporal(random=False)', T.generator_temporal(4, lo, hi, random=False))]
        for rnd in range(3):
            for nm, g in made:
                v = next(g).reshape(-1).tolist()
                if float(lo) != 0.25 or float(hi) != 2.0 or not strata_ok(v, 0.25, 2.0, 4):
                    bad.append(dict(kind='sampler', case='bounds given as 0-d tensors, several samplers built from the same bound objects', sampler=nm, draw=rnd + 1,
                                    points=v, bounds_now=[float(lo), float(hi)], violated='a point lies outside its stratum of [0.25, 2.0] / the caller\'s bounds were modified'))
                    return bad
        gx = T.generator_2dspatial_rectangle((3, 3), lo, hi, lo, hi, random=False)
        xs, ys = next(gx)
        ux, uy = sorted(set(round(float(v), 9) for v in xs)), sorted(set(round(float(v), 9) for v in ys))
        if float(lo) != 0.25 or float(hi) != 2.0 or not strata_ok(ux, 0.25, 2.0, 3) or not strata_ok(uy, 0.25, 2.0, 3):
            bad.append(dict(kind='sampler', case='square rectangle with the same 0-d tensor bounds on both axes', x_nodes=ux, y_nodes=uy, bounds_now=[float(lo), float(hi)],
                            violated='nodes outside their strata / bounds modified'))
    except Exception as e:
        bad.append(dict(kind='sampler', case='bounds given as 0-d tensors', error=f'{type(e).__name__}: {e}'))
    return bad


def sampler_configs(tier, seed):
    rng = random.Random(seed * 7919 + 20)
    quick = tier == 'quick'
    nd = 200 if quick else 300

    def bound():
        return rng.choice([rng.uniform(-5, 5), float(rng.randint(-3, 3)), rng.randint(-3, 3), rng.uniform(-1e3, 1e3), rng.uniform(-1e-3, 1e-3)])

    def interval():
        a, b = bound(), bound()
        m = rng.random()
        if m < 0.15:
            return max(a, b), min(a, b)      # reversed bounds (accepted by the API)
        if m < 0.2:
            return a, a                      # degenerate
        if m < 0.3:
            return 0, 1                      # Python ints, as in the documentation examples
        return min(a, b), max(a, b)
    sizes = [1, 2, 3, 64] + (rng.sample(range(4, 64), 5) if quick else list(range(4, 64)))
    cfgs = []
    for kind in ('gen1d', 'gent'):
        for s in sizes:
            lo, hi = interval()
            cfgs.append(dict(kind=kind, size=s, lo=lo, hi=hi, random=rng.random() < 0.75, ndraws=nd))
    for s in sizes:
        cfgs.append(dict(kind='seg', size=s, start=[bound(), bound()], end=[bound(), bound()], random=rng.random() < 0.8, ndraws=nd))
    cfgs.append(dict(kind='seg', size=5, start=[0.0, 1.0], end=[0.0, 1.0], random=True, ndraws=nd))        # degenerate segment
    cfgs.append(dict(kind='seg', size=7, start=[1, 0], end=[1, 2], random=True, ndraws=nd))                # vertical, int coordinates
    pairs = [(1, 1), (1, 5), (6, 1), (64, 2), (3, 64)] + [(rng.randint(1, 12), rng.randint(1, 12)) for _ in range(4 if quick else 40)]
    if not quick:
        pairs += [(64, 64), (33, 47)]
    for nx, ny in pairs:
        xlo, xhi = interval(); ylo, yhi = interval()
        cfgs.append(dict(kind='rect', size=[nx, ny], xlo=xlo, xhi=xhi, ylo=ylo, yhi=yhi, random=rng.random() < 0.75,
                         ndraws=min(nd, 60) if nx * ny > 400 else nd))
    # the same generator object, very late draws (the repaired segment defect needed ~thousands of draws to leave the domain)
    late = 5000
    cfgs.append(dict(kind='seg', size=4, start=[0.0, 0.0], end=[1.0, 1.0], random=True, ndraws=late))
    cfgs.append(dict(kind='gen1d', size=3, lo=0.0, hi=1.0, random=True, ndraws=late))
    cfgs.append(dict(kind='gent', size=2, lo=0.0, hi=3.0, random=True, ndraws=late))
    cfgs.append(dict(kind='rect', size=[2, 3], xlo=0.0, xhi=1.0, ylo=-1.0, yhi=1.0, random=True, ndraws=late))
    if not quick:
        cfgs.append(dict(kind='seg', size=64, start=[-2.0, 3.0], end=[5.0, -1.0], random=True, ndraws=late))
        cfgs.append(dict(kind='seg', size=1, start=[0.0, 0.0], end=[1.0, 0.0], random=True, ndraws=late))
        cfgs.append(dict(kind='gen1d', size=64, lo=-1.0, hi=2.0, random=True, ndraws=late))
        cfgs.append(dict(kind='gent', size=17, lo=0.0, hi=10.0, random=True, ndraws=late))
        cfgs.append(dict(kind='gent', size=1, lo=0.0, hi=1.0, random=True, ndraws=late))
        cfgs.append(dict(kind='rect', size=[5, 7], xlo=0.0, xhi=1.0, ylo=-1.0, yhi=1.0, random=True, ndraws=late))
    for c in cfgs:
        c['torch_seed'] = rng.randrange(1 << 30)
    return cfgs


# =====================================================================================================================
# Engine B: mini-batches and histories
# =====================================================================================================================

def _tiny(n_in):
    from neurodiffeq.networks import FCNN
    return FCNN(n_in, 1, hidden_units=(3,))


def make_training(routine, ns, nt, spy_log=None, real_gens=False, one_point_boundary=False):
    """real approximator + optimizer + spy generators for one of the three legacy training routines.
    training points are identified by exactly representable coordinates: x = i, y = 2 i, t = j.
    real_gens (only used for the 1-point training set): the repo's own samplers instead of the spy generators"""
    import torch
    from neurodiffeq import temporal as T
    from neurodiffeq.neurodiffeq import unsafe_diff as diff      # the legacy API works on 1-D tensors (as in /repo/tests/test_temporal.py)

    def const_gen(*cols):
        while True:
            out = tuple(torch.tensor(c, dtype=torch.get_default_dtype()) for c in cols)
            yield out[0] if len(out) == 1 else out
    xs = [float(i) for i in range(ns)]
    ys = [2.0 * i for i in range(ns)]
    ts = [float(j) for j in range(nt)]
    if routine == '1d_temporal':
        # the boundary of a 1-D domain is one point; with a single time sample the 1x1 boundary set hits the same squeeze-to-0-d
        # defect as the 1-point training set (known finding), so nt == 1 uses both end points unless `one_point_boundary` is forced
        nb = 1 if (nt >= 2 or one_point_boundary) else 2
        bc = T.BoundaryCondition(form=lambda u, x, t: u, points_generator=T.generator_1dspatial(nb, 0., float(nb - 1), random=False))
        ap = T.SingleNetworkApproximator1DSpatialTemporal(_tiny(2), lambda u, x, t: diff(u, t) - 1e-3 * diff(u, x), T.FirstOrderInitialCondition(lambda x: torch.sin(x)), [bc])
        gens = (const_gen(xs), const_gen(ts))
        train = T._train_1dspatial_temporal
        ident = lambda xx, tt, x, t: ((xx * nt + tt), None)
    elif routine == '2d':
        bc = T.BoundaryCondition(form=lambda u, x, y: u, points_generator=T.generator_2dspatial_segment(2, (0., 0.), (1., 0.), random=True))
        ap = T.SingleNetworkApproximator2DSpatial(_tiny(2), lambda u, x, y: diff(u, x) + 1e-3 * diff(u, y), [bc])
        gens = (const_gen(xs, ys), None)
        train = T._train_2dspatial
        ident = lambda xx, yy: (xx, yy - 2 * xx)
    else:
        bc = T.BoundaryCondition(form=lambda u, x, y, t: u, points_generator=T.generator_2dspatial_segment(2, (0., 0.), (1., 0.), random=False))
        ap = T.SingleNetworkApproximator2DSpatialTemporal(_tiny(3), lambda u, x, y, t: diff(u, t) - 1e-3 * diff(u, x), T.FirstOrderInitialCondition(lambda x, y: x + y), [bc])
        gens = (const_gen(xs, ys), const_gen(ts))
        train = T._train_2dspatial_temporal
        ident = lambda xx, yy, tt, x, y, t: ((xx * nt + tt), yy - 2 * xx)
    if real_gens:
        assert ns == 1 and nt == 1
        if routine == '1d_temporal':
            gens = (T.generator_1dspatial(1, 0., 1.), T.generator_temporal(1, 0., 1.))
        elif routine == '2d':
            gens = (T.generator_2dspatial_rectangle((1, 1), 0., 1., 0., 1.), None)
        else:
            gens = (T.generator_2dspatial_segment(1, (0., 0.), (1., 1.)), T.generator_temporal(1, 0., 1.))
        ident = lambda xx, *rest: (torch.zeros_like(xx.reshape(-1)), None)    # the only training point has id 0
    if spy_log is not None:
        orig = ap.calculate_loss

        def spy(*a):
            ids, pairing = ident(*a)
            ids = ids.detach().reshape(-1)
            rec = [int(round(v)) for v in ids.tolist()]
            if any(abs(v - r) > 0 for v, r in zip(ids.tolist(), rec)):
                rec = ['non-integer id']
            if pairing is not None and float(pairing.detach().abs().max()) != 0.0:
                rec = ['rows unpaired'] + rec
            spy_log.append(rec)
            return orig(*a)
        ap.calculate_loss = spy
    opt = torch.optim.SGD(ap.parameters(), lr=1e-4)
    return ap, opt, gens, train


def real_batches(s):
    """one real `_train_*` call; returns dict(perm, calls) or dict(error)"""
    import torch
    torch.manual_seed(s['torch_seed'])
    calls, perms = [], []
    ap, opt, gens, train = make_training(s['routine'], s['ns'], s['nt'], calls, real_gens=s.get('real_gens', False),
                                          one_point_boundary=s.get('one_point_boundary', False))
    try:
        with record_torch('randperm', perms):
            train(gens[0], gens[1], ap, opt, {}, s['shuffle'], s['bs'])
    except Exception as e:
        return dict(error=f'{type(e).__name__}: {e}', calls=calls)
    return dict(perm=[int(v) for v in perms[0]] if perms else None, n_perm_calls=len(perms), calls=calls)


def batch_property(s, r):
    n = s['ns'] * s['nt']
    if 'error' in r:
        return dict(what='training routine raised', error=r['error'])
    calls = r['calls']
    if not calls or calls[-1] != list(range(n)):
        return dict(what='the epoch-loss evaluation is not over the whole training set in order')
    flat = [v for b in calls[:-1] for v in b]
    if any(not isinstance(v, int) for v in flat):
        return dict(what='a mini-batch contains something that is not a training point', seen=[v for v in flat if not isinstance(v, int)][:2])
    if sorted(flat) != list(range(n)):
        miss = sorted(set(range(n)) - set(flat))
        dup = sorted({v for v in flat if flat.count(v) > 1})
        return dict(what='mini-batches do not visit every training point exactly once', missing=miss[:5], repeated=dup[:5])
    if any(len(b) < 1 or len(b) > s['bs'] for b in calls[:-1]):
        return dict(what='a mini-batch is empty or larger than batch_size', sizes=[len(b) for b in calls[:-1]])
    if s['shuffle'] and (r['perm'] is None or sorted(r['perm']) != list(range(n)) or r['n_perm_calls'] != 1):
        return dict(what='shuffle on: expected exactly one torch.randperm(n)')
    if not s['shuffle'] and flat != list(range(n)):
        return dict(what='shuffle off: points not visited in order')
    return None


def batch_scripts(tier, seed):
    rng = random.Random(seed * 104729 + 20)
    out = []

    def factor(n):
        ds = [d for d in range(1, n + 1) if n % d == 0]
        d = rng.choice(ds)
        return d, n // d
    pairs = set()
    if tier == 'quick':
        for n in (2, 3, 7, 12):
            for bs in {1, 2, n - 1, n, n + 1, 3 * n} - {0}:
                pairs.add((n, bs))
        while len(pairs) < 60:
            n = rng.randint(2, 40)
            pairs.add((n, rng.randint(1, n + 3)))
    else:
        for n in range(2, 31):
            for bs in range(1, n + 3):
                pairs.add((n, bs))
        for _ in range(60):
            n = rng.randint(31, 120)
            pairs.add((n, rng.choice([1, 2, 7, n // 3 + 1, n // 2, n - 1, n, n + 1, rng.randint(1, n)])))
    for n, bs in sorted(pairs):
        routines = ['1d_temporal', '2d', '2d_temporal']
        for routine in (routines if tier == 'thorough' and n <= 12 else [rng.choice(routines)]):
            ns, nt = (n, 1) if routine == '2d' else factor(n)
            out.append(dict(routine=routine, ns=ns, nt=nt, bs=bs, shuffle=rng.random() < 0.6, torch_seed=rng.randrange(1 << 30)))
    return out


def real_history(s):
    """the real `_solve_*` with the real samplers and a tiny network; returns [(series, length)] in dict order"""
    import torch
    from neurodiffeq import temporal as T
    torch.manual_seed(s['torch_seed'])
    ap, opt, _, _ = make_training(s['solver'], 2, s['nt'])
    if s.get('diverge'):          # a diverging run (step size far too large): losses become inf / nan, the bookkeeping is the same
        for grp in opt.param_groups:
            grp['lr'] = 1e30
    rnd = s['random']

    class Mon:            # a monitor that is refreshed every few epochs (the documented interface: check_every, check(approximator, history))
        check_every = s.get('monitor_every') or 1
        checks = 0

        def check(self, *a, **k):
            Mon.checks += 1
    mon = Mon() if s.get('monitor_every') else None
    if s['solver'] == '1d_temporal':
        mk = lambda f: {m: (lambda u, x, t, k=k: (u ** 2).mean() + k) for k, m in enumerate(s['metrics'])}
        _, h = T._solve_1dspatial_temporal(T.generator_1dspatial(s['nx'], 0., 1., rnd), T.generator_temporal(s['nt'], 0., 1., rnd),
                                           T.generator_1dspatial(3, 0., 1., False), T.generator_temporal(2, 0., 1., False),
                                           ap, opt, s['bs'], s['epochs'], s['shuffle'], mk(0), mon)
    elif s['solver'] == '2d':
        mk = lambda f: {m: (lambda u, x, y, k=k: (u ** 2).mean() + k) for k, m in enumerate(s['metrics'])}
        _, h = T._solve_2dspatial(T.generator_2dspatial_rectangle((s['nx'], s['nt']), 0., 1., 0., 1., rnd),
                                  T.generator_2dspatial_rectangle((2, 3), 0., 1., 0., 1., False),
                                  ap, opt, s['bs'], s['epochs'], s['shuffle'], mk(0), mon)
    else:
        mk = lambda f: {m: (lambda u, x, y, t, k=k: (u ** 2).mean() + k) for k, m in enumerate(s['metrics'])}
        _, h = T._solve_2dspatial_temporal(T.generator_2dspatial_rectangle((s['nx'], 2), 0., 1., 0., 1., rnd), T.generator_temporal(s['nt'], 0., 1., rnd),
                                           T.generator_2dspatial_rectangle((2, 2), 0., 1., 0., 1., False), T.generator_temporal(2, 0., 1., False),
                                           ap, opt, s['bs'], s['epochs'], s['shuffle'], mk(0), mon)
    bad_vals = [k for k, v in h.items() if any(not isinstance(x, float) for x in v)]
    return [(k, len(v)) for k, v in h.items()], bad_vals


def history_property(s, series):
    want = ['train_loss', 'valid_loss'] + [p + m for m in s['metrics'] for p in ('train_', 'valid_')]
    if sorted(k for k, _ in series) != sorted(want):
        return dict(what='unexpected set of history series', got=[k for k, _ in series], want=want)
    bad = [(k, n) for k, n in series if n != s['epochs']]
    if bad:
        return dict(what='a history series does not have one entry per epoch', epochs=s['epochs'], series=bad)
    return None


def history_scripts(tier, seed):
    rng = random.Random(seed * 15485863 + 20)
    pool = ['mse', 'max', 'residual', 'l1', 'train_x', 'valid_loss2']
    out = []
    for i in range(9 if tier == 'quick' else 60):
        solver = ['1d_temporal', '2d', '2d_temporal'][i % 3]
        out.append(dict(solver=solver, epochs=rng.choice([0, 1, 2, 3, 4]) if i >= 3 else 3, metrics=rng.sample(pool, rng.randint(0, 3)),
                        nx=rng.randint(2, 4), nt=rng.randint(1, 3), bs=rng.randint(1, 9), shuffle=rng.random() < 0.5, random=rng.random() < 0.7,
                        torch_seed=rng.randrange(1 << 30)))
    for solver in ('1d_temporal', '2d', '2d_temporal'):
        out.append(dict(solver=solver, epochs=4, metrics=rng.sample(pool, 1), nx=3, nt=2, bs=rng.randint(2, 6), shuffle=True, random=True,
                        torch_seed=rng.randrange(1 << 30), diverge=True))
        out.append(dict(solver=solver, epochs=7, metrics=rng.sample(pool, 1), nx=3, nt=2, bs=rng.randint(2, 6), shuffle=True, random=True,
                        torch_seed=rng.randrange(1 << 30), monitor_every=rng.choice([2, 3, 5])))
    # outside the property quantifier, model-vs-code only: a metric called 'loss' shares the loss series' key
    out.append(dict(solver='1d_temporal', epochs=3, metrics=['loss', 'mse'], nx=3, nt=2, bs=4, shuffle=True, random=True,
                    torch_seed=rng.randrange(1 << 30), outside_quantifier=True))
    return out


def size1_cases():
    """the known finding: 1-point training sets (three routines) + the same collapse at the boundary term (1 boundary point x 1 time sample)"""
    return ([dict(routine=r, ns=1, nt=1, bs=4, shuffle=sh, torch_seed=5, real_gens=True) for r, sh in (('1d_temporal', True), ('2d', False), ('2d_temporal', True))]
            + [dict(routine='1d_temporal', ns=3, nt=1, bs=2, shuffle=False, torch_seed=5, one_point_boundary=True)])


# =====================================================================================================================
# the check
# =====================================================================================================================

def check(tier, seed):
    import torch
    torch.set_default_dtype(torch.float64)
    rep = Report(PID, tier, seed)
    broken, failing = [], []
    cov = {}

    # ---- engine A: trace, emit, kernel ------------------------------------------------------------------------------
    n_seeds = 3 if tier == 'quick' else 12
    g, stats = None, {}
    try:
        g, stats = generate(seeds=[seed * 1000 + i for i in range(n_seeds)], tier=tier)
    except AssertionError as e:
        broken.append(dict(kind='tie', detail=str(e)[:2000]))
    except Untranslatable as e:
        broken.append(dict(kind='untranslatable', detail=str(e), where=traceback.format_exc()[-800:]))
    except Exception as e:
        broken.append(dict(kind='scenario-error', detail=f'{type(e).__name__}: {e}', where=traceback.format_exc()[-1500:]))
    if g is not None:
        path = os.path.join(LEAN, 'NdeVerif', 'Gen', f'{PID}.lean')
        g.write(path)
        okA, hits = kernel_phase(rep, f'NdeVerif.Gen.{PID}', g.ns, [o.name for o in g.obligations], tag=PID + '_gen')
        if hits:
            print('forbidden tokens in Lean sources:', hits)
            rep.finish()
            return 2
        for part in getattr(g, 'parts', []):
            part.write(os.path.join(LEAN, 'NdeVerif', 'Gen', f'{part.pid}.lean'))
            ok2, _ = kernel_phase(rep, f'NdeVerif.Gen.{part.pid}', part.ns, [o.name for o in part.obligations], tag=part.pid)
            okA = okA and ok2
            if part.failures:
                cov.setdefault('certificates_not_found', []).extend(part.failures)
        if getattr(g, 'exact_info', None):
            cov['operation_order_model'] = g.exact_info
            if g.exact_info.get('ieee_identities_sampled', {}).get('failed'):
                broken.append(dict(kind='trusted-base', detail='an identity of Arith.Exact does not hold in torch on this machine'))
        if g.failures:
            cov.setdefault('certificates_not_found', []).extend(g.failures)
        if not okA:
            broken.append(dict(kind='proof', part='approximators (generated)', failed=dict(rep.failed)))
    axA = set(rep.coverage.get('axioms_seen', []))

    # ---- engine B: kernel -------------------------------------------------------------------------------------------
    okB, hits = kernel_phase(rep, 'NdeVerif.Proofs.C20', 'NdeVerif.C20', THEOREMS)
    if hits:
        print('forbidden tokens:', hits)
        rep.finish()
        return 2
    rep.coverage['axioms_seen'] = sorted(axA | set(rep.coverage.get('axioms_seen', [])))
    if not okB:
        broken.append(dict(kind='proof', part='samplers / mini-batches / history (model)', failed=dict(rep.failed)))

    # ---- approximators: the property on the real code (numeric) ------------------------------------------------------
    try:
        found, n_approx = search_approx(seed, tier)
    except Exception as e:
        found, n_approx = [dict(kind='approximator', error=f'search crashed: {type(e).__name__}: {e}')], 0
    failing += found
    failing += tensor_bound_checks()

    # ---- real runs ---------------------------------------------------------------------------------------------------
    t0 = time.time()
    blocks, items = [], []
    cfgs = sampler_configs(tier, seed)
    for cfg in cfgs:
        try:
            draws, outs, frame = real_sampler(cfg)
        except Exception as e:
            failing.append(dict(kind='sampler', cfg=cfg, error=f'{type(e).__name__}: {e}'))
            continue
        items.append(('sampler', cfg, (draws, outs, frame)))
        blocks.append(sampler_block(cfg, draws))
    bscr = batch_scripts(tier, seed)
    for s in bscr + size1_cases():
        r = real_batches(s)
        items.append(('batches', s, r))
        perm = r.get('perm') or []
        blocks.append('\n'.join([f'batches {s["ns"] * s["nt"]} {s["bs"]} {1 if s["shuffle"] else 0}', 'idx ' + ' '.join(map(str, perm)), '---']))
    hscr = history_scripts(tier, seed)
    for s in hscr:
        try:
            series, bad_vals = real_history(s)
        except Exception as e:
            failing.append(dict(kind='history', script=s, error=f'{type(e).__name__}: {e}', where=traceback.format_exc()[-600:]))
            continue
        items.append(('history', s, (series, bad_vals)))
        blocks.append('\n'.join([' '.join(['history', str(s['epochs'])] + s['metrics']), '---']))
    real_seconds = time.time() - t0

    # ---- model runs + comparison -------------------------------------------------------------------------------------
    lines, dt = run_driver('C20', '\n'.join(blocks) + '\n')
    mblocks = split_blocks(lines)
    mism = []
    if len(mblocks) != len(items):
        mism.append(dict(error='driver returned a different number of blocks', got=len(mblocks), want=len(items)))
    hist = dict(samplers={}, sampler_values=0, sampler_values_bit_exact=0, draws=0, max_draw_index=0, random_on=0, random_off=0,
                reversed_bounds=0, degenerate_bounds=0, sizes=set(), batch_runs=0, batch_nondivisible=0, batch_bs_gt_n=0,
                batch_shuffle=0, batch_routines={}, calculate_loss_calls=0, history_runs=0, epochs_hist={}, size1_known=0)
    known_entries = {f.get('key'): f for f in known_findings(PID)}
    validated = 0
    for (kind, s, r), mb in zip(items, mblocks):
        if kind == 'sampler':
            draws, outs, frame = r
            mm, tot, exact = compare_sampler(s, draws, outs, frame, mb)
            hist['sampler_values'] += tot; hist['sampler_values_bit_exact'] += exact
            hist['samplers'][s['kind']] = hist['samplers'].get(s['kind'], 0) + 1
            hist['draws'] += s['ndraws']; hist['max_draw_index'] = max(hist['max_draw_index'], s['ndraws'])
            hist['random_on' if s['random'] else 'random_off'] += 1
            for a, b in ([(s['lo'], s['hi'])] if 'lo' in s else [(s['xlo'], s['xhi']), (s['ylo'], s['yhi'])] if 'xlo' in s else []):
                hist['reversed_bounds'] += a > b; hist['degenerate_bounds'] += a == b
            hist['sizes'].update(s['size'] if isinstance(s['size'], list) else [s['size']])
            if mm:
                mism.append(dict(stream='sampler', **mm))
            else:
                validated += 1
            bad = sampler_property(s, draws, outs)
            if bad:
                failing.append(dict(kind='sampler', cfg=s, violated=bad))
        elif kind == 'batches':
            n = s['ns'] * s['nt']
            if n == 1 or s.get('one_point_boundary'):
                want_err = ('TypeError: len() of a 0-d tensor' if n == 1 else
                            'IndexError: Dimension out of range (expected to be in range of [-1, 0], but got 1)')
                if r.get('error') == want_err and KNOWN_KEY_SIZE1 in known_entries:
                    hist['size1_known'] += 1
                    continue
                bad = batch_property(s, r)
                if bad:
                    failing.append(dict(kind='batches', script=s, violated=bad))
                continue
            want = [f'b {",".join(map(str, b))}' for b in r.get('calls', [])]
            hist['batch_runs'] += 1; hist['batch_nondivisible'] += n % s['bs'] != 0; hist['batch_bs_gt_n'] += s['bs'] > n
            hist['batch_shuffle'] += s['shuffle']; hist['calculate_loss_calls'] += len(want)
            hist['batch_routines'][s['routine']] = hist['batch_routines'].get(s['routine'], 0) + 1
            if 'error' in r or want != mb:
                first = next((i for i, (a, b) in enumerate(zip(want, mb)) if a != b), min(len(want), len(mb)))
                mism.append(dict(stream='mini-batches', script=s, first_difference=first, real=want[first:first + 2], model=mb[first:first + 2],
                                 error=r.get('error')))
            else:
                validated += 1
            bad = batch_property(s, r)
            if bad:
                failing.append(dict(kind='batches', script=s, violated=bad, perm=r.get('perm')))
        else:
            series, bad_vals = r
            model = []
            for l in mb:
                _, name, *rest = l.split(' ')
                model.append((name, len([v for v in (rest[0].split(',') if rest else []) if v != ''])))
            hist['history_runs'] += 1
            hist['epochs_hist'][s['epochs']] = hist['epochs_hist'].get(s['epochs'], 0) + 1
            if model != series:
                mism.append(dict(stream='history', script=s, real=series, model=model))
            else:
                validated += 1
            if not s.get('outside_quantifier'):
                bad = history_property(s, series)
                if bad_vals and not bad:
                    bad = dict(what='history entries are not floats', series=bad_vals)
                if bad:
                    failing.append(dict(kind='history', script=s, violated=bad))
    if hist['size1_known']:
        rep.known.append(f'{KNOWN_KEY_SIZE1}: _train_1dspatial_temporal/_train_2dspatial/_train_2dspatial_temporal with a 1-point training set raise '
                         f'TypeError: len() of a 0-d tensor; same torch.squeeze collapse in the boundary term for 1 boundary point x 1 time sample '
                         f'(IndexError in unsqueeze) (reproduced {hist["size1_known"]}/4)')
    if mism:
        broken.append(dict(kind='correspondence', mismatches=mism[:4], count=len(mism)))
    hist['sizes'] = sorted(hist['sizes'])

    # ---- evidence -----------------------------------------------------------------------------------------------------
    n_programs = len(stats) + len(cfgs) + len(bscr) + len(hscr)
    replays = sum(s.get('replays', 0) for s in stats.values())
    cov.update(
        programs=n_programs, traces_validated_against_impl=replays + validated,
        evaluations=replays + n_approx + hist['draws'] + hist['calculate_loss_calls'] + hist['history_runs'],
        distinct_nontrivial=len({o.statement for o in (g.obligations if g else [])}) + len({(c['kind'], str(c['size']), c['random']) for c in cfgs if c['ndraws'] >= 2})
        + len({(s['routine'], s['ns'] * s['nt'], s['bs'], s['shuffle']) for s in bscr if s['ns'] * s['nt'] > s['bs']}) + len({(s['solver'], s['epochs'], len(s['metrics'])) for s in hscr if s['epochs'] >= 2}),
        rule='programs = traced approximator scenarios + sampler configurations (kind, size, bounds, random, number of draws from ONE generator object) + '
             '_train_* scripts (routine, training-set size, batch size, shuffle) + _solve_* scripts.  Non-trivial: approximators by distinct theorem '
             'statement; samplers with >= 2 draws (distinct kind/size/random); mini-batch scripts with more than one batch; histories with >= 2 epochs.  '
             'Sampler outputs and the generator frame (center, seg_len/step, noise_lo, noise) are compared with the float64 model within 1e-9 at EVERY draw '
             'index, the model being fed the recorded torch.rand results; mini-batch membership lists (spied calculate_loss) are compared exactly with the '
             'model fed the recorded torch.randperm; history series names, order and lengths are compared exactly',
        worst_replay_rel_err=max([s.get('worst_rel_err', 0) for s in stats.values()] or [0]),
        approximator_numeric_cases=n_approx, input_distribution=hist, driver_seconds=round(dt, 1), real_run_seconds=round(real_seconds, 1),
        generated_file=os.path.relpath(os.path.join(LEAN, 'NdeVerif', 'Gen', f'{PID}.lean'), ROOT))
    rep.coverage.update(cov)
    rep.samples = ([dict(theorem=o.name, statement=o.statement[:300], meaning=o.what) for o in (g.obligations if g else [])][:5]
                   + [dict(sampler={k: v for k, v in c.items()}) for c in cfgs[:2] + cfgs[-2:]]
                   + [dict(train_script=s, calls=r.get('calls'), perm=r.get('perm')) for k, s, r in items if k == 'batches'][:2]
                   + [dict(solve_script=s, series=r[0]) for k, s, r in items if k == 'history'][:2])
    rep.assumptions = list(ASSUMPTIONS)
    rep.notes.append("a metric named 'loss' (outside the quantifier) makes the code append twice per epoch to train_loss/valid_loss; model and code agree "
                     "on it (theorem history_metric_named_loss)")
    for f in failing[:4]:
        rep.violation(dict(kind='failing-input', input=f, broken=broken))
    if broken and not failing:
        rep.violation(dict(kind='unproved', broken=broken, note='the proof / tie / correspondence no longer checks and no failing input was found'),
                      found_input=False, name='unproved')
    return rep.finish(checker_cmd='cd lean && lake build NdeVerif.Gen.C20 NdeVerif.Proofs.C20 && lake env lean --run drivers/C20.lean < scripts')


def replay(path):
    import json
    import torch
    torch.set_default_dtype(torch.float64)
    d = json.load(open(path))
    inp = d.get('input')
    if not inp:
        print('replay file names no input:', json.dumps(d.get('broken'), default=str)[:1500])
        return 1
    kind = inp.get('kind')
    if kind == 'sampler':
        cfg = inp['cfg']
        draws, outs, frame = real_sampler(cfg)
        bad = sampler_property(cfg, draws, outs)
        print('sampler', cfg, '->', bad or 'property holds')
        return 1 if bad else 0
    if kind == 'batches':
        s = inp['script']
        r = real_batches(s)
        bad = batch_property(s, r)
        print('train script', s, 'calls', r.get('calls'), '->', bad or 'property holds')
        return 1 if bad else 0
    if kind == 'history':
        s = inp['script']
        series, bad_vals = real_history(s)
        bad = history_property(s, series)
        print('solve script', s, 'series', series, '->', bad or 'property holds')
        return 1 if bad else 0
    if kind == 'approximator':
        found, _ = search_approx(d.get('seed', 0), d.get('tier', 'quick'))
        print('approximator search ->', found[:2] or 'property holds')
        return 1 if found else 0
    print('unknown replay kind', kind)
    return 1
