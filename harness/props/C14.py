"""C14 — BatchGenerator streams samples without loss, duplication or reordering.

Engine B: Lean model NdeVerif.Model.Batch, theorems NdeVerif.Proofs.C14, correspondence with the real
`neurodiffeq.generators.BatchGenerator` over scripted underlying draws (spy leaves with identifiable points)."""
import itertools
import random
import sys

from ..runner import Report, kernel_phase, run_driver, split_blocks

PID = 'C14'
GAP_THEOREMS = ['refill_add', 'refill_progress', 'refill_enough_gaps', 'batch_size_exact_gaps']
NESTED_THEOREMS = ['calls_snoc', 'delivered_eq_stream_of_batches', 'state_inv', 'wf_nthBatch', 'nested_stream']
THEOREMS = ['batch_stream', 'batch_stream_from_init', 'batch_size_exact', 'refill_enough', 'refill_inv', 'get_inv',
            'refill_aligned', 'init_inv']


def make_spy(sizes, dims):
    """underlying generator whose k-th draw has sizes[k % len] points; coordinate d of point p is 1000*p + d"""
    import torch
    from neurodiffeq.generators import BaseGenerator

    class Spy(BaseGenerator):
        def __init__(self):
            super().__init__()
            self.size = next((s for s in sizes if s > 0), 1)      # nominal size (an occasional draw may come up shorter or empty)
            self.draws = []
            self.counter = 0

        def get_examples(self):
            n = sizes[len(self.draws) % len(sizes)]
            pts = list(range(self.counter, self.counter + n))
            self.counter += n
            cols = [torch.tensor([1000.0 * p + d for p in pts]) for d in range(dims)]
            self.draws.append([[int(v) for v in c.tolist()] for c in cols])
            return cols[0] if dims == 1 else (cols if len(self.draws) % 2 else tuple(cols))
    return Spy()


def real_run(sizes, dims, bs, ncalls, via_filter=False):
    import torch
    from neurodiffeq.generators import BatchGenerator, FilterGenerator
    spy = make_spy(sizes, dims)
    src = spy
    if via_filter:
        # a real FilterGenerator that keeps everything but exercises the `list` return path and size updates
        src = FilterGenerator(spy, lambda xs: torch.ones_like(xs[0], dtype=torch.bool))
    bg = BatchGenerator(src, bs)
    out = []
    for _ in range(ncalls):
        b = bg.get_examples()
        b = [b] if isinstance(b, torch.Tensor) else list(b)
        out.append([[int(round(v)) for v in c.tolist()] for c in b])
    cached = [[int(round(v)) for v in c.tolist()] for c in bg.cached_xs]
    return spy.draws, out, cached


def fmt_dims(c):
    return '|'.join(','.join(str(v) for v in d) for d in c)


def property_holds(draws, out, bs, dims):
    """the property itself, evaluated on real observations (used for the failing-input search)"""
    for d in range(dims):
        stream = [v for dr in draws for v in dr[d]]
        deliv = [v for b in out for v in b[d]]
        if deliv != stream[:len(deliv)]:
            return f'dimension {d}: delivered batches are not a prefix of the underlying draws'
    for i, b in enumerate(out):
        if any(len(c) != bs for c in b):
            return f'call {i}: batch sizes {[len(c) for c in b]} != {bs}'
        for j in range(len(b[0])):
            if len({(c[j] - d) for d, c in enumerate(b)}) != 1:
                return f'call {i}, row {j}: coordinates of different points in one row'
    return None


def robustness_checks():
    """the stream property under two things the integer-valued spy cannot show (evaluated on the real object, every run):
    * the underlying generator fails in the middle of a refill and the caller retries: what was already drawn is not lost;
    * draws of different floating-point precision: every sample is delivered with the value it was drawn with"""
    import torch
    from neurodiffeq.generators import BatchGenerator, BaseGenerator
    bad = []

    class Flaky(BaseGenerator):
        def __init__(self, fail_on):
            super().__init__()
            self.size, self.calls, self.fail_on, self.next, self.given = 3, 0, set(fail_on), 0, []

        def get_examples(self):
            self.calls += 1
            if self.calls in self.fail_on:
                raise RuntimeError('transient failure of the underlying generator')
            pts = [float(self.next + k) for k in range(3)]
            self.next += 3
            self.given += pts
            return torch.tensor(pts), torch.tensor([p + 0.5 for p in pts])
    for fail_on in ({3}, {2, 5}, {4, 5}):
        src = Flaky(fail_on)
        bg = BatchGenerator(src, 10)
        delivered, errors = [], 0
        for _ in range(8):
            try:
                b = bg.get_examples()
                if len(b[0]) != 10:
                    bad.append(dict(script=dict(kind='underlying generator fails during a refill', fails_on_calls=sorted(fail_on)), violated=f'batch of {len(b[0])} rows'))
                if [v + 0.5 for v in b[0].tolist()] != b[1].tolist():
                    bad.append(dict(script=dict(kind='underlying generator fails during a refill', fails_on_calls=sorted(fail_on)), violated='rows not paired'))
                delivered += b[0].tolist()
            except RuntimeError:
                errors += 1
        if delivered != src.given[:len(delivered)]:
            first = next((i for i, (a, b_) in enumerate(zip(delivered, src.given)) if a != b_), None)
            bad.append(dict(script=dict(kind='underlying generator fails during a refill and the caller retries', fails_on_calls=sorted(fail_on)),
                            violated='delivered batches are not a prefix of the draws taken from the underlying generator (samples lost or reordered)',
                            first_difference=first, delivered=delivered[:14], drawn=src.given[:14]))

    # samples that are ROWS of a 2-D tensor: the batch size counts rows
    class Rows(BaseGenerator):
        def __init__(self):
            super().__init__()
            self.size, self.k, self.given = 3, 0, []

        def get_examples(self):
            t = torch.tensor([[float(self.k * 3 + i), float(self.k * 3 + i) + 0.5] for i in range(3)])
            self.k += 1
            self.given += t.tolist()
            return t
    src = Rows()
    bg = BatchGenerator(src, 4)
    delivered = []
    for _ in range(4):
        b = bg.get_examples()
        b = b[0] if isinstance(b, (list, tuple)) else b
        if tuple(b.shape) != (4, 2):
            bad.append(dict(script=dict(kind='samples are rows of an (N, 2) tensor'), violated=f'batch of shape {tuple(b.shape)}, expected (4, 2)'))
            break
        delivered += b.tolist()
    if delivered != src.given[:len(delivered)]:
        bad.append(dict(script=dict(kind='samples are rows of an (N, 2) tensor'), violated='delivered rows are not a prefix of the drawn rows'))
    # a sub-generator that IS a PredefinedGenerator / StaticGenerator (subclass) but whose draws differ: it is asked again like any other
    from neurodiffeq.generators import PredefinedGenerator, StaticGenerator, Generator1D

    class Counting(PredefinedGenerator):
        def __init__(self):
            super().__init__([0.0, 1.0, 2.0])
            self.k, self.given = 0, []

        def get_examples(self):
            t = torch.tensor([float(self.k * 3 + i) for i in range(3)])
            self.k += 1
            self.given += t.tolist()
            return t
    src = Counting()
    bg = BatchGenerator(src, 4)
    delivered = []
    for _ in range(4):
        delivered += bg.get_examples().tolist()
    if delivered != src.given[:len(delivered)]:
        bad.append(dict(script=dict(kind='underlying generator is a PredefinedGenerator subclass with varying draws'),
                        violated='delivered batches are not a prefix of the draws', delivered=delivered[:10], drawn=src.given[:10]))
    pre = PredefinedGenerator([0.0, 1.0, 2.0])
    bg = BatchGenerator(pre, 2)
    first = bg.get_examples().tolist() + bg.get_examples().tolist()
    pre.xs = torch.tensor([10.0, 11.0, 12.0], requires_grad=True)          # the user refreshes the predefined points
    later = [v for _ in range(4) for v in bg.get_examples().tolist()]
    if not any(v >= 10.0 for v in later):
        bad.append(dict(script=dict(kind='PredefinedGenerator whose points are replaced between batches'),
                        violated='the refreshed points are never delivered (the underlying generator is no longer asked)', later_batches=later))

    # samples of integer type (indices of a lattice / of a data set), beyond the range floats represent exactly: delivered as drawn
    class Ints(BaseGenerator):
        def __init__(self, dtype):
            super().__init__()
            self.size, self.k, self.given, self.dtype = 3, 0, [], dtype
            self.base = 2 ** 40 + 1 if dtype == torch.int64 else 2 ** 24 + 1

        def get_examples(self):
            t = torch.tensor([self.base + self.k * 3 + i for i in range(3)], dtype=self.dtype)
            self.k += 1
            self.given += t.tolist()
            return t
    for dtype in (torch.int64, torch.int32, torch.float64):
        for bs in (3, 6, 2, 4):            # batch sizes that do and do not empty the cache
            src = Ints(dtype)
            bg = BatchGenerator(src, bs)
            delivered, dts = [], set()
            for _ in range(6):
                b = bg.get_examples()
                dts.add(b.dtype)
                delivered += b.tolist()
            if delivered != src.given[:len(delivered)] or dts != {dtype}:
                first = next((i for i, (a, b_) in enumerate(zip(delivered, src.given)) if a != b_), None)
                bad.append(dict(script=dict(kind='integer-valued samples beyond the exact range of float32', dtype=str(dtype), batch_size=bs),
                                violated='a delivered sample differs (in value or type) from the sample that was drawn', index=first,
                                delivered=None if first is None else delivered[first], drawn=None if first is None else src.given[first],
                                dtypes=sorted(str(d) for d in dts)))
    # a requested batch size of 0: every batch has exactly 0 samples and nothing is consumed
    src = Ints(torch.float64)
    try:
        bg = BatchGenerator(src, 0)
        drawn_before = len(src.given)
        sizes = [len(bg.get_examples()) for _ in range(3)]
        if sizes != [0, 0, 0] or len(src.given) != drawn_before:
            bad.append(dict(script=dict(kind='requested batch size 0'), violated='batches do not have exactly the requested size', batch_sizes=sizes))
    except (ValueError, TypeError):
        pass        # rejecting the request is fine
    # the sub-generator is a public attribute: a replaced / wrapped sub-generator is what later refills draw from
    a, b2 = Ints(torch.float64), Ints(torch.float64)
    b2.base = 7.0e6
    bg = BatchGenerator(a, 2)
    got = bg.get_examples().tolist() + bg.get_examples().tolist()         # 4 of a's first 6 samples
    bg.generator = b2
    later = [v for _ in range(4) for v in bg.get_examples().tolist()]      # 2 cached from a, then b2's
    want = (a.given + b2.given)[4:12]
    if len(a.given) != 6 or later != want:
        bad.append(dict(script=dict(kind='sub-generator replaced between batches (bg.generator = other)'),
                        violated='later batches are not the cached samples followed by the draws of the new sub-generator', got=later, want=want,
                        draws_taken_from_old=len(a.given) // 3, draws_taken_from_new=len(b2.given) // 3))
    c3 = Ints(torch.float64)
    bg = BatchGenerator(c3, 4)
    log = []
    inner = c3.get_examples
    c3.get_examples = lambda: (log.append(1), inner())[1]                 # an instrumented sub-generator (logging wrapper)
    for _ in range(3):
        bg.get_examples()
    if len(log) != c3.k - 1:
        bad.append(dict(script=dict(kind='sub-generator whose get_examples is wrapped after construction'),
                        violated='refills bypass the wrapper', wrapper_calls=len(log), draws=c3.k - 1))
    # a deep copy / pickle of the batch generator taken in mid-stream (a checkpoint) does not disturb the stream of the original
    import copy as _copy, pickle as _pickle
    for how in ('deepcopy', 'pickle'):
        src = Ints(torch.float64)
        bg = BatchGenerator(src, 2)
        delivered = bg.get_examples().tolist()
        try:
            twin = _copy.deepcopy(bg) if how == 'deepcopy' else _pickle.loads(_pickle.dumps(bg))
        except Exception:
            twin = None
        for _ in range(4):
            delivered += bg.get_examples().tolist()
        if delivered != src.given[:len(delivered)]:
            bad.append(dict(script=dict(kind=f'{how} of the batch generator taken between two batches'),
                            violated='after the copy was taken the original no longer delivers the draws in order without loss', delivered=delivered[:10], drawn=src.given[:10]))
    # coordinates of different rank in one draw ((N,) next to (N, 1)): each keeps its shape, rows stay paired
    class Ranks(BaseGenerator):
        def __init__(self):
            super().__init__()
            self.size, self.k = 3, 0

        def get_examples(self):
            x = torch.arange(3, dtype=torch.float64) + 3 * self.k
            self.k += 1
            return x, (x + 0.5).reshape(-1, 1)
    try:
        bg = BatchGenerator(Ranks(), 4)
    except Exception as e:
        bg = None
        bad.append(dict(script=dict(kind='draws with an (N,) and an (N, 1) coordinate'), violated=f'the batch generator cannot be built / used: {type(e).__name__}: {e}'))
    for call in range(3 if bg is not None else 0):
        try:
            b = bg.get_examples()
        except Exception as e:
            bad.append(dict(script=dict(kind='draws with an (N,) and an (N, 1) coordinate'), violated=f'batch {call} raised {type(e).__name__}: {e}'))
            break
        if tuple(b[0].shape) != (4,) or tuple(b[1].shape) != (4, 1) or (b[0] + 0.5).tolist() != b[1].reshape(-1).tolist():
            bad.append(dict(script=dict(kind='draws with an (N,) and an (N, 1) coordinate'), violated=f'batch {call}: shapes {tuple(b[0].shape)}, {tuple(b[1].shape)} '
                            '(expected (4,), (4, 1)) or rows not paired'))
            break
    # a batch generator over a batch generator: the outer stream is the inner stream (which is the stream of the source)
    src = Ints(torch.float64)
    inner = BatchGenerator(src, 2)
    outer = BatchGenerator(inner, 5)
    delivered = [v for _ in range(3) for v in outer.get_examples().tolist()]
    if delivered != src.given[:len(delivered)]:
        bad.append(dict(script=dict(kind='BatchGenerator(BatchGenerator(source, 2), 5)'), violated='delivered batches are not a prefix of the draws of the source',
                        delivered=delivered[:10], drawn=src.given[:10]))
    # coordinates of different types in one draw (an integer id next to float positions): every coordinate keeps its type and its values
    class Mixed(BaseGenerator):
        def __init__(self):
            super().__init__()
            self.size, self.k, self.ids = 3, 0, []

        def get_examples(self):
            ids = torch.tensor([2 ** 53 + 1 + 3 * self.k + i for i in range(3)], dtype=torch.int64)
            self.k += 1
            self.ids += ids.tolist()
            return ids, ids.to(torch.float32) * 0 + torch.arange(3, dtype=torch.float32) + 0.5
    src = Mixed()
    bg = BatchGenerator(src, 2)
    got_ids = []
    for call in range(4):
        b = bg.get_examples()
        if b[0].dtype != torch.int64 or b[1].dtype != torch.float32:
            bad.append(dict(script=dict(kind='int64 ids next to float32 positions'), violated=f'batch {call}: coordinate types {b[0].dtype}, {b[1].dtype}'))
            break
        got_ids += b[0].tolist()
    if got_ids != src.ids[:len(got_ids)]:
        bad.append(dict(script=dict(kind='int64 ids next to float32 positions'), violated='delivered ids differ from the ids drawn', delivered=got_ids[:6], drawn=src.ids[:6]))
    # the batch size given as a 0-d integer tensor / numpy integer (computed from data): same stream, same batch sizes
    import numpy as _np
    for what, bsz in (('0-d int64 tensor', torch.tensor(2)), ('numpy.int64', _np.int64(2))):
        src = Ints(torch.float64)
        try:
            bg = BatchGenerator(src, bsz)
            sizes, delivered = [], []
            for _ in range(5):
                b = bg.get_examples()
                sizes.append(len(b))
                delivered += b.tolist()
            if sizes != [2] * 5 or delivered != src.given[:10]:
                bad.append(dict(script=dict(kind=f'batch size given as a {what}'), violated='batches do not have the requested size / are not a prefix of the draws',
                                sizes=sizes, delivered=delivered[:10], drawn=src.given[:10]))
        except Exception as e:
            bad.append(dict(script=dict(kind=f'batch size given as a {what}'), violated=f'{type(e).__name__}: {e}'))
    class Widening(BaseGenerator):
        def __init__(self):
            super().__init__()
            self.size, self.k, self.given = 2, 0, []

        def get_examples(self):
            self.k += 1
            if self.k == 1:
                t = torch.tensor([0.5, 1.5], dtype=torch.float32)
            else:
                t = torch.tensor([self.k + 2.0 ** -40, self.k + 0.25 + 2.0 ** -45], dtype=torch.float64)
            self.given += [float(v) for v in t.tolist()]
            return t
    src = Widening()
    bg = BatchGenerator(src, 3)
    delivered = []
    for _ in range(5):
        delivered += [float(v) for v in bg.get_examples().to(torch.float64).tolist()]
    if delivered != src.given[:len(delivered)]:
        first = next((i for i, (a, b_) in enumerate(zip(delivered, src.given)) if a != b_), None)
        bad.append(dict(script=dict(kind='first draw float32, later draws float64'), violated='a delivered sample differs from the sample that was drawn',
                        index=first, delivered=delivered[first] if first is not None else None, drawn=src.given[first] if first is not None else None))
    return bad


def scripts(tier, seed):
    rng = random.Random(seed)
    out = []
    # bounded-exhaustive corner: sizes <= 3, bs <= 4
    small = list(itertools.product([(1,), (2,), (3,), (1, 2), (2, 1, 3)], [1, 2, 3], [1, 2, 3, 4]))
    for sizes, dims, bs in (small if tier == 'thorough' else rng.sample(small, 12)):
        out.append(dict(sizes=list(sizes), dims=dims, bs=bs, ncalls=rng.randint(1, 8), via_filter=rng.random() < 0.3))
    # underlying generators that occasionally come up empty (a filter rejecting every point of a draw): the batch generator
    # keeps drawing, every batch still has exactly the requested size and nothing is lost or reordered
    for sizes in ([2, 0, 3], [0, 1], [1, 0, 0, 4], [3, 0], [0, 0, 2, 5]):
        for _ in range(1 if tier == 'quick' else 6):
            out.append(dict(sizes=sizes, dims=rng.randint(1, 3), bs=rng.randint(1, 9), ncalls=rng.randint(2, 10), via_filter=rng.random() < 0.3))
    for _ in range(40 if tier == 'quick' else 600):
        k = rng.randint(1, 4)
        out.append(dict(sizes=[rng.randint(1, 8) for _ in range(k)], dims=rng.randint(1, 3), bs=rng.randint(1, 20),
                        ncalls=rng.randint(1, 40 if tier == 'thorough' else 12), via_filter=rng.random() < 0.3))
    return out


def check(tier, seed):
    rep = Report(PID, tier, seed)
    ok, hits = kernel_phase(rep, 'NdeVerif.Proofs.C14', 'NdeVerif.C14', THEOREMS)
    ok2, _ = kernel_phase(rep, 'NdeVerif.Proofs.C14Gaps', 'NdeVerif.C14', GAP_THEOREMS, tag='C14gaps')
    ok3, _ = kernel_phase(rep, 'NdeVerif.Proofs.C14Nested', 'NdeVerif.C14', NESTED_THEOREMS, tag='C14nested')
    ok2 = ok2 and ok3
    ok = ok and ok2
    if hits:
        print('forbidden tokens:', hits)
        rep.finish()
        return 2
    broken = [] if ok else [dict(kind='proof', failed=rep.failed)]
    scr = scripts(tier, seed)
    blocks, reals = [], []
    failing = []
    for s in scr:
        try:
            draws, out, cached = real_run(**s)
        except Exception as e:
            failing.append(dict(script=s, error=f'{type(e).__name__}: {e}'))
            continue
        reals.append((s, draws, out, cached))
        blocks.append('\n'.join([f'{s["bs"]} {s["ncalls"]} 100000'] + [fmt_dims(d) for d in draws] + ['---']))
    lines, dt = run_driver('C14', '\n'.join(blocks) + '\n')
    mblocks = split_blocks(lines)
    mismatches = []
    hist = dict(batch_gt_size=0, batch_lt_size=0, varying=0, with_empty_draws=0, dims={1: 0, 2: 0, 3: 0}, draws=0, calls=0)
    for (s, draws, out, cached), mb in zip(reals, mblocks):
        want = [f'batch {fmt_dims(b)}' for b in out] + [f'cached {fmt_dims(cached)}', f'next {len(draws)}']
        hist['batch_gt_size' if s['bs'] > max(s['sizes']) else 'batch_lt_size'] += 1
        hist['varying'] += len(set(s['sizes'])) > 1
        hist['with_empty_draws'] += 0 in s['sizes']
        hist['dims'][s['dims']] += 1
        hist['draws'] += len(draws); hist['calls'] += s['ncalls']
        if want != mb:
            first = next((i for i, (a, b) in enumerate(zip(want, mb)) if a != b), min(len(want), len(mb)))
            mismatches.append(dict(script=s, first_difference=first, real=want[first:first + 2], model=mb[first:first + 2]))
        bad = property_holds(draws, out, s['bs'], s['dims'])
        if bad:
            failing.append(dict(script=s, violated=bad, draws=draws, batches=out))
    failing += robustness_checks()
    if len(mblocks) != len(reals):
        mismatches.append(dict(error='driver returned a different number of blocks', got=len(mblocks), want=len(reals)))
    if mismatches:
        broken.append(dict(kind='correspondence', stream='BatchGenerator vs NdeVerif.Batch', mismatches=mismatches[:3], count=len(mismatches)))
    rep.coverage.update(
        programs=len(scr), traces_validated_against_impl=len(reals) - len(mismatches), evaluations=hist['calls'],
        distinct_nontrivial=len({(tuple(s['sizes']), s['dims'], s['bs'], s['ncalls'], s['via_filter']) for s in scr if s['ncalls'] >= 2}),
        rule='a script = (underlying draw sizes cycle, dims, batch size, number of calls, via real FilterGenerator?); non-trivial = at '
             'least two calls; real BatchGenerator run on spy leaves with identifiable points, model driven with the recorded draws, '
             'outputs + final cache + number of draws compared exactly',
        input_distribution=hist, driver_seconds=round(dt, 1))
    rep.samples = [dict(script=s, first_batches=out[:2]) for s, _, out, _ in reals[:4]]
    rep.assumptions = ['termination hypothesis of the size clause: among any m consecutive underlying draws at least one is non-empty (batch_size_exact_gaps; m = 1 is batch_size_exact); a generator that is empty forever makes the real while-loop diverge',
                       'tensor concatenation/slicing behave as list append/take/drop (torch, trusted; observed by the correspondence)']
    for f in failing[:3]:
        rep.violation(dict(kind='failing-input', input=f, broken=broken))
    if broken and not failing:
        rep.violation(dict(kind='unproved', broken=broken), found_input=False, name='unproved')
    return rep.finish(checker_cmd='cd lean && lake build NdeVerif.Proofs.C14 && lake env lean --run drivers/C14.lean < scripts')


def replay(path):
    import json
    d = json.load(open(path))
    s = d.get('input', {}).get('script')
    if not s:
        print('replay file names no script:', d.get('broken'))
        return 1
    draws, out, cached = real_run(**s)
    bad = property_holds(draws, out, s['bs'], s['dims'])
    print('script', s, '->', bad or 'property holds')
    return 1 if bad else 0
