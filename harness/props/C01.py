"""C01 — ODE conditions (IVP, DirichletBVP, DoubleEndedBVP1D) hold exactly for every network."""
from ..world import tie_check
from ..leangen import GenFile
from .. import ex as X
from ..sym import Untranslatable

PID = 'C01'


def scenarios():
    from neurodiffeq.conditions import IVP, DirichletBVP, DoubleEndedBVP1D
    S = {}

    def ivp_d(w):
        t = w.coord('t'); t0 = w.param('t0'); u0 = w.param('u0')
        return IVP(t_0=t0, u_0=u0).enforce(w.net('N', 1), t)
    S['ivp_d'] = ivp_d

    def ivp_n(w):
        t = w.coord('t'); t0 = w.param('t0'); u0 = w.param('u0'); up = w.param('up')
        return IVP(t_0=t0, u_0=u0, u_0_prime=up).enforce(w.net('N', 1), t)
    S['ivp_n'] = ivp_n

    def dbvp(w):
        t = w.coord('t'); t0 = w.param('t0'); t1 = w.param('t1'); u0 = w.param('u0'); u1 = w.param('u1')
        return DirichletBVP(t_0=t0, u_0=u0, t_1=t1, u_1=u1).enforce(w.net('N', 1), t)
    S['dbvp'] = dbvp

    def de(mode):
        def f(w):
            x = w.coord('x'); x0 = w.param('x0'); x1 = w.param('x1'); a = w.param('a'); b = w.param('b')
            kw = {}
            kw['x_min_val' if mode[0] == 'd' else 'x_min_prime'] = a
            kw['x_max_val' if mode[1] == 'd' else 'x_max_prime'] = b
            return DoubleEndedBVP1D(x_min=x0, x_max=x1, **kw).enforce(w.net('N', 1), x)
        return f
    for m in ('dd', 'dn', 'nd', 'nn'):
        S['de_' + m] = de(m)

    # single-network / ith-output-unit mode: a 3-output network, every unit index
    def unit(base, k, j):
        def f(w):
            class W:  # wrap the world so that net('N') is the k-output network and the condition selects unit j
                symbolic = w.symbolic
                def __getattr__(s, a): return getattr(w, a)
                def net(s, name, n_in, n_out=1): return w.net(name + f'_{k}', n_in, k)
            import neurodiffeq.conditions as C
            orig = C.BaseCondition.__init__
            def init(self):
                orig(self); self.ith_unit = j
            C.BaseCondition.__init__ = init
            try:
                return S[base](W())
            finally:
                C.BaseCondition.__init__ = orig
        return f
    for base in ('ivp_d', 'ivp_n', 'dbvp', 'de_dd', 'de_dn', 'de_nd', 'de_nn'):
        for j in range(3):
            S[f'{base}_u{j}'] = unit(base, 3, j)
    return S


def generate(seeds=(1, 2, 3), tier="quick"):
    g = GenFile(PID)
    stats = {}
    S = scenarios()
    trees, ctxs, nodes = {}, {}, {}
    for name, scen in S.items():
        sw, outs, st = tie_check(scen, seeds)
        stats[name] = st
        trees[name] = sw.tree(outs[0])
        ctxs[name] = sw.ctx
        nodes[name] = outs[0].cols[0]
        g.add_def(name, trees[name], f'traced from /repo: scenario {name}; variables {sw.ctx.vars}; symbols {sw.ctx.syms}')

    def V(name, v):
        return ('var', ctxs[name].vars.index(v))

    # operation-order model: the value clauses hold EXACTLY in every arithmetic with the IEEE-754 identities (Calc/FEx.lean)
    from .. import fex as F
    specs = []
    for sfx in [''] + [f'_u{j}' for j in range(3)]:
        specs += [(f'ivp_d{sfx}_value_exact', 'ivp_d' + sfx, [('t', 't0')], 'u0', 'IVP (value mode): u(t0) is exactly u0'),
                  (f'ivp_n{sfx}_value_exact', 'ivp_n' + sfx, [('t', 't0')], 'u0', 'IVP (value+derivative mode): u(t0) is exactly u0'),
                  (f'dbvp{sfx}_left_exact', 'dbvp' + sfx, [('t', 't0')], 'u0', 'DirichletBVP: u(t0) is exactly u0'),
                  (f'dbvp{sfx}_right_exact', 'dbvp' + sfx, [('t', 't1')], 'u1', 'DirichletBVP: u(t1) is exactly u1')]
        for m in ('dd', 'dn', 'nd', 'nn'):
            if m[0] == 'd':
                specs.append((f'de_{m}{sfx}_left_exact', f'de_{m}' + sfx, [('x', 'x0')], 'a', f'DoubleEndedBVP1D {m.upper()}: u(x0) is exactly the prescribed value'))
            if m[1] == 'd':
                specs.append((f'de_{m}{sfx}_right_exact', f'de_{m}' + sfx, [('x', 'x1')], 'b', f'DoubleEndedBVP1D {m.upper()}: u(x1) is exactly the prescribed value'))
    F.exact_part(g, PID, nodes, ctxs, specs, stats)


    for sfx in [''] + [f'_u{j}' for j in range(3)]:
        n = 'ivp_d' + sfx
        g.thm_eq(f'{n}_value', ['t0', 'u0'], ['t0', 't0', 'u0'], n, trees[n], V(n, 'u0'),
                 what='IVP (value mode): u(t0) = u0 for every network')
        n = 'ivp_n' + sfx
        g.thm_eq(f'{n}_value', ['t0', 'u0', 'up'], ['t0', 't0', 'u0', 'up'], n, trees[n], V(n, 'u0'),
                 what="IVP (value+derivative mode): u(t0) = u0 for every network")
        g.thm_deriv(f'{n}_deriv', ['t0', 'u0', 'up'], ['t0', 't0', 'u0', 'up'], 0, 't', n, trees[n], V(n, 'up'),
                    what="IVP (value+derivative mode): u'(t0) = u0' for every smooth network")
        n = 'dbvp' + sfx
        hy = [('h01', 't0 ≠ t1')]
        g.thm_eq(f'{n}_left', ['t0', 't1', 'u0', 'u1'], ['t0', 't0', 't1', 'u0', 'u1'], n, trees[n], V(n, 'u0'), hyps=hy,
                 what='DirichletBVP: u(t0) = u0')
        g.thm_eq(f'{n}_right', ['t0', 't1', 'u0', 'u1'], ['t1', 't0', 't1', 'u0', 'u1'], n, trees[n], V(n, 'u1'), hyps=hy,
                 what='DirichletBVP: u(t1) = u1')
        hy = [('h01', 'x0 ≠ x1')]
        rv = ['x0', 'x1', 'a', 'b']
        for m in ('dd', 'dn', 'nd', 'nn'):
            n = f'de_{m}' + sfx
            for side, pt, kind, val in (('left', 'x0', m[0], 'a'), ('right', 'x1', m[1], 'b')):
                envt = [pt, 'x0', 'x1', 'a', 'b']
                if kind == 'd':
                    g.thm_eq(f'{n}_{side}', rv, envt, n, trees[n], V(n, val), hyps=hy,
                             what=f'DoubleEndedBVP1D {m.upper()}: u({pt}) = prescribed value')
                else:
                    g.thm_deriv(f'{n}_{side}', rv, envt, 0, 'x', n, trees[n], V(n, val), hyps=hy,
                                what=f"DoubleEndedBVP1D {m.upper()}: u'({pt}) = prescribed derivative, every smooth network")
    # affine in the raw network output with a non-vanishing coefficient, away from the constrained points
    def net(name, pt='t'):
        c = ctxs[name]
        return ('app', 0, (0,), (('var', c.vars.index(pt)),))
    for sfx in [''] + [f'_u{j}' for j in range(3)]:
        n = 'ivp_d' + sfx
        g.thm_affine(f'{n}_affine', ['t', 't0', 'u0'], ['t', 't0', 'u0'], n, trees[n], net(n), hyps=[('ht', 't ≠ t0')],
                     what='IVP (value mode): u(t) = A + B·N(t) with B ≠ 0 for t ≠ t0')
        n = 'ivp_n' + sfx
        g.thm_affine(f'{n}_affine', ['t', 't0', 'u0', 'up'], ['t', 't0', 'u0', 'up'], n, trees[n], net(n), hyps=[('ht', 't ≠ t0')],
                     what='IVP (value+derivative mode): affine in N(t) with non-vanishing coefficient for t ≠ t0')
        n = 'dbvp' + sfx
        g.thm_affine(f'{n}_affine', ['t', 't0', 't1', 'u0', 'u1'], ['t', 't0', 't1', 'u0', 'u1'], n, trees[n], net(n),
                     hyps=[('h01', 't0 ≠ t1'), ('ht0', 't ≠ t0'), ('ht1', 't ≠ t1')],
                     what='DirichletBVP: affine in N(t) with non-vanishing coefficient for t ∉ {t0, t1}')
        for m in ('dd', 'dn', 'nd', 'nn'):
            n = f'de_{m}' + sfx
            hy = [('h01', 'x0 ≠ x1')] + ([('hx0', 'x ≠ x0')] if m in ('dd', 'dn') else []) + ([('hx1', 'x ≠ x1')] if m in ('dd', 'nd') else [])
            g.thm_affine(f'{n}_affine', ['x', 'x0', 'x1', 'a', 'b'], ['x', 'x0', 'x1', 'a', 'b'], n, trees[n], net(n, 'x'), hyps=hy,
                         what=f'DoubleEndedBVP1D {m.upper()}: affine in N(x) with non-vanishing coefficient away from the Dirichlet end(s)')
    return g, stats


# the verified simplifier behind the generated *_exact theorems (hand-written, audited with the generated ones)
STATIC = [('NdeVerif.Calc.FExSound', 'NdeVerif.FEx', ['normC_sound', 'eval_subst', 'exact_at', 'exact_at2', 'eval_withApp', 'exact_withApp', 'network_free_at']),
          ('NdeVerif.Calc.FExReal', 'NdeVerif', ['realArith_exact']),
          ('NdeVerif.Calc.FExToEx', 'NdeVerif', ['eval_litEx', 'eval_toEx', 'exact_transfers', 'realArithOf_exact', 'allHold_of_isFin', 'allHold_of_isFin_or'])]

ASSUMPTIONS = [
    'theorems are over the reals: floating-point rounding is not modelled - except the *_exact theorems of the operation-order model, which hold '
    'in every arithmetic satisfying the IEEE-754 identities Arith.Exact (one working precision; parameters representable in it)',
    'a network is an arbitrary function symbol; derivative statements assume it is differentiable (Smooth I)',
    "Python truthiness of a numeric parameter inside constructors' validity checks is the generic case value != 0",
]


def search(seed, tier):
    """failing-input search on the real code: evaluate the property numerically over adversarial parameters"""
    import random, torch
    from neurodiffeq.conditions import IVP, DirichletBVP, DoubleEndedBVP1D
    from neurodiffeq.neurodiffeq import diff
    from neurodiffeq.networks import FCNN
    rng = random.Random(seed)
    found = []

    def nets():
        torch.manual_seed(rng.randrange(1 << 30))
        yield 'fcnn', FCNN(1, 1, hidden_units=(8, 8)), None
        a, b, c = (rng.uniform(-50, 50) for _ in range(3))
        yield f'probe({a:.3f}+{b:.3f}x+{c:.3f}x^2)', (lambda x: a + b * x + c * x ** 2), None
        yield 'fcnn3', FCNN(1, 3, hidden_units=(5,)), rng.randrange(3)

    def val_and_der(cond, net, pt, n):
        x = torch.full((n, 1), pt, requires_grad=True)
        u = cond.enforce(net, x)
        return u, diff(u, x)

    def draw():
        s = rng.choice([1, 1, 1e-3, 1e3])
        return rng.choice([rng.uniform(-5, 5) * s] * 4 + [0.0, -0.0, 1.0, 0])

    for it in range(60 if tier == 'quick' else 400):
        t0, t1 = draw(), draw()
        if abs(t1 - t0) < 1e-6 * (1 + abs(t0)):
            continue
        u0, u1, d0, d1 = draw(), draw(), draw(), draw()
        n = rng.choice([1, 2, 7])
        for nname, net, unit in nets():
            cases = []
            c = IVP(t0, u0); cases.append(('ivp_d', c, [(t0, 'v', u0)]))
            c = IVP(t0, u0, d0); cases.append(('ivp_n', c, [(t0, 'v', u0), (t0, 'd', d0)]))
            c = DirichletBVP(t0, u0, t1, u1); cases.append(('dbvp', c, [(t0, 'v', u0), (t1, 'v', u1)]))
            for m in ('dd', 'dn', 'nd', 'nn'):
                kw = {}
                kw['x_min_val' if m[0] == 'd' else 'x_min_prime'] = u0
                kw['x_max_val' if m[1] == 'd' else 'x_max_prime'] = u1
                c = DoubleEndedBVP1D(t0, t1, **kw)
                cases.append((f'de_{m}', c, [(t0, 'v' if m[0] == 'd' else 'd', u0), (t1, 'v' if m[1] == 'd' else 'd', u1)]))
            for cname, cond, reqs in cases:
                cond.ith_unit = unit
                for pt, kind, want in reqs:
                    try:
                        u, du = val_and_der(cond, net, pt, n)
                    except Exception as e:
                        found.append(dict(case=cname, net=nname, error=f'{type(e).__name__}: {e}', t0=t0, t1=t1))
                        continue
                    got = (u if kind == 'v' else du).detach()
                    scale = 1 + abs(want) + float(got.abs().max())
                    span = max(abs(t1 - t0), 1e-3)
                    tol = 1e-7 * scale * (1 if kind == 'v' else max(1.0, 1 / span))
                    err = float((got - want).abs().max())
                    if not err <= tol:
                        found.append(dict(case=cname, net=nname, unit=unit, point=pt, kind=kind, want=want,
                                          got=got.reshape(-1).tolist(), t0=t0, t1=t1, u0=u0, u1=u1, d0=d0, rows=n))
        if len(found) >= 5:
            break
    return found


def runtime_checks():
    """exact observations on the real code, every run: what holds over the reals for every network and every parameter must
    survive floating point at the constrained points themselves - huge raw network outputs, far-away initial times"""
    import torch
    from neurodiffeq.conditions import IVP, DirichletBVP, DoubleEndedBVP1D
    from neurodiffeq.networks import FCNN
    bad = []
    torch.manual_seed(11)

    class Scaled(torch.nn.Module):
        def __init__(self, base, k):
            super().__init__()
            self.base, self.k = base, k

        def forward(self, x):
            return self.base(x) * self.k
    n = 4
    full = lambda v: torch.full((n, 1), float(v), requires_grad=True)
    for scale in (1.0, 1e9, 1e15):
        net = Scaled(FCNN(1, 1, hidden_units=(6,)), scale)
        cases = [('IVP value', IVP(0.3, 1.7), 0.3, 1.7), ('IVP value (derivative mode)', IVP(0.3, 1.7, -0.4), 0.3, 1.7),
                 ('IVP far-away t_0', IVP(800.0, 1.7), 800.0, 1.7), ('IVP far-away negative t_0', IVP(-750.0, -2.5, 0.5), -750.0, -2.5),
                 ('IVP steep slope away from the origin', IVP(100.3, 0.25, 37.7), 100.3, 0.25), ('IVP steep slope, negative t_0', IVP(-512.7, -0.1, 91.3), -512.7, -0.1),
                 ('DirichletBVP left', DirichletBVP(0.2, 1.1, 1.9, -0.6), 0.2, 1.1), ('DirichletBVP right', DirichletBVP(0.2, 1.1, 1.9, -0.6), 1.9, -0.6),
                 ('DoubleEndedBVP1D DD left', DoubleEndedBVP1D(0.2, 1.9, x_min_val=1.1, x_max_val=-0.6), 0.2, 1.1),
                 ('DoubleEndedBVP1D DD right', DoubleEndedBVP1D(0.2, 1.9, x_min_val=1.1, x_max_val=-0.6), 1.9, -0.6)]
        for name, cond, pt, want in cases:
            try:
                got = cond.enforce(net, full(pt)).detach().reshape(-1)
                if not bool(torch.isfinite(got).all()) or float((got - want).abs().max()) > 4e-16 * (1 + abs(want)):      # exact: the network and the slope are multiplied by exact zeros
                    bad.append(dict(case=name, network_output_scale=scale, point=pt, got=got.tolist(), want=want,
                                    violated='value at the constrained point differs from the prescribed value'))
            except Exception as e:
                bad.append(dict(case=name, network_output_scale=scale, error=f'{type(e).__name__}: {e}'))
    # the last output unit selected as -1 (Python indexing) on a shared 3-output network: one column, the constrained value at the point
    net3 = FCNN(1, 3, hidden_units=(5,))
    for cname, mk, pt, want in (('IVP', lambda: IVP(0.3, 1.7), 0.3, 1.7), ('DirichletBVP', lambda: DirichletBVP(0.2, 1.1, 1.9, -0.6), 1.9, -0.6),
                                ('DoubleEndedBVP1D DD', lambda: DoubleEndedBVP1D(0.2, 1.9, x_min_val=1.1, x_max_val=-0.6), 0.2, 1.1)):
        a, b = mk(), mk()
        a.ith_unit, b.ith_unit = -1, 2
        try:
            ua, ub = a.enforce(net3, full(pt)), b.enforce(net3, full(pt))
            if tuple(ua.shape) != (n, 1) or not torch.equal(ua, ub) or float((ua.detach() - want).abs().max()) > 1e-6:
                bad.append(dict(case='output unit -1 of a shared 3-output network', condition=cname, shape=list(ua.shape), violated='does not constrain the last '
                                'output unit (one column with the prescribed value at the constrained point)'))
        except Exception as e:
            bad.append(dict(case='output unit -1 of a shared 3-output network', condition=cname, error=f'{type(e).__name__}: {e}'))
    # weights replaced wholesale (vector_to_parameters / assigning .data: restarts, re-initialisation) between two uses of one condition:
    # the Neumann ends are built from the network AS IT IS at the call
    from neurodiffeq.neurodiffeq import diff as _diff
    for mode, kw in (('DN', dict(x_min_val=1.1, x_max_prime=-0.6)), ('ND', dict(x_min_prime=0.4, x_max_val=0.9)), ('NN', dict(x_min_prime=0.4, x_max_prime=-0.6))):
        try:
            cond = DoubleEndedBVP1D(0.2, 1.9, **kw)
            netw = FCNN(1, 1, hidden_units=(6,))
            # (called without the hostile environment, whose own in-place weight changes would announce themselves to any version-based cache)
            raw_enforce = getattr(DoubleEndedBVP1D.enforce, '__wrapped__', DoubleEndedBVP1D.enforce)
            raw_enforce(cond, netw, full(0.7))
            with torch.no_grad():
                vec = torch.nn.utils.parameters_to_vector(netw.parameters())
                torch.nn.utils.vector_to_parameters(torch.randn_like(vec), netw.parameters())
            for p_ in netw.parameters():
                p_.data = p_.data * 1.5 + 0.1
            for end, pt, key in (('left', 0.2, 'x_min_prime'), ('right', 1.9, 'x_max_prime')):
                if key in kw:
                    xx = full(pt)
                    du = _diff(raw_enforce(cond, netw, xx), xx).detach()
                    if float((du - kw[key]).abs().max()) > 1e-5:
                        bad.append(dict(case=f'DoubleEndedBVP1D {mode}: weights replaced through .data / vector_to_parameters between two calls', end=end,
                                        violated='derivative at the Neumann end differs from the prescribed one', got=du.reshape(-1).tolist(), want=kw[key]))
        except Exception as e:
            bad.append(dict(case=f'DoubleEndedBVP1D {mode}: weights replaced between two calls', error=f'{type(e).__name__}: {e}'))
    # single-precision coordinates at end points that are not single-precision numbers (0.1, 0.3), a network with huge outputs: the coordinate
    # tensor holds the rounded end point, so the constrained value is still exact - nothing of the network leaks in
    for big in (1.0e4, 1.0e7):
        net32 = Scaled(FCNN(1, 1, hidden_units=(6,)).float(), big)
        # (at the left end / the initial time `t - t_0` is an exact zero; at the right end the rounded end points no longer give exactly 1, which is rounding)
        for cname, cond, pt, want in (('DirichletBVP left', DirichletBVP(0.1, 1.25, 0.7, -0.75), 0.1, 1.25), ('IVP', IVP(0.3, 1.25), 0.3, 1.25),
                                      ('IVP (derivative mode)', IVP(0.3, 1.25, 0.5), 0.3, 1.25), ('DoubleEndedBVP1D DD left', DoubleEndedBVP1D(0.1, 0.7, x_min_val=1.25, x_max_val=-0.75), 0.1, 1.25)):
            try:
                got = cond.enforce(net32, torch.full((n, 1), pt, dtype=torch.float32, requires_grad=True)).detach().reshape(-1)
                if float((got.double() - want).abs().max()) > 1e-6:
                    bad.append(dict(case=f'{cname}: float32 coordinates at an end point that is not a float32 number', network_output_scale=big, point=pt,
                                    got=got.tolist(), want=want, violated='the network output leaks into the constrained value'))
            except Exception as e:
                bad.append(dict(case=f'{cname}: float32 coordinates', error=f'{type(e).__name__}: {e}'))
    # the documented positional order of the boundary arguments: (x_min, x_max, x_min_val, x_min_prime, x_max_val, x_max_prime)
    from neurodiffeq.neurodiffeq import diff as _diff
    try:
        netp = FCNN(1, 1, hidden_units=(6,))
        cnd = DoubleEndedBVP1D(0.2, 1.9, None, 0.4, 0.9)             # Neumann slope 0.4 on the left, value 0.9 on the right
        xl, xr = full(0.2), full(1.9)
        dl = _diff(cnd.enforce(netp, xl), xl).detach()
        vr = cnd.enforce(netp, xr).detach()
        if float((dl - 0.4).abs().max()) > 1e-5 or float((vr - 0.9).abs().max()) > 1e-6:
            bad.append(dict(case='DoubleEndedBVP1D(0.2, 1.9, None, 0.4, 0.9) - boundary data passed positionally', violated='u\'(x_min) = 0.4, u(x_max) = 0.9 do not hold',
                            left_slope=dl.reshape(-1).tolist(), right_value=vr.reshape(-1).tolist()))
        cdd = DoubleEndedBVP1D(0.2, 1.9, 1.1, None, -0.6)
        if float((cdd.enforce(netp, xl).detach() - 1.1).abs().max()) > 1e-6 or float((cdd.enforce(netp, xr).detach() + 0.6).abs().max()) > 1e-6:
            bad.append(dict(case='DoubleEndedBVP1D(0.2, 1.9, 1.1, None, -0.6) - boundary data passed positionally', violated='u(x_min) = 1.1, u(x_max) = -0.6 do not hold'))
    except Exception as e:
        bad.append(dict(case='DoubleEndedBVP1D with boundary data passed positionally', error=f'{type(e).__name__}: {e}'))
    # a network whose forward pass uses the SAME condition object (warm start: the old constrained solution plus a correction)
    for mode, kw in (('DN', dict(x_min_val=1.1, x_max_prime=-0.6)), ('NN', dict(x_min_prime=0.4, x_max_prime=-0.6))):
        try:
            cnd = DoubleEndedBVP1D(0.2, 1.9, **kw)
            old, corr = FCNN(1, 1, hidden_units=(5,)), FCNN(1, 1, hidden_units=(5,))
            raw_enforce = getattr(DoubleEndedBVP1D.enforce, '__wrapped__', DoubleEndedBVP1D.enforce)
            warm = lambda x: raw_enforce(cnd, old, x) + corr(x)
            for end, pt, key in (('left', 0.2, 'x_min_prime'), ('right', 1.9, 'x_max_prime')):
                if key in kw:
                    xx = full(pt)
                    du = _diff(raw_enforce(cnd, warm, xx), xx).detach()
                    if float((du - kw[key]).abs().max()) > 1e-5:
                        bad.append(dict(case=f'DoubleEndedBVP1D {mode}: the network itself evaluates the same condition object (warm start)', end=end,
                                        violated='derivative at the Neumann end differs from the prescribed one', got=du.reshape(-1).tolist(), want=kw[key]))
        except Exception as e:
            bad.append(dict(case=f'DoubleEndedBVP1D {mode}: re-entrant use', error=f'{type(e).__name__}: {e}'))
    # intervals far from the origin compared with their length (a late time window, time stamps), end points representable in the working
    # precision: the normalised coordinate is exactly 0 and 1 at the ends, so the end values are reproduced to rounding in either precision
    import random
    rng = random.Random(5)
    windows = [(3719.0625, 3719.625), (-2936.25, -2933.875), (1048576.25, 1048577.5), (-65536.5, -65535.75)]
    for _ in range(40):
        a = rng.randint(-4000 * 16, 4000 * 16) / 16.0
        windows.append((a, a + rng.randint(1, 48) / 16.0))
    windows += [(float(2 ** 40 + 3), float(2 ** 40 + 8)), (-float(2 ** 36) - 0.5, -float(2 ** 36) + 2.25)]
    for dt in (torch.float32, torch.float64):
        eps = torch.finfo(dt).eps
        net = Scaled(FCNN(1, 1, hidden_units=(6,)).to(dt), 1e3)
        for t0, t1 in windows:
            if dt == torch.float32 and abs(t0) > 2 ** 21:
                continue
            for cname, cond in (('DirichletBVP', DirichletBVP(t0, 1.25, t1, -0.75)), ('DoubleEndedBVP1D DD', DoubleEndedBVP1D(t0, t1, x_min_val=1.25, x_max_val=-0.75)),
                                ('IVP', IVP(t0, 1.25))):
                for end, pt, want in (('left', t0, 1.25), ('right', t1, -0.75)):
                    if cname == 'IVP' and end == 'right':
                        continue
                    try:
                        got = cond.enforce(net, torch.full((n, 1), pt, dtype=dt, requires_grad=True)).detach().reshape(-1)
                        if not bool(torch.isfinite(got).all()) or float((got.double() - want).abs().max()) > 8 * eps * (1 + abs(want)):
                            bad.append(dict(case=f'{cname} on an interval far from the origin, {end} end', interval=[t0, t1], dtype=str(dt), point=pt,
                                            got=got.tolist(), want=want, violated='value at the constrained point differs from the prescribed value',
                                            error_in_units_of_roundoff=float((got.double() - want).abs().max()) / eps))
                    except Exception as e:
                        bad.append(dict(case=f'{cname} on an interval far from the origin', interval=[t0, t1], dtype=str(dt), error=f'{type(e).__name__}: {e}'))
    bad = bad[:8]
    return bad


def check(tier, seed):
    from ..calcprop import check_calc
    import sys
    return check_calc(sys.modules[__name__], tier, seed)
