"""C11 — spherical shell, infinite-domain and coefficient-space conditions hold exactly."""
import sys
from ..world import tie_check
from ..leangen import GenFile, Obligation

PID = 'C11'


def scenarios(widths):
    from neurodiffeq.conditions import (DirichletBVPSpherical, InfDirichletBVPSpherical,
                                        DirichletBVPSphericalBasis, InfDirichletBVPSphericalBasis)
    S = {}

    def coords(w):
        return w.coord('r', 0.1, 4), w.coord('th', 0.1, 3), w.coord('ph', 0, 6.2)

    def shell2(w):
        r, th, ph = coords(w); r0 = w.param('r0'); r1 = w.param('r1')
        return DirichletBVPSpherical(r_0=r0, f=w.fn('f'), r_1=r1, g=w.fn('g')).enforce(w.net('N', 3), r, th, ph)
    S['shell2'] = shell2

    def shell1(w):
        r, th, ph = coords(w); r0 = w.param('r0')
        return DirichletBVPSpherical(r_0=r0, f=w.fn('f')).enforce(w.net('N', 3), r, th, ph)
    S['shell1'] = shell1

    def inf(w):
        r, th, ph = coords(w); r0 = w.param('r0'); k = w.param('k', 0.2, 4)
        return InfDirichletBVPSpherical(r_0=r0, f=w.fn('f'), g=w.fn('g'), order=k).enforce(w.net('N', 3), r, th, ph)
    S['inf'] = inf

    def mk(K):
        def b2(w):
            r = w.coord('r', 0.1, 4); r0 = w.param('r0'); r1 = w.param('r1')
            return DirichletBVPSphericalBasis(r_0=r0, R_0=w.param_vec('A', K), r_1=r1, R_1=w.param_vec('B', K)).enforce(w.net('N', 1, K), r)

        def b1(w):
            r = w.coord('r', 0.1, 4); r0 = w.param('r0')
            return DirichletBVPSphericalBasis(r_0=r0, R_0=w.param_vec('A', K)).enforce(w.net('N', 1, K), r)

        def bi(w):
            r = w.coord('r', 0.1, 4); r0 = w.param('r0'); k = w.param('k', 0.2, 4)
            return InfDirichletBVPSphericalBasis(r_0=r0, R_0=w.param_vec('A', K), R_inf=w.param_vec('B', K), order=k).enforce(w.net('N', 1, K), r)
        return b2, b1, bi
    for K in widths:
        b2, b1, bi = mk(K)
        S[f'basis2_w{K}'] = b2
        S[f'basis1_w{K}'] = b1
        S[f'basisinf_w{K}'] = bi
    return S


def generate(seeds=(1, 2, 3), tier='quick'):
    widths = (1, 3) if tier == 'quick' else (1, 2, 9, 25)
    g = GenFile(PID)
    stats, trees, ctxs, outs_ = {}, {}, {}, {}
    fnodes, fctxs = {}, {}
    for name, scen in scenarios(widths).items():
        sw, outs, st = tie_check(scen, seeds[:2] if name.startswith('basis') else seeds)
        stats[name] = st
        ctxs[name] = sw.ctx
        trees[name] = [sw.tree(outs[0], j) for j in range(len(outs[0].cols))]
        for j in range(len(outs[0].cols)):
            key = f'{name}_c{j}' if len(outs[0].cols) > 1 or name.startswith('basis') else name
            fnodes[key], fctxs[key] = outs[0].cols[j], sw.ctx
        for j, t in enumerate(trees[name]):
            g.add_def(f'{name}_c{j}' if len(trees[name]) > 1 or name.startswith('basis') else name, t,
                      f'traced from /repo: scenario {name} column {j}; variables {sw.ctx.vars}; symbols {sw.ctx.syms}')

    def fn(name, s):
        c = ctxs[name]
        return ('app', c.syms.index(s), (0, 0), (('var', c.vars.index('th')), ('var', c.vars.index('ph'))))

    rv3 = ['r', 'th', 'ph']
    n = 'shell2'
    hy = [('h01', 'r0 ≠ r1')]
    g.thm_eq('shell2_inner', rv3[1:] + ['r0', 'r1'], ['r0', 'th', 'ph', 'r0', 'r1'], n, trees[n][0], fn(n, 'f'), hyps=hy,
             what='DirichletBVPSpherical: u(r0, theta, phi) = f(theta, phi) for all angles, either orientation')
    g.thm_eq('shell2_outer', rv3[1:] + ['r0', 'r1'], ['r1', 'th', 'ph', 'r0', 'r1'], n, trees[n][0], fn(n, 'g'), hyps=hy,
             what='DirichletBVPSpherical: u(r1, theta, phi) = g(theta, phi)')
    n = 'shell1'
    g.thm_eq('shell1_inner', rv3[1:] + ['r0'], ['r0', 'th', 'ph', 'r0'], n, trees[n][0], fn(n, 'f'),
             what='one-sided DirichletBVPSpherical: u(r0, theta, phi) = f(theta, phi)')
    n = 'inf'
    g.thm_eq('inf_inner', rv3[1:] + ['r0', 'k'], ['r0', 'th', 'ph', 'r0', 'k'], n, trees[n][0], fn(n, 'f'),
             what='InfDirichletBVPSpherical: u(r0, theta, phi) = f(theta, phi) for every decay order k')
    # reference form used by the hand-written limit theorem (NdeVerif/Proofs/C11.lean)
    c = ctxs[n]
    V = lambda s: ('var', c.vars.index(s))
    dr = ('add', V('r'), ('neg', V('r0')))
    ek = ('un', 'exp', ('mul', ('neg', V('k')), dr))
    th_ = ('un', 'tanh', dr)
    N = ('app', c.syms.index('N'), (0, 0, 0), (V('r'), V('th'), V('ph')))
    ref = ('add', ('add', ('mul', fn(n, 'f'), ek), ('mul', fn(n, 'g'), th_)), ('mul', ('mul', ek, th_), N))
    g.raw(f'abbrev inf_symN : Nat := {c.syms.index("N")}\nabbrev inf_symF : Nat := {c.syms.index("f")}\n'
          f'abbrev inf_symG : Nat := {c.syms.index("g")}\n')
    g.thm_eq('inf_eq_ref', ['r', 'th', 'ph', 'r0', 'k'], ['r', 'th', 'ph', 'r0', 'k'], n, trees[n][0], ref,
             what='InfDirichletBVPSpherical equals f e^{-k(r-r0)} + g tanh(r-r0) + e^{-k(r-r0)} tanh(r-r0) N at every point')
    for K in widths:
        A = lambda j: ('var', ctxs[f'basis2_w{K}'].vars.index(f'A{j}'))
        n = f'basis2_w{K}'
        pv = [v for v in ctxs[n].vars if v != 'r']
        for j in range(K):
            c = ctxs[n]
            g.thm_eq(f'{n}_inner_c{j}', pv, ['r0'] + pv, f'{n}_c{j}', trees[n][j], ('var', c.vars.index(f'A{j}')), hyps=[('h01', 'r0 ≠ r1')],
                     what=f'DirichletBVPSphericalBasis width {K}: R_{j}(r0) = R0_{j}')
            g.thm_eq(f'{n}_outer_c{j}', pv, ['r1'] + pv, f'{n}_c{j}', trees[n][j], ('var', c.vars.index(f'B{j}')), hyps=[('h01', 'r0 ≠ r1')],
                     what=f'DirichletBVPSphericalBasis width {K}: R_{j}(r1) = R1_{j}')
        n = f'basis1_w{K}'
        pv = [v for v in ctxs[n].vars if v != 'r']
        for j in range(K):
            c = ctxs[n]
            g.thm_eq(f'{n}_inner_c{j}', pv, ['r0'] + pv, f'{n}_c{j}', trees[n][j], ('var', c.vars.index(f'A{j}')),
                     what=f'one-sided DirichletBVPSphericalBasis width {K}: R_{j}(r0) = R0_{j}')
        n = f'basisinf_w{K}'
        pv = [v for v in ctxs[n].vars if v != 'r']
        for j in range(K):
            c = ctxs[n]
            g.thm_eq(f'{n}_inner_c{j}', pv, ['r0'] + pv, f'{n}_c{j}', trees[n][j], ('var', c.vars.index(f'A{j}')),
                     what=f'InfDirichletBVPSphericalBasis width {K}: R_{j}(r0) = R0_{j}')
            V = lambda s: ('var', c.vars.index(s))
            dr = ('add', V('r'), ('neg', V('r0')))
            ek = ('un', 'exp', ('mul', ('neg', V('k')), dr))
            th_ = ('un', 'tanh', dr)
            Nj = ('app', c.syms.index(f'N.{j}' if K > 1 else 'N'), (0,), (V('r'),))
            ref = ('add', ('add', ('mul', V(f'A{j}'), ek), ('mul', V(f'B{j}'), th_)), ('mul', ('mul', ek, th_), Nj))
            g.thm_eq(f'{n}_eq_ref_c{j}', ['r'] + pv, ['r'] + pv, f'{n}_c{j}', trees[n][j], ref,
                     what=f'InfDirichletBVPSphericalBasis column {j} equals the reference form (used by the limit theorem)')
    # operation-order model: the boundary values are reproduced EXACTLY in every arithmetic with the IEEE-754 identities
    from .. import fex as F
    specs = [('shell2_inner_exact', 'shell2', [('r', 'r0')], F.app_of('f', 'th', 'ph'), 'DirichletBVPSpherical: u(r0, theta, phi) is exactly f(theta, phi)'),
             ('shell2_outer_exact', 'shell2', [('r', 'r1')], F.app_of('g', 'th', 'ph'), 'DirichletBVPSpherical: u(r1, theta, phi) is exactly g(theta, phi)'),
             ('shell1_inner_exact', 'shell1', [('r', 'r0')], F.app_of('f', 'th', 'ph'), 'one-sided DirichletBVPSpherical: u(r0, theta, phi) is exactly f(theta, phi)'),
             ('inf_inner_exact', 'inf', [('r', 'r0')], F.app_of('f', 'th', 'ph'), 'InfDirichletBVPSpherical: u(r0, theta, phi) is exactly f(theta, phi)')]
    for K in widths:
        for j in range(K):
            specs += [(f'basis2_w{K}_inner_c{j}_exact', f'basis2_w{K}_c{j}', [('r', 'r0')], f'A{j}', f'DirichletBVPSphericalBasis width {K}: R_{j}(r0) is exactly R0_{j}'),
                      (f'basis2_w{K}_outer_c{j}_exact', f'basis2_w{K}_c{j}', [('r', 'r1')], f'B{j}', f'DirichletBVPSphericalBasis width {K}: R_{j}(r1) is exactly R1_{j}'),
                      (f'basis1_w{K}_inner_c{j}_exact', f'basis1_w{K}_c{j}', [('r', 'r0')], f'A{j}', f'one-sided DirichletBVPSphericalBasis width {K}: R_{j}(r0) is exactly R0_{j}'),
                      (f'basisinf_w{K}_inner_c{j}_exact', f'basisinf_w{K}_c{j}', [('r', 'r0')], f'A{j}', f'InfDirichletBVPSphericalBasis width {K}: R_{j}(r0) is exactly R0_{j}')]
    F.exact_part(g, PID, fnodes, fctxs, specs)
    return g, stats


STATIC = [('NdeVerif.Proofs.C11', 'NdeVerif.C11', ['inf_ref_tendsto', 'inf_limit', 'inf_limit_nonvacuous'])]

ASSUMPTIONS = [
    'theorems are over the reals; f, g are arbitrary symbols of (theta, phi); the limit theorem assumes a bounded network output along the ray',
    'coefficient-space variants are traced per width (quick: 1 and 3; thorough: 1, 2, 9, 25); every column is an obligation',
]


def search(seed, tier):
    import random, torch
    from neurodiffeq.conditions import (DirichletBVPSpherical, InfDirichletBVPSpherical,
                                        DirichletBVPSphericalBasis, InfDirichletBVPSphericalBasis)
    from neurodiffeq.networks import FCNN
    rng = random.Random(seed)
    found = []
    n = 4
    for it in range(40 if tier == 'quick' else 300):
        torch.manual_seed(rng.randrange(1 << 30))
        a, b = rng.uniform(-2, 2), rng.uniform(-2, 2)
        f = lambda th, ph: torch.sin(a * th) * torch.cos(ph) + b
        gg = lambda th, ph: torch.cos(b * th + ph) - a
        r0, r1 = rng.choice([rng.uniform(0, 3), rng.uniform(0, 3), 0.0, 0]), rng.choice([rng.uniform(0, 3), rng.uniform(0, 3), 0.0, 0])
        if it % 4 == 3:       # thin shells and microscopic balls: the conditions are exact for every r_0 != r_1, not only at scale 1
            r1 = r0 + rng.choice([1e-4, 1e-6, 1e-8, -1e-6, -1e-3])
        if r0 == r1:
            continue
        k = rng.uniform(0.05, 4)
        th = torch.rand(n, 1) * 3.1; ph = torch.rand(n, 1) * 6.2
        net = FCNN(3, 1, hidden_units=(8,))
        full = lambda v: torch.full((n, 1), float(v))

        def chk(case, got, want, **kw):
            if not torch.allclose(got.detach(), want.detach(), rtol=1e-7, atol=1e-7 * (1 + float(want.abs().max()))):
                found.append(dict(case=case, got=got.detach().reshape(-1).tolist(), want=want.detach().reshape(-1).tolist(), r0=r0, r1=r1, k=k, **kw))
        c = DirichletBVPSpherical(r0, f, r1, gg)
        chk('shell2_inner', c.enforce(net, full(r0), th, ph), f(th, ph)); chk('shell2_outer', c.enforce(net, full(r1), th, ph), gg(th, ph))
        c = DirichletBVPSpherical(r0, f)
        chk('shell1_inner', c.enforce(net, full(r0), th, ph), f(th, ph))
        c = InfDirichletBVPSpherical(r0, f, gg, order=k)
        chk('inf_inner', c.enforce(net, full(r0), th, ph), f(th, ph))
        far = c.enforce(net, full(r0 + 60 / min(k, 1.0)), th, ph)
        if not torch.allclose(far.detach(), gg(th, ph), atol=1e-6 * (1 + 10)):
            found.append(dict(case='inf_limit', r0=r0, k=k, got=far.detach().reshape(-1).tolist(), want=gg(th, ph).reshape(-1).tolist()))
        K = rng.choice([1, 4, 25])
        R0, R1 = torch.randn(K), torch.randn(K)
        netK = FCNN(1, K, hidden_units=(8,))
        c = DirichletBVPSphericalBasis(r0, R0, r1, R1)
        chk('basis2_inner', c.enforce(netK, full(r0)), R0.expand(n, K), K=K); chk('basis2_outer', c.enforce(netK, full(r1)), R1.expand(n, K), K=K)
        c = DirichletBVPSphericalBasis(r0, R0)
        chk('basis1_inner', c.enforce(netK, full(r0)), R0.expand(n, K), K=K)
        c = InfDirichletBVPSphericalBasis(r0, R0, R1, order=k)
        chk('basisinf_inner', c.enforce(netK, full(r0)), R0.expand(n, K), K=K)
        far = c.enforce(netK, full(r0 + 60 / min(k, 1.0)))
        if not torch.allclose(far.detach(), R1.expand(n, K), atol=1e-5):
            found.append(dict(case='basisinf_limit', r0=r0, k=k, K=K))
        if len(found) >= 3:
            break
    return found


def runtime_checks():
    """exact observations on the real code, every run: boundary data of very different magnitudes on the two radii, huge raw
    network outputs - the constrained values stay exact"""
    import torch
    from neurodiffeq.conditions import DirichletBVPSpherical, DirichletBVPSphericalBasis
    from neurodiffeq.networks import FCNN
    bad = []
    torch.manual_seed(5)
    n = 4
    th, ph = torch.rand(n, 1) * 3, torch.rand(n, 1) * 6
    full = lambda v: torch.full((n, 1), float(v))
    net = FCNN(3, 1, hidden_units=(6,))
    for fmag, gmag in ((1.0e15, 1.0), (1.0, 1.0e15), (3.0e9, -2.0e-6)):
        f = lambda a, b, m=fmag: m * (1 + 0.1 * torch.sin(a))
        g = lambda a, b, m=gmag: m * (1 + 0.1 * torch.cos(b))
        c = DirichletBVPSpherical(0.5, f, 2.0, g)
        for nm, r_, want in (('u(r_0) = f', 0.5, f(th, ph)), ('u(r_1) = g', 2.0, g(th, ph))):
            got = c.enforce(net, full(r_), th, ph).detach()
            if not torch.allclose(got, want, rtol=1e-13, atol=0):
                bad.append(dict(case='boundary data of very different magnitudes', f_scale=fmag, g_scale=gmag, violated=nm,
                                got=got.reshape(-1).tolist(), want=want.reshape(-1).tolist()))
        R0, R1 = torch.tensor([fmag, 1.0, -fmag]), torch.tensor([gmag, -2.0, gmag])
        cb = DirichletBVPSphericalBasis(0.5, R0, 2.0, R1)
        netK = FCNN(1, 3, hidden_units=(6,))
        for nm, r_, want in (('R(r_0) = R_0', 0.5, R0), ('R(r_1) = R_1', 2.0, R1)):
            got = cb.enforce(netK, full(r_)).detach()
            if not torch.allclose(got, want.expand(n, 3), rtol=1e-13, atol=0):
                bad.append(dict(case='coefficient data of very different magnitudes', violated=nm, got=got[0].tolist(), want=want.tolist()))
    # coefficient tables of whole numbers (integer tensors / float64 tables with a float32 network): radii are not rounded to the table's type
    for dt in (torch.int64, torch.int32, torch.float64, torch.float16):
        R0, R1 = torch.tensor([1, 0, -2]).to(dt), torch.tensor([0, 3, 1]).to(dt)
        from neurodiffeq.conditions import InfDirichletBVPSphericalBasis
        netK = FCNN(1, 3, hidden_units=(6,))
        for cname, cb, pts in (('DirichletBVPSphericalBasis', DirichletBVPSphericalBasis(0.5, R0, 2.5, R1), ((0.5, R0), (2.5, R1))),
                               ('DirichletBVPSphericalBasis (inner only)', DirichletBVPSphericalBasis(0.5, R0), ((0.5, R0),)),
                               ('InfDirichletBVPSphericalBasis', InfDirichletBVPSphericalBasis(0.5, R0, R1), ((0.5, R0), (1.0e6, R1)))):
            for r_, want in pts:
                try:
                    got = cb.enforce(netK, full(r_)).detach()
                    if not torch.allclose(got.double(), want.double().expand(n, 3), rtol=0, atol=2e-3 if dt == torch.float16 else 1e-6):
                        bad.append(dict(case='coefficient table of another dtype than the radii', condition=cname, dtype=str(dt), r=r_,
                                        violated='R(r) is not the table at that radius', got=got[0].tolist(), want=want.tolist()))
                except Exception as e:
                    bad.append(dict(case='coefficient table of another dtype than the radii', condition=cname, dtype=str(dt), r=r_, error=f'{type(e).__name__}: {e}'))
            # strictly between the radii the network output still matters (the constraint does not swallow the network)
            if 'inner' not in cname:
                a = cb.enforce(netK, full(1.3)).detach()
                with torch.no_grad():
                    for p_ in netK.parameters():
                        p_.add_(0.37)
                b = cb.enforce(netK, full(1.3)).detach()
                if torch.equal(a, b):
                    bad.append(dict(case='coefficient table of another dtype than the radii', condition=cname, dtype=str(dt), r=1.3,
                                    violated='between the radii the result does not depend on the network'))
    # a batch with exactly as many samples as there are coefficients (N = K): the table is still one row of K coefficients for EVERY sample;
    # and a table that is replaced on a live condition (after it has been evaluated) is the table that counts from then on
    from neurodiffeq.conditions import InfDirichletBVPSphericalBasis
    K = 3
    A, B, A2 = torch.tensor([1.0, -2.0, 0.5]), torch.tensor([0.25, 3.0, -1.0]), torch.tensor([7.0, 8.0, 9.0])
    netKK = FCNN(1, K, hidden_units=(6,))
    for rows in (K, 1, 2):
        rr = lambda v: torch.full((rows, 1), float(v))
        for cname, mk, pts in (('DirichletBVPSphericalBasis', lambda: DirichletBVPSphericalBasis(0.5, A.clone(), 2.0, B.clone()), ((0.5, 'R_0', A), (2.0, 'R_1', B))),
                               ('DirichletBVPSphericalBasis (inner only)', lambda: DirichletBVPSphericalBasis(0.5, A.clone()), ((0.5, 'R_0', A),)),
                               ('InfDirichletBVPSphericalBasis', lambda: InfDirichletBVPSphericalBasis(0.5, A.clone(), B.clone()), ((0.5, 'R_0', A),))):
            c = mk()
            for r_, attr, tab in pts:
                got = c.enforce(netKK, rr(r_)).detach()
                if tuple(got.shape) != (rows, K) or not torch.allclose(got, tab.expand(rows, K), rtol=0, atol=1e-6):
                    bad.append(dict(case='coefficient table on a batch of N samples', condition=cname, samples=rows, coefficients=K, r=r_,
                                    violated='every row is the table of K coefficients', got=got.tolist(), want=tab.tolist()))
            c.R_0 = A2.clone()
            got = c.enforce(netKK, rr(0.5)).detach()
            if not torch.allclose(got, A2.expand(rows, K), rtol=0, atol=1e-6):
                bad.append(dict(case='coefficient table replaced on a condition that has already been evaluated', condition=cname, samples=rows,
                                violated='the new table is not the one reproduced at r_0', got=got[0].tolist(), want=A2.tolist()))
    # thin shells far from the origin in single precision (radii representable in float32): both boundaries are reproduced to rounding
    import random as _r
    rr_ = _r.Random(3)
    for _ in range(12):
        r0 = float(torch.tensor(rr_.uniform(200.0, 3000.0), dtype=torch.float32))
        r1 = float(torch.tensor(r0 + rr_.uniform(0.2, 1.5), dtype=torch.float32))
        R0, R1 = torch.tensor([1.0, -2.0, 0.5]), torch.tensor([0.25, 3.0, -1.0])
        netK = FCNN(1, 3, hidden_units=(6,)).float()
        cb = DirichletBVPSphericalBasis(r0, R0, r1, R1)
        e0 = float((cb.enforce(netK, torch.full((n, 1), r0, dtype=torch.float32)).detach() - R0).abs().max())
        e1 = float((cb.enforce(netK, torch.full((n, 1), r1, dtype=torch.float32)).detach() - R1).abs().max())
        cs_ = DirichletBVPSpherical(r0, lambda a, b: 1.0 + torch.sin(a), r1, lambda a, b: torch.cos(b))
        net3f = FCNN(3, 1, hidden_units=(6,)).float()
        thf, phf = th.float(), ph.float()
        e2 = float((cs_.enforce(net3f, torch.full((n, 1), r1, dtype=torch.float32), thf, phf).detach() - torch.cos(phf)).abs().max())
        if max(e0, e1, e2) > 1e-5:
            bad.append(dict(case='thin shell far from the origin, float32', r_0=r0, r_1=r1, violated='boundary values not reproduced to rounding',
                            inner_error=e0, outer_error=e1, outer_error_physical=e2))
            break
    # an inner radius of exactly 0 (the centre of a ball): the prescribed data is f(theta, phi) for every direction, as at any other radius
    from neurodiffeq.conditions import InfDirichletBVPSpherical
    fa = lambda a, b: 1.0 + torch.sin(a) * torch.cos(b)
    ga = lambda a, b: 0.5 * torch.cos(a)
    net = FCNN(3, 1, hidden_units=(6,))
    for cname, c in (('DirichletBVPSpherical(r_0=0, r_1=2)', DirichletBVPSpherical(0.0, fa, 2.0, ga)), ('DirichletBVPSpherical(r_0=0)', DirichletBVPSpherical(0.0, fa)),
                     ('InfDirichletBVPSpherical(r_0=0)', InfDirichletBVPSpherical(0.0, fa, ga, order=1)), ('DirichletBVPSpherical(r_0=0.0 as int 0)', DirichletBVPSpherical(0, fa, 2, ga))):
        got = c.enforce(net, full(0.0), th, ph).detach()
        if not torch.allclose(got, fa(th, ph), rtol=0, atol=1e-6):
            bad.append(dict(case='inner radius exactly 0', condition=cname, violated='u(r_0, theta, phi) is not f(theta, phi)', got=got.reshape(-1).tolist(),
                            want=fa(th, ph).reshape(-1).tolist()))
    # a deep copy (what get_solution(copy=True) and checkpoints make) is a condition of its own: editing its radii moves ITS boundaries
    from copy import deepcopy
    R0, R1 = torch.tensor([1.0, -2.0, 0.5]), torch.tensor([0.25, 3.0, -1.0])
    netK = FCNN(1, 3, hidden_units=(6,))
    for cname, c, val0, val1, args in (('DirichletBVPSpherical', DirichletBVPSpherical(0.5, fa, 2.0, ga), fa(th, ph), ga(th, ph), (th, ph)),
                                       ('DirichletBVPSphericalBasis', DirichletBVPSphericalBasis(0.5, R0, 2.0, R1), R0.expand(n, 3), R1.expand(n, 3), ())):
        nn_ = net if args else netK
        c.enforce(nn_, full(0.5), *args)
        cc = deepcopy(c)
        cc.r_0, cc.r_1 = 0.75, 3.5
        for who, obj, r0_, r1_ in (('the copy (radii edited to 0.75, 3.5)', cc, 0.75, 3.5), ('the original (radii 0.5, 2.0)', c, 0.5, 2.0)):
            g0 = obj.enforce(nn_, full(r0_), *args).detach()
            g1 = obj.enforce(nn_, full(r1_), *args).detach()
            if not torch.allclose(g0, val0, rtol=0, atol=1e-6) or not torch.allclose(g1, val1, rtol=0, atol=1e-6):
                bad.append(dict(case='deep copy of a two-sided condition whose radii are then edited', condition=cname, object=who,
                                violated='the boundary values are not reproduced at this object\'s own radii',
                                inner_error=float((g0 - val0).abs().max()), outer_error=float((g1 - val1).abs().max())))
    # boundary callables that hand back one reused work buffer (each call overwrites what the previous call returned)
    buf = torch.zeros(n, 1)

    def fb(a, b):
        buf.copy_(1.0 + torch.sin(a) * torch.cos(b))
        return buf

    def gb(a, b):
        buf.copy_(0.5 * torch.cos(a))
        return buf
    for cname, c, pts in (('DirichletBVPSpherical', DirichletBVPSpherical(0.5, fb, 2.0, gb), ((0.5, fa), (2.0, ga))),
                          ('InfDirichletBVPSpherical', InfDirichletBVPSpherical(0.5, fb, gb, order=1), ((0.5, fa),))):
        for r_, ref in pts:
            got = c.enforce(net, full(r_), th, ph).detach().clone()
            if not torch.allclose(got, ref(th, ph), rtol=0, atol=1e-6):
                bad.append(dict(case='boundary functions that return one shared, reused buffer', condition=cname, r=r_, violated='boundary value not reproduced',
                                got=got.reshape(-1).tolist(), want=ref(th, ph).reshape(-1).tolist()))
    return bad


def check(tier, seed):
    from ..calcprop import check_calc
    return check_calc(sys.modules[__name__], tier, seed)
