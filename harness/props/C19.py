"""C19 — provided networks are pointwise maps with the requested architecture.

Engine A (translator): the real `Swish.forward`, `APTx.forward`, `SinActv.forward`, `MonomialNN.forward` are traced
with harness/sym.py and tied, by generated kernel-checked theorems (lean/NdeVerif/Gen/C19.lean), to the documented
formulas.  Engine B: Lean model NdeVerif.Model.Networks (constructors of FCNN / Resnet / MonomialNN, forward passes with
explicit weights, parameter table), theorems NdeVerif.Proofs.C19, correspondence with the real modules:
  * architecture: `[(type, in_features, out_features, bias)]` of the real module tree == the model's layer list,
    for random architectures, every legacy-argument combination and rejection paths (malformed sizes);
  * forward: real `net(x)` == the composition of the module's OWN weights, evaluated (a) by the Lean driver (model
    `fcnnForward` / `resnetForward` over Float; weights travel as IEEE bit patterns) and (b) in Python (tol 1e-10, float64);
  * rows: `net(x)[i]` vs `net(x[i:i+1])` (1e-12) and bit-for-bit invariance of row i when another row is perturbed;
  * activations / MonomialNN against the documented formulas, evaluated independently with `math`;
  * parameters registered iff `trainable=True` (real objects vs the model table).
"""
import itertools
import math
import os
import random
import struct
import sys
import traceback
import warnings

from ..runner import Report, kernel_phase, run_driver, split_blocks, LEAN, ROOT

PID = 'C19'
THEOREMS = ['buildLayers_eq_spec', 'fcnn_layers_shape', 'fcnn_linears_compatible', 'fcnn_layers_general', 'spec_getElem',
            'legacy_same', 'legacy_units_only', 'legacy_layers_only', 'legacy_ignored', 'default_hidden',
            'fcnnInit_hidden', 'fcnnInit_legacy', 'fcnnInit_negative_layers', 'fcnnInit_raises_iff',
            'resnet_layers', 'resnet_legacy_default_ignored', 'resnet_legacy_explicit_none',
            'forward_rowwise', 'forward_length', 'forward_row_indep', 'forward_single', 'resnet_forward_rowwise',
            'resnet_forward_row_indep', 'forward_shape', 'resnet_forward_shape',
            'monomialRow_length', 'monomial_eq', 'monomial_eq_real', 'monomial_forward_rowwise', 'monomialInit_int',
            'monomialInit_raises', 'sigmoid_eq', 'swish_eq', 'aptx_eq', 'aptx_default', 'sinactv_eq', 'swish_gen_form',
            'trainable_iff', 'trainable_names']
LEAN_FWD_MAX_WEIGHTS = 20000    # networks with at most this many scalars are evaluated by the Lean driver (all in range)
TOL = 1e-10
TOL_ROW = 1e-12


# ================================================================================================================
#  Engine A: traced activations
# ================================================================================================================

def _shadow(m, name, val):
    """make `m.<name>` evaluate to the symbolic parameter without touching the registered nn.Parameter
    (instance __dict__ wins over nn.Module.__getattr__)"""
    object.__setattr__(m, name, val)


def _act_scenario(cls, trainable, names):
    """scenario: `cls(<params>, trainable).forward` on a 2-column input.  In the symbolic world the module is built by
    its real constructor with default values and the attributes the forward method reads are then shadowed by symbolic
    parameters; in the real world the real constructor gets the sampled values (and the real forward runs)."""
    def scen(w):
        import torch
        x = torch.cat([w.coord('x0', -10, 10), w.coord('x1', -10, 10)], dim=1)
        vals = {n: w.param(n, -3, 3) for n in names}
        if w.symbolic:
            m = cls(trainable=trainable) if names else cls()
            for n in names:
                _shadow(m, n, vals[n])
        else:
            m = cls(**vals, trainable=trainable) if names else cls()
        return m(x)
    return scen


def generate(seeds=(1, 2, 3), tier='quick'):
    from ..world import tie_check
    from ..leangen import GenFile
    from neurodiffeq.networks import Swish, APTx, SinActv, MonomialNN
    g = GenFile(PID)
    stats = {}

    def trace(name, scen):
        sw, outs, st = tie_check(scen, seeds)
        stats[name] = st
        trees = [sw.tree(outs[0], j) for j in range(len(outs[0].cols))]
        for j, t in enumerate(trees):
            g.add_def(f'{name}_c{j}', t, f'traced from /repo: {name}, output column {j}; variables {sw.ctx.vars}')
        return sw.ctx, trees

    for tr in (False, True):
        tag = 'trainable' if tr else 'fixed'
        ctx, trees = trace(f'swish_{tag}', _act_scenario(Swish, tr, ['beta']))
        V = lambda s: ('var', ctx.vars.index(s))
        for j, t in enumerate(trees):
            x = V(f'x{j}')
            ref = ('mul', x, ('inv', ('add', ('nat', 1), ('un', 'exp', ('neg', ('mul', V('beta'), x))))))
            g.thm_eq(f'swish_{tag}_c{j}_eq', list(ctx.vars), list(ctx.vars), f'swish_{tag}_c{j}', t, ref,
                     what=f'Swish(beta, trainable={tr}).forward, column {j}: x / (1 + exp(-beta x)) for all real x, beta '
                          f'(a function of column {j} alone)')
        ctx, trees = trace(f'aptx_{tag}', _act_scenario(APTx, tr, ['alpha', 'beta', 'gamma']))
        V = lambda s: ('var', ctx.vars.index(s))
        for j, t in enumerate(trees):
            x = V(f'x{j}')
            ref = ('mul', ('add', V('alpha'), ('un', 'tanh', ('mul', V('beta'), x))), ('mul', V('gamma'), x))
            g.thm_eq(f'aptx_{tag}_c{j}_eq', list(ctx.vars), list(ctx.vars), f'aptx_{tag}_c{j}', t, ref,
                     what=f'APTx(alpha, beta, gamma, trainable={tr}).forward, column {j}: (alpha + tanh(beta x)) (gamma x)')
    ctx, trees = trace('sinactv', _act_scenario(SinActv, False, []))
    for j, t in enumerate(trees):
        g.thm_eq(f'sinactv_c{j}_eq', list(ctx.vars), list(ctx.vars), f'sinactv_c{j}', t, ('un', 'sin', ('var', ctx.vars.index(f'x{j}'))),
                 what=f'SinActv.forward, column {j}: sin x')

    degree_args = [3, [1, 3, 2]] if tier == 'quick' else [1, 3, 6, [1, 3, 2], (2,), [0, 2, 2, 5], (4, 1), [7, 3, 1, 2]]
    for da in degree_args:
        name = 'mono_' + (f'int{da}' if isinstance(da, int) else 'd' + '_'.join(str(d) for d in da))
        degs = list(range(1, da + 1)) if isinstance(da, int) else list(da)

        def scen(w, da=da):
            import torch
            x = torch.cat([w.coord('x0', -10, 10), w.coord('x1', -10, 10)], dim=1)
            with warnings.catch_warnings():
                warnings.simplefilter('ignore')
                return MonomialNN(da)(x)
        ctx, trees = trace(name, scen)
        m = 2
        if len(trees) != m * len(degs):
            raise AssertionError(dict(what='MonomialNN output width', got=len(trees), want=m * len(degs), degrees=da))
        for k, d in enumerate(degs):
            for i in range(m):
                c = k * m + i
                g.thm_eq(f'{name}_c{c}_eq', list(ctx.vars), list(ctx.vars), f'{name}_c{c}', trees[c],
                         ('pow', ('var', ctx.vars.index(f'x{i}')), d),
                         what=f'MonomialNN({da}).forward: output column {c} = (input column {i}) ^ {d}  (degree index {k})')
    return g, stats


# ================================================================================================================
#  Engine B: real side
# ================================================================================================================

def f2b(x):
    return struct.unpack('<Q', struct.pack('<d', float(x)))[0]


def b2f(s):
    return struct.unpack('<d', struct.pack('<Q', int(s)))[0]


ACTS = ['tanh', 'sin', 'swish', 'swish_t', 'aptx', 'aptx_t']


def make_actv(spec):
    """spec = (name, params) -> the `actv` constructor argument (a class or a zero-argument factory)"""
    import torch.nn as nn
    from neurodiffeq.networks import SinActv, Swish, APTx
    name, ps = spec
    if name == 'tanh':
        return nn.Tanh
    if name == 'sin':
        return SinActv
    if name in ('swish', 'swish_t'):
        return lambda: Swish(beta=ps[0], trainable=name.endswith('_t'))
    if name in ('aptx', 'aptx_t'):
        return lambda: APTx(alpha=ps[0], beta=ps[1], gamma=ps[2], trainable=name.endswith('_t'))
    raise ValueError(name)


def act_class(name):
    import torch.nn as nn
    from neurodiffeq.networks import SinActv, Swish, APTx
    return dict(tanh=nn.Tanh, sin=SinActv, swish=Swish, swish_t=Swish, aptx=APTx, aptx_t=APTx)[name]


def build_real(case):
    """construct the real network of an architecture case (warnings suppressed); raises what the constructor raises"""
    from neurodiffeq.networks import FCNN, Resnet
    kw = dict(n_input_units=case['n_in'], n_output_units=case['n_out'])
    if case['nHU'] is not None:
        kw['n_hidden_units'] = case['nHU']
    if case['nHL'] is not None:
        kw['n_hidden_layers'] = case['nHL']
    h = case['hidden']
    if h == 'omit':
        pass
    elif h is None:
        kw['hidden_units'] = None
    else:
        kw['hidden_units'] = list(h) if case.get('as_list') else tuple(h)
    kw['actv'] = make_actv(case['act'])
    with warnings.catch_warnings():
        warnings.simplefilter('ignore')
        return (FCNN if case['kind'] == 'fcnn' else Resnet)(**kw)


def describe_seq(seq):
    """[(type name, in_features, out_features, bias is not None)] of a torch.nn.Sequential"""
    import torch.nn as nn
    out = []
    for m in seq:
        if isinstance(m, nn.Linear):
            out.append(('Linear', m.in_features, m.out_features, m.bias is not None))
        else:
            out.append((type(m).__name__, None, None, None))
    return out


def canon_real_arch(net, kind):
    import torch.nn as nn
    lines = []
    if kind == 'resnet':
        children = [n for n, _ in net.named_children()]
        if children != ['residual', 'skip_connection'] or not isinstance(net.skip_connection, nn.Linear):
            return [f'unexpected-children {children}']
        s = net.skip_connection
        lines.append(f'skip L {s.in_features} {s.out_features} {int(s.bias is not None)}')
        seq = net.residual.NN
    else:
        children = [n for n, _ in net.named_children()]
        if children != ['NN']:
            return [f'unexpected-children {children}']
        seq = net.NN
    for t, i, o, b in describe_seq(seq):
        lines.append(f'L {i} {o} {int(b)}' if t == 'Linear' else 'A')
    return lines


def init_line(case):
    def opt(v):
        return '-' if v is None else str(v)
    h = case['hidden']
    hs = 'omit' if h == 'omit' else '-' if h is None else '()' if len(h) == 0 else ','.join(str(v) for v in h)
    return f'init {case["kind"]} {case["n_in"]} {case["n_out"]} {opt(case["nHU"])} {opt(case["nHL"])} {hs}'


def expected_arch(case):
    """the PROPERTY, independent of the model: the architecture the caller asked for.
    Returns (skip or None, [('Linear', i, o, True) | ('act',)]) or 'raise' (some size negative), or None when the
    property statement does not fix the expectation (handled by the caller)."""
    h = case['hidden']
    nHU, nHL = case['nHU'], case['nHL']
    if h == 'omit':
        h = None if case['kind'] == 'fcnn' else (32, 32)      # documented defaults
    if h is None:
        if nHU is None and nHL is None:
            h = (32, 32)
        else:
            # documented replacement of the deprecated arguments: hidden_units = (n_hidden_units,) * (n_hidden_layers + 1)
            hu = 32 if nHU is None else nHU
            hl = 1 if nHL is None else nHL
            h = (hu,) * max(hl + 1, 0)
    h = tuple(h)
    if any(v < 0 for v in (case['n_in'], case['n_out']) + h):
        return 'raise'
    units = (case['n_in'],) + h
    layers = []
    for a, b in zip(units, units[1:]):
        layers += [('Linear', a, b, True), ('act',)]
    layers.append(('Linear', units[-1], case['n_out'], True))
    skip = ('Linear', case['n_in'], case['n_out'], False) if case['kind'] == 'resnet' else None
    return skip, layers


def arch_property(case, net):
    """evaluate the architecture clause on the real object; returns None or a description of the violation"""
    import torch.nn as nn
    exp = expected_arch(case)
    if exp == 'raise':
        return 'constructor accepted a negative size'
    skip, layers = exp
    seq = net.NN if case['kind'] == 'fcnn' else net.residual.NN
    got = describe_seq(seq)
    cls = act_class(case['act'][0])
    want = [l if l[0] == 'Linear' else (cls.__name__, None, None, None) for l in layers]
    if got != want:
        return f'layers {got} != requested {want}'
    for m in seq:
        if not isinstance(m, nn.Linear) and type(m) is not cls:
            return f'activation module {type(m)} is not the requested {cls}'
    if case['kind'] == 'resnet':
        s = net.skip_connection
        if (s.in_features, s.out_features, s.bias is not None) != (skip[1], skip[2], False):
            return f'skip connection {s} is not a bias-free Linear({skip[1]}, {skip[2]})'
    return None


# ---- forward ---------------------------------------------------------------------------------------------------

def act_params(m):
    """(name, [own parameter values]) of a real activation module"""
    import torch.nn as nn
    from neurodiffeq.networks import SinActv, Swish, APTx
    if isinstance(m, nn.Tanh):
        return 'tanh', []
    if isinstance(m, SinActv):
        return 'sin', []
    if isinstance(m, Swish):
        return 'swish', [float(m.beta)]
    if isinstance(m, APTx):
        return 'aptx', [float(m.alpha), float(m.beta), float(m.gamma)]
    raise ValueError(type(m))


def act_formula(name, ps, y):
    """documented formulas, written with torch elementwise primitives (used for the whole-network composition)"""
    import torch
    if name == 'tanh':
        return torch.tanh(y)
    if name == 'sin':
        return torch.sin(y)
    if name == 'swish':
        return y / (1 + torch.exp(-ps[0] * y))
    if name == 'aptx':
        return (ps[0] + torch.tanh(ps[1] * y)) * ps[2] * y
    raise ValueError(name)


def act_formula_scalar(name, ps, v):
    """documented formulas on one Python float with `math` only (independent of torch)"""
    if name == 'tanh':
        return math.tanh(v)
    if name == 'sin':
        return math.sin(v)
    if name == 'swish':
        return v / (1 + math.exp(-ps[0] * v))
    if name == 'aptx':
        return (ps[0] + math.tanh(ps[1] * v)) * (ps[2] * v)
    raise ValueError(name)


def explicit_forward(net, kind, x):
    """composition of the module's own weights, layer by layer"""
    import torch.nn as nn
    seq = net.NN if kind == 'fcnn' else net.residual.NN
    y = x
    for m in seq:
        if isinstance(m, nn.Linear):
            y = y @ m.weight.detach().T + (m.bias.detach() if m.bias is not None else 0)
        else:
            y = act_formula(*act_params(m), y)
    if kind == 'resnet':
        y = x @ net.skip_connection.weight.detach().T + y
    return y


def n_scalars(net):
    return sum(p.numel() for p in net.parameters())


def fwd_block(net, kind, x):
    import torch.nn as nn

    def rows(W):
        return ';'.join(' '.join(str(f2b(v)) for v in r) for r in W.tolist())
    lines = [f'fwd {kind}']
    if kind == 'resnet':
        lines.append('S ' + rows(net.skip_connection.weight.detach()))
    seq = net.NN if kind == 'fcnn' else net.residual.NN
    for m in seq:
        if isinstance(m, nn.Linear):
            l = 'L ' + rows(m.weight.detach())
            if m.bias is not None:
                l += '|' + ' '.join(str(f2b(v)) for v in m.bias.detach().tolist())
            lines.append(l)
        else:
            name, ps = act_params(m)
            lines.append(' '.join(['A', name] + [str(f2b(p)) for p in ps]))
    for r in x.tolist():
        lines.append('X ' + ' '.join(str(f2b(v)) for v in r))
    return '\n'.join(lines + ['---'])


def parse_Y(block):
    return [[b2f(t) for t in l.split()[1:]] for l in block if l.startswith('Y')]


def close(a, b, tol):
    return abs(a - b) <= tol * (1.0 + abs(b))


def max_err(A, B):
    """max over entries of |a-b|/(1+|b|) for nested lists of equal shape; inf when shapes differ"""
    if len(A) != len(B):
        return float('inf')
    e = 0.0
    for ra, rb in zip(A, B):
        if len(ra) != len(rb):
            return float('inf')
        for a, b in zip(ra, rb):
            d = abs(a - b) / (1.0 + abs(b))
            if not d <= e:       # also catches nan
                e = d if d == d else float('inf')
    return e


def forward_property(case, net, x, y):
    """pointwise clause on the real object: shape, row-by-row evaluation, bitwise independence of other rows.
    `case['perturb']` = (row j, replacement row)."""
    import torch
    n = x.shape[0]
    if tuple(y.shape) != (n, case['n_out']):
        return f'output shape {tuple(y.shape)} != ({n}, {case["n_out"]})'
    with torch.no_grad():
        for i in range(n):
            yi = net(x[i:i + 1])
            if tuple(yi.shape) != (1, case['n_out']):
                return f'single-row output shape {tuple(yi.shape)}'
            e = max_err([yi[0].tolist()], [y[i].tolist()])
            if not e <= TOL_ROW:
                return f'row {i}: net(x)[{i}] differs from net(x[{i}:{i + 1}]) by {e:.3e}'
        j, newrow = case['perturb']
        x2 = x.clone()
        x2[j] = torch.tensor(newrow, dtype=x.dtype)
        y2 = net(x2)
        for i in range(n):
            if i != j and not torch.equal(y2[i], y[i]):
                return f'perturbing input row {j} changed output row {i}'
    return None


# ================================================================================================================
#  case generators
# ================================================================================================================

def rand_act(rng, name=None):
    name = name or rng.choice(ACTS)
    if name.startswith('swish'):
        return (name, [rng.choice([round(rng.uniform(-3, 3), 3)] * 3 + [0.0, 1.0])])   # incl. the edge values beta = 0, 1
    if name.startswith('aptx'):
        e = lambda lo, hi: rng.choice([round(rng.uniform(lo, hi), 3)] * 3 + [0.0, 1.0])
        return (name, [e(-2, 2), e(-3, 3), e(-2, 2)])
    return (name, [])


def arch_cases(tier, rng):
    cases = []
    n_rand = 40 if tier == 'quick' else 1000
    # boundary architectures first: no hidden layer, widest / deepest
    fixed = [(1, 1, ()), (5, 5, (64, 64, 64, 64)), (3, 2, (1,)), (2, 4, (64, 1, 64)), (1, 5, (1, 1, 1, 1))]
    for k in range(n_rand):
        if k < len(fixed):
            n_in, n_out, h = fixed[k]
        else:
            n_in, n_out = rng.randint(1, 5), rng.randint(1, 5)
            h = tuple(rng.choice([rng.randint(1, 8), rng.randint(1, 64)]) for _ in range(rng.randint(0, 4)))
        cases.append(dict(stream='random', kind=rng.choice(['fcnn', 'resnet']), n_in=n_in, n_out=n_out, nHU=None, nHL=None,
                          hidden=h, as_list=rng.random() < 0.3, act=rand_act(rng)))
    # legacy-argument combinations: (n_hidden_units given?) x (n_hidden_layers given?) x (hidden_units: omitted/None/tuple)
    legacy = []
    hus = [None, 1, 7, 64] if tier == 'thorough' else [None, rng.choice([1, 7, 64])]
    hls = [None, 0, 1, 3] if tier == 'thorough' else [None, rng.choice([0, 1, 3])]
    for kind in ('fcnn', 'resnet'):
        for hu, hl, h in itertools.product(hus, hls, ['omit', None, (), (5, 9)]):
            legacy.append(dict(stream='legacy', kind=kind, n_in=rng.randint(1, 5), n_out=rng.randint(1, 5), nHU=hu, nHL=hl,
                               hidden=h, as_list=False, act=('tanh', [])))
    cases += legacy
    # rejection paths / degenerate sizes
    bad = [dict(n_in=2, n_out=3, nHU=None, nHL=None, hidden=(4, -1)), dict(n_in=2, n_out=3, nHU=-5, nHL=None, hidden=None),
           dict(n_in=-1, n_out=3, nHU=None, nHL=None, hidden=(4,)), dict(n_in=2, n_out=-2, nHU=None, nHL=None, hidden=()),
           dict(n_in=2, n_out=3, nHU=5, nHL=-1, hidden=None), dict(n_in=2, n_out=3, nHU=5, nHL=-4, hidden=None),
           dict(n_in=2, n_out=3, nHU=None, nHL=-1, hidden=None), dict(n_in=2, n_out=3, nHU=-5, nHL=-1, hidden=None),
           dict(n_in=2, n_out=3, nHU=-5, nHL=2, hidden=(3,)), dict(n_in=2, n_out=3, nHU=None, nHL=None, hidden=(4, 0, 2)),
           dict(n_in=0, n_out=3, nHU=None, nHL=None, hidden=(2,)), dict(n_in=2, n_out=0, nHU=None, nHL=None, hidden=(2,)),
           dict(n_in=2, n_out=3, nHU=0, nHL=2, hidden=None)]
    for b in bad:
        for kind in ('fcnn', 'resnet'):
            cases.append(dict(stream='malformed', kind=kind, as_list=False, act=('tanh', []), **b))
    return cases


def forward_cases(tier, rng, arch):
    """the valid random architectures, each with a batch; a few extra tiny ones so that every activation is also
    evaluated by the Lean driver"""
    out = []
    for c in arch:
        if c['stream'] != 'random':
            continue
        n = rng.choice([1, 2, 3, 7, 20, 65])
        out.append(dict(c, n=n, xseed=rng.randrange(1 << 30)))
    for name in ACTS:
        for kind in ('fcnn', 'resnet'):
            act = rand_act(rng, name)
            out.append(dict(stream='tiny', kind=kind, n_in=rng.randint(1, 5), n_out=rng.randint(1, 5), nHU=None, nHL=None,
                            hidden=tuple(rng.randint(1, 6) for _ in range(rng.randint(1, 3))), as_list=False, act=act,
                            n=rng.choice([1, 4, 9]), xseed=rng.randrange(1 << 30)))
    return out


def activation_cases(tier, rng):
    out = []
    for _ in range(12 if tier == 'quick' else 200):
        act = rand_act(rng)
        if rng.random() < 0.2 and act[1]:
            act = (act[0], [rng.choice([0.0, 1.0, -1.0, 0.5]) for _ in act[1]])
        n, k = rng.randint(1, 12), rng.randint(1, 5)
        xs = [[rng.choice([rng.uniform(-10, 10), rng.uniform(-1, 1), rng.choice([-10.0, 0.0, 10.0])]) for _ in range(k)] for _ in range(n)]
        out.append(dict(act=act, x=xs))
    return out


def monomial_cases(tier, rng):
    out = []
    fixed = [3, 1, 0, -2, [], (), [1, 3, 2], (2,), [0, 2, 2, 5], [0], (6, 1)]
    for d in fixed:
        out.append(d)
    for _ in range(6 if tier == 'quick' else 120):
        if rng.random() < 0.4:
            out.append(rng.randint(-1, 7))
        else:
            out.append([rng.randint(0, 7) for _ in range(rng.randint(1, 5))])
    cases = []
    for d in out:
        n, k = rng.randint(1, 8), rng.randint(1, 4)
        xs = [[rng.choice([rng.uniform(-10, 10), rng.uniform(-1.5, 1.5), rng.choice([-10.0, 0.0, 10.0])]) for _ in range(k)] for _ in range(n)]
        cases.append(dict(degrees=d, as_tuple=isinstance(d, tuple), x=xs))
    return cases


# ================================================================================================================
#  streams
# ================================================================================================================

def _f64():
    """the carrier of the quantifier is float64 (as in harness/world.py)"""
    import torch
    torch.set_default_dtype(torch.float64)


def run_arch(cases):
    """real side of the architecture stream -> (driver blocks, real canonical lines, property failures)"""
    blocks, reals, failing = [], [], []
    for c in cases:
        try:
            net = build_real(c)
            lines = canon_real_arch(net, c['kind'])
            bad = arch_property(c, net)
        except Exception as e:
            net = None
            lines = ['raise']
            bad = None if expected_arch(c) == 'raise' else f'constructor raised {type(e).__name__}: {e}'
            c = dict(c, raised=f'{type(e).__name__}: {str(e)[:80]}')
        if bad:
            failing.append(dict(stream='architecture', case=c, violated=bad))
        # legacy clause, on real objects: FCNN(legacy arguments) has the architecture of FCNN(hidden_units=replacement)
        if net is not None and c['kind'] == 'fcnn' and c['hidden'] in ('omit', None) and (c['nHU'] is not None or c['nHL'] is not None):
            hu = 32 if c['nHU'] is None else c['nHU']
            hl = 1 if c['nHL'] is None else c['nHL']
            try:
                twin = build_real(dict(c, nHU=None, nHL=None, hidden=(hu,) * max(hl + 1, 0)))
                if describe_seq(twin.NN) != describe_seq(net.NN):
                    failing.append(dict(stream='legacy', case=c, violated=f'FCNN(n_hidden_units={c["nHU"]}, n_hidden_layers={c["nHL"]}) '
                                        f'{describe_seq(net.NN)} != FCNN(hidden_units={(hu,) * max(hl + 1, 0)}) {describe_seq(twin.NN)}'))
            except Exception as e:
                failing.append(dict(stream='legacy', case=c, violated=f'replacement raised {type(e).__name__}: {e}'))
        blocks.append(init_line(c) + '\n---')
        reals.append((c, lines))
    return blocks, reals, failing


def run_forward(cases):
    import torch
    blocks, recs, failing, mism = [], [], [], []
    worst_py = 0.0
    for c in cases:
        g = torch.Generator().manual_seed(c['xseed'])
        torch.manual_seed(c['xseed'] ^ 0x5bd1e995)
        try:
            net = build_real(c).double()
            x = (torch.rand(c['n'], c['n_in'], generator=g, dtype=torch.float64) * 20 - 10)
            j = int(torch.randint(0, c['n'], (1,), generator=g))
            c = dict(c, perturb=(j, (torch.rand(c['n_in'], generator=g, dtype=torch.float64) * 20 - 10).tolist()))
            with torch.no_grad():
                y = net(x)
                ye = explicit_forward(net, c['kind'], x)
            bad = forward_property(c, net, x, y)
        except Exception as e:
            failing.append(dict(stream='forward', case=c, violated=f'{type(e).__name__}: {e}', where=traceback.format_exc()[-600:]))
            continue
        if bad:
            failing.append(dict(stream='forward', case=c, violated=bad))
        e = max_err(ye.tolist(), y.tolist())
        worst_py = max(worst_py, e)
        if not e <= TOL:
            failing.append(dict(stream='forward', case=c, violated=f'net(x) differs from the composition of its own weights '
                                f'(documented activation formulas) by {e:.3e}'))
        to_lean = n_scalars(net) <= LEAN_FWD_MAX_WEIGHTS
        if to_lean:
            blocks.append(fwd_block(net, c['kind'], x))
        recs.append((c, y.tolist(), to_lean, n_scalars(net)))
    return blocks, recs, failing, worst_py


def run_activations(cases):
    """standalone activation modules against the documented formulas (math) and as a one-module 'network' for Lean"""
    import torch
    blocks, recs, failing = [], [], []
    worst = 0.0
    for c in cases:
        name, ps = c['act']
        try:
            m = make_actv(c['act'])()
            x = torch.tensor(c['x'], dtype=torch.float64)
            with torch.no_grad():
                y = m(x)
            yl = y.tolist()
            base, own = act_params(m)
            if own != [float(p) for p in ps]:
                failing.append(dict(stream='activation', case=c, violated=f'stored parameters {own} != requested {ps}'))
            want = [[act_formula_scalar(base, ps, v) for v in r] for r in c['x']]
            e = max_err(yl, want) if tuple(y.shape) == tuple(x.shape) else float('inf')
            worst = max(worst, e)
            if not e <= TOL_ROW * 10:
                failing.append(dict(stream='activation', case=c, violated=f'{type(m).__name__}{tuple(ps)} differs from its documented '
                                    f'formula by {e:.3e} (or changes the shape: {tuple(y.shape)})'))
        except Exception as e:
            failing.append(dict(stream='activation', case=c, violated=f'{type(e).__name__}: {e}'))
            continue
        lines = ['fwd fcnn', ' '.join(['A', base] + [str(f2b(p)) for p in own])]
        lines += ['X ' + ' '.join(str(f2b(v)) for v in r) for r in c['x']]
        blocks.append('\n'.join(lines + ['---']))
        recs.append((c, yl))
    return blocks, recs, failing, worst


def run_monomial(cases):
    import torch
    from neurodiffeq.networks import MonomialNN
    blocks, recs, failing = [], [], []
    for c in cases:
        d = c['degrees']
        arg = d if isinstance(d, int) else (tuple(d) if c['as_tuple'] else list(d))
        degs = list(range(1, d + 1)) if isinstance(d, int) else list(d)
        x = torch.tensor(c['x'], dtype=torch.float64)
        try:
            with warnings.catch_warnings():
                warnings.simplefilter('ignore')
                m = MonomialNN(arg)
            y = m(x)
            real = ['D ' + ','.join(str(v) for v in m.degrees)]
            yl = y.tolist()
            k = x.shape[1]
            if not degs:
                failing.append(dict(stream='monomial', case=c, violated='empty degree list accepted'))
            elif tuple(y.shape) != (x.shape[0], k * len(degs)):
                failing.append(dict(stream='monomial', case=c, violated=f'shape {tuple(y.shape)} != ({x.shape[0]}, {k * len(degs)})'))
            else:
                want = [[r[i] ** dd for dd in degs for i in range(k)] for r in c['x']]
                e = max_err(yl, want)
                if not e <= 1e-12:
                    failing.append(dict(stream='monomial', case=c, violated=f'output differs from x_i ** d_k in column order (k*m+i) by {e:.3e}'))
        except ValueError as e:
            real, yl = ['raise'], []
            if degs:
                failing.append(dict(stream='monomial', case=c, violated=f'ValueError for non-empty degrees: {e}'))
        except Exception as e:
            failing.append(dict(stream='monomial', case=c, violated=f'{type(e).__name__}: {e}'))
            continue
        head = f'mono int {d}' if isinstance(d, int) else 'mono list ' + ('()' if not d else ','.join(str(v) for v in d))
        blocks.append('\n'.join([head] + ['X ' + ' '.join(str(f2b(v)) for v in r) for r in c['x']] + ['---']))
        recs.append((c, real, yl))
    return blocks, recs, failing


PARAM_TABLE = [('tanh', []), ('sin', []), ('swish', ['beta']), ('aptx', ['alpha', 'beta', 'gamma'])]


def param_cases(rng):
    return [dict(kind=kind, trainable=tr, values={h: rng.choice([round(rng.uniform(-3, 3), 3)] * 3 + [0.0, 1.0]) for h in hyper})
            for kind, hyper in PARAM_TABLE for tr in (False, True)]


def run_params(cases):
    """trainable clause on the real objects -> (driver blocks, real canonical lines, failures)"""
    import torch
    import torch.nn as nn
    from neurodiffeq.networks import FCNN
    blocks, reals, failing = [], [], []
    for case in cases:
        kind, tr, vals = case['kind'], case['trainable'], case['values']
        cls, hyper = act_class(kind), dict(PARAM_TABLE)[kind]
        # nn.Tanh and SinActv have no `trainable` argument: both rows of the model table are compared with the same object
        m = cls(**vals, trainable=tr) if hyper else cls()
        names = [n for n, _ in m.named_parameters()]
        want = hyper if (tr and hyper) else []
        if names != want:
            failing.append(dict(stream='trainable', case=case, violated=f'registered parameters {names} != {want}'))
        for n, p in m.named_parameters():
            if not (isinstance(p, nn.Parameter) and p.requires_grad and p.shape == () and abs(float(p) - vals[n]) < 1e-15):
                failing.append(dict(stream='trainable', case=case, violated=f'parameter {n}: {p!r} (requested {vals[n]})'))
        for h in hyper:
            a = getattr(m, h)
            if not tr and (isinstance(a, torch.Tensor) or a != vals[h]):
                failing.append(dict(stream='trainable', case=case, violated=f'attribute {h} = {a!r} although trainable=False'))
        if hyper:
            # gradient reaches the parameters iff trainable; inside an FCNN every activation instance owns its parameters
            net = FCNN(2, 1, hidden_units=(3, 3), actv=lambda: cls(**vals, trainable=tr)).double()
            extra = [n for n, _ in net.named_parameters() if not n.endswith(('weight', 'bias'))]
            wantx = [f'NN.{i}.{h}' for i in (1, 3) for h in hyper] if tr else []
            if extra != wantx:
                failing.append(dict(stream='trainable', case=case, violated=f'FCNN parameters {extra} != {wantx}'))
            net(torch.ones(2, 2, dtype=torch.float64)).sum().backward()
            if tr and any(p.grad is None for n, p in net.named_parameters() if n in extra):
                failing.append(dict(stream='trainable', case=case, violated='no gradient reaches a trainable activation parameter'))
        blocks.append(f'params {kind} {int(tr)}\n---')
        reals.append((case, 'P ' + ','.join(names)))
    return blocks, reals, failing


# ================================================================================================================
#  the check
# ================================================================================================================

def argument_reuse_checks():
    """the requested architecture does not depend on what was built before from the same argument objects: one `hidden_units` list
    (or one-shot iterator source) used for several networks, which must all get exactly the requested layers and leave the list alone"""
    import torch
    from neurodiffeq.networks import FCNN, Resnet
    bad = []

    def widths(net):
        return [(m.in_features, m.out_features) for m in net.NN if isinstance(m, torch.nn.Linear)]
    for cls in (FCNN, Resnet):
        hu = [5, 7]
        nets = [cls(2, 3, hidden_units=hu) for _ in range(3)]
        target = nets if cls is FCNN else [n.residual for n in nets]
        want = [(2, 5), (5, 7), (7, 3)]
        got = [widths(n) for n in target]
        if hu != [5, 7] or any(g != want for g in got):
            bad.append(dict(case='one hidden_units list used for several networks', cls=cls.__name__, list_after=hu, layers=got, want=want,
                            violated=['architecture differs from the requested hidden layers / the caller\'s list was modified']))
    # activations / feature maps are functions of their CURRENT parameters and of the degrees given at construction
    import numpy as np
    from neurodiffeq.networks import Swish, MonomialNN
    xx = torch.tensor([[-1.5], [0.25], [2.0]], dtype=torch.get_default_dtype())
    try:
        for start in (1.0, 0.5):
            sw = Swish(beta=start, trainable=True)
            out = sw(xx).sum()
            g, = torch.autograd.grad(out, sw.beta, allow_unused=True)
            with torch.no_grad():
                sw.beta.fill_(2.0)
            got = sw(xx).detach()
            sw2 = Swish(beta=start, trainable=True)
            sw2.load_state_dict({'beta': torch.tensor(3.0)})
            got2 = sw2(xx).detach()
            if g is None or float(g.abs()) == 0.0 or not torch.allclose(got, xx * torch.sigmoid(2.0 * xx), rtol=1e-6, atol=1e-7) \
                    or not torch.allclose(got2, xx * torch.sigmoid(3.0 * xx), rtol=1e-6, atol=1e-7):
                bad.append(dict(case='Swish with a trainable beta', initial_beta=start, gradient_wrt_beta=None if g is None else float(g),
                                violated=['the output is not x * sigmoid(beta x) for the current beta (after fill_ / load_state_dict), or beta receives no gradient']))
    except Exception as e:
        bad.append(dict(case='Swish with a trainable beta', violated=[f'{type(e).__name__}: {e}']))
    try:
        for kind, degs in (('numpy array', np.array([1, 3])), ('list', [1, 3])):        # (documented types: int, list, tuple; arrays are converted)
            net = MonomialNN(degs)
            before = net(xx).detach().clone()
            if kind == 'list':
                degs[0] = 4
            else:
                degs += 3
            after = net(xx).detach()
            want = torch.cat([xx ** 1, xx ** 3], dim=1)
            if not torch.allclose(before, want, rtol=1e-6, atol=1e-7) or not torch.allclose(after, want, rtol=1e-6, atol=1e-7):
                bad.append(dict(case='MonomialNN whose degrees argument is modified by the caller afterwards', degrees_given_as=kind,
                                violated=['the network no longer computes the powers it was built with'], got=after.tolist(), want=want.tolist()))
    except Exception as e:
        bad.append(dict(case='MonomialNN whose degrees argument is modified by the caller afterwards', violated=[f'{type(e).__name__}: {e}']))
    # the documented positional order of the constructor arguments (callers that do not use keywords)
    for nm, mk, sel in (('FCNN(2, 3, None, None, Tanh, (16, 8))', lambda: FCNN(2, 3, None, None, torch.nn.Tanh, (16, 8)), lambda n_: n_),
                        ('Resnet(2, 3, None, None, Tanh, (16, 8))', lambda: Resnet(2, 3, None, None, torch.nn.Tanh, (16, 8)), lambda n_: n_.residual)):
        try:
            got = widths(sel(mk()))
            if got != [(2, 16), (16, 8), (8, 3)]:
                bad.append(dict(case='hidden_units passed positionally', call=nm, layers=got, want=[(2, 16), (16, 8), (8, 3)],
                                violated=['architecture differs from the requested hidden layers']))
        except Exception as e:
            bad.append(dict(case='hidden_units passed positionally', call=nm, violated=[f'{type(e).__name__}: {e}']))
    return bad


def check(tier, seed):
    from ..sym import Untranslatable
    rep = Report(PID, tier, seed)
    broken = []
    rng = random.Random(seed)

    # ---- kernel: generated file (traced activations) -------------------------------------------------------
    n_seeds = 3 if tier == 'quick' else 12
    g = stats = None
    try:
        g, stats = generate(seeds=[seed * 1000 + i for i in range(n_seeds)], tier=tier)
    except AssertionError as e:
        broken.append(dict(kind='tie', detail=str(e)[:2000]))
    except Untranslatable as e:
        broken.append(dict(kind='untranslatable', detail=str(e), where=traceback.format_exc()[-800:]))
    except Exception as e:
        broken.append(dict(kind='scenario-error', detail=f'{type(e).__name__}: {e}', where=traceback.format_exc()[-1500:]))
    ok = True
    if g is not None:
        path = os.path.join(LEAN, 'NdeVerif', 'Gen', f'{PID}.lean')
        g.write(path)
        ok, hits = kernel_phase(rep, f'NdeVerif.Gen.{PID}', g.ns, [o.name for o in g.obligations])
        if hits:
            print('forbidden tokens in Lean sources:', hits)
            rep.finish()
            return 2
        if g.failures:
            rep.coverage['certificates_not_found'] = g.failures
    # ---- kernel: hand-written theorems about the model ---------------------------------------------------------
    ok2, hits = kernel_phase(rep, 'NdeVerif.Proofs.C19', 'NdeVerif.C19', THEOREMS, tag=PID + '_static')
    if hits:
        print('forbidden tokens in Lean sources:', hits)
        rep.finish()
        return 2
    if not (ok and ok2):
        broken.append(dict(kind='proof', failed=rep.failed))

    # ---- correspondence + property on real observations -----------------------------------------------------
    _f64()
    failing, mismatches = [], []
    arch = arch_cases(tier, rng)
    a_blocks, a_reals, f = run_arch(arch); failing += f
    fcases = forward_cases(tier, rng, arch)
    f_blocks, f_recs, f, worst_py = run_forward(fcases); failing += f
    acases = activation_cases(tier, rng)
    s_blocks, s_recs, f, worst_act = run_activations(acases); failing += f
    mcases = monomial_cases(tier, rng)
    m_blocks, m_recs, f = run_monomial(mcases); failing += f
    p_blocks, p_reals, f = run_params(param_cases(rng)); failing += f
    failing += argument_reuse_checks()

    all_blocks = a_blocks + f_blocks + s_blocks + m_blocks + p_blocks
    worst_lean = 0.0
    dt = 0.0
    try:
        lines, dt = run_driver(PID, '\n'.join(all_blocks) + '\n')
        mb = split_blocks([l.rstrip() for l in lines])
    except Exception as e:
        mb = None
        broken.append(dict(kind='correspondence', error=f'driver failed: {e}'[:1500]))
    n_lean_fwd = 0
    if mb is not None:
        if len(mb) != len(all_blocks):
            mismatches.append(dict(error='driver returned a different number of blocks', got=len(mb), want=len(all_blocks)))
        else:
            it = iter(mb)
            for c, real in a_reals:
                got = next(it)
                if got != real:
                    mismatches.append(dict(stream='architecture', case=c, real=real, model=got))
            for c, y, to_lean, _ in f_recs:
                if not to_lean:
                    continue
                got = parse_Y(next(it))
                n_lean_fwd += 1
                e = max_err(got, y)
                worst_lean = max(worst_lean, e if e != float('inf') else 1e300)
                if not e <= TOL:
                    mismatches.append(dict(stream='forward', case=c, err=e, real=y[:2], model=got[:2]))
            for c, y in s_recs:
                got = parse_Y(next(it))
                e = max_err(got, y)
                worst_lean = max(worst_lean, e if e != float('inf') else 1e300)
                if not e <= TOL:
                    mismatches.append(dict(stream='activation', case=c, err=e, real=y[:2], model=got[:2]))
            for c, real, y in m_recs:
                got = next(it)
                head = [l for l in got if not l.startswith('Y')]
                e = max_err(parse_Y(got), y)
                if head != real or not e <= TOL:
                    mismatches.append(dict(stream='monomial', case=c, err=e, real=real + [y[:1]], model=got[:2]))
            for c, real in p_reals:
                got = next(it)
                if [l.strip() for l in got] != [real.strip()]:
                    mismatches.append(dict(stream='trainable', case=c, real=real, model=got))
    if mismatches:
        broken.append(dict(kind='correspondence', stream='neurodiffeq.networks vs NdeVerif.Networks', mismatches=mismatches[:3],
                           count=len(mismatches)))

    # ---- coverage ------------------------------------------------------------------------------------------
    hist = dict(architectures=dict(random=0, legacy=0, malformed=0), kinds=dict(fcnn=0, resnet=0), raised=0,
                hidden_len={k: 0 for k in range(5)}, max_width=0, activations={a: 0 for a in ACTS},
                forward_batches=len(f_recs), forward_rows=sum(c['n'] for c, *_ in f_recs), forward_in_lean=n_lean_fwd,
                largest_net_scalars=max([s for *_, s in f_recs] or [0]), activation_cases=len(s_recs),
                monomial_cases=len(m_recs), monomial_raise=sum(1 for _, r, _ in m_recs if r == ['raise']), trainable_rows=len(p_reals))
    for c, lines in a_reals:
        hist['architectures'][c['stream']] += 1
        hist['kinds'][c['kind']] += 1
        hist['raised'] += lines == ['raise']
        if c['stream'] == 'random':
            hist['hidden_len'][len(c['hidden'])] += 1
            hist['max_width'] = max([hist['max_width']] + list(c['hidden']))
    for c, *_ in f_recs:
        hist['activations'][c['act'][0]] += 1
    n_prog = len(a_reals) + len(f_recs) + len(s_recs) + len(m_recs) + len(p_reals) + (len(stats) if stats else 0)
    rep.coverage.update(
        programs=n_prog,
        traces_validated_against_impl=(sum(s.get('replays', 0) for s in stats.values()) if stats else 0) + len(all_blocks) - len(mismatches),
        evaluations=hist['forward_rows'] + sum(len(c['x']) for c, _ in s_recs) + sum(len(c['x']) for c, *_ in m_recs),
        distinct_nontrivial=len({(c['kind'], c['n_in'], c['n_out'], c['nHU'], c['nHL'], str(c['hidden'])) for c, _ in a_reals if c['hidden'] not in ((), 'omit')}),
        rule='a program = one constructor call (architecture stream), one network + batch (forward stream), one activation / '
             'MonomialNN call, one parameter-table row, or one traced forward method; non-trivial architecture = at least one hidden '
             'layer requested explicitly or through the legacy arguments; architecture lines, degree tuples and parameter names are '
             'compared exactly, forward values with tolerance 1e-10 (float64) against the Lean model fed with the module\'s own weights',
        input_distribution=hist, driver_seconds=round(dt, 1),
        worst_err=dict(real_vs_python_composition=worst_py, real_vs_lean_model=worst_lean, activation_vs_math_formula=worst_act,
                       traced_vs_real=max([s.get('worst_rel_err', 0) for s in stats.values()] or [0]) if stats else None),
        generated_file=os.path.join('lean', 'NdeVerif', 'Gen', f'{PID}.lean'))
    rep.samples = ([dict(theorem=o.name, statement=o.statement[:300], meaning=o.what) for o in g.obligations[:: max(1, len(g.obligations) // 4)]][:4] if g else []) \
        + [dict(script=init_line(c), real=lines) for c, lines in a_reals[5:8]] \
        + [dict(script=init_line(c), real=lines) for c, lines in a_reals if c['stream'] == 'malformed'][:2]
    rep.assumptions = [
        'row independence of torch.nn.Linear / elementwise torch ops on a batch is torch behaviour: proved for the model '
        '(forward_rowwise, by construction) and observed on the real modules (net(x)[i] vs net(x[i:i+1]) within 1e-12; bit-for-bit '
        'invariance under perturbation of another row) -- label: partial',
        'theorems about activations are over the reals (all x, all parameters; the interval [-10, 10] is only the sampling range '
        'of the numeric tie); floating-point rounding is outside the statement',
        'torch.sigmoid / tanh / sin / exp / ** compute the real functions they name up to rounding (translator trusted base)',
        'Resnet: the deprecated size arguments are ignored unless hidden_units=None is passed explicitly, because the signature '
        'default is hidden_units=(32, 32) (theorem resnet_legacy_default_ignored; the code warns "Ignoring ..."); the property '
        'statement restricts the legacy clause to FCNN, so this is recorded, not reported as a violation',
        f'every network with at most {LEAN_FWD_MAX_WEIGHTS} scalars (the quantified range needs at most 13214) is evaluated by the Lean '
        'model from the module\'s own weights; the Python composition of the same weights is compared in addition',
    ]
    rep.notes.append('tests/test_networks.py::test_APTx fails at baseline because the TEST omits gamma=0.5 '
                     '(asserts (1+tanh x)*x for APTx()); APTx itself constructs and runs here and matches its docstring')
    for fi in failing[:3]:
        rep.violation(dict(kind='failing-input', input=fi, broken=broken))
    if broken and not failing:
        rep.violation(dict(kind='unproved', broken=broken, note='the proof/tie no longer checks and no failing input was found'),
                      found_input=False, name='unproved')
    return rep.finish(checker_cmd='cd lean && lake build NdeVerif.Gen.C19 NdeVerif.Proofs.C19 && lake env lean --run drivers/C19.lean < scripts')


# ================================================================================================================
#  replay
# ================================================================================================================

def replay(path):
    import json
    d = json.load(open(path))
    fi = d.get('input')
    if not fi:
        print('replay file names no failing input:', json.dumps(d.get('broken'))[:1500])
        return 1
    _f64()
    stream, c = fi.get('stream'), fi.get('case')
    c = _untuple(c)
    if stream in ('architecture', 'legacy'):
        _, _, failing = run_arch([c])
    elif stream == 'forward':
        _, _, failing, _ = run_forward([c])
    elif stream == 'activation':
        _, _, failing, _ = run_activations([c])
    elif stream == 'monomial':
        _, _, failing = run_monomial([c])
    elif stream == 'trainable':
        _, _, failing = run_params([c])
    else:
        print('unknown stream', stream)
        return 1
    for f in failing:
        print('case', f['case'], '->', f['violated'])
    if not failing:
        print('case', c, '-> property holds')
    return 1 if failing else 0


def _untuple(c):
    """JSON turned tuples into lists; restore what the generators produce"""
    if isinstance(c, dict):
        c = dict(c)
        if isinstance(c.get('hidden'), list):
            c['hidden'] = tuple(c['hidden'])
        if isinstance(c.get('act'), list):
            c['act'] = (c['act'][0], c['act'][1])
        if isinstance(c.get('perturb'), list):
            c.pop('perturb')
        if c.get('as_tuple') and isinstance(c.get('degrees'), list):
            c['degrees'] = tuple(c['degrees'])
    return c
