"""C08 — Cartesian grad/div/curl/laplacian/vector_laplacian equal their textbook definitions."""
import sys
from ..world import tie_check
from ..leangen import GenFile, Obligation
from .. import ex as X

STATIC = [('NdeVerif.Proofs.C08', 'NdeVerif.C08', ['gradM_getElem', 'grad_sound', 'lapM_eq_div_grad', 'lapM_eval', 'second_partial_sound', 'lap_sound',
                                                   'divM_eval', 'div_summand_sound', 'gradM_total', 'lapM_total'])]

PID = 'C08'
COORDS = ['x', 'y', 'z', 'w']


def add(*ts):
    acc = ts[0]
    for t in ts[1:]:
        acc = ('add', acc, t)
    return acc


def sub(a, b):
    return ('add', a, ('neg', b))


def generate(seeds=(1, 2, 3), tier='quick'):
    from neurodiffeq import operators as ops
    g = GenFile(PID, imports=['NdeVerif.Proofs.C08'])
    stats = {}

    def trace(name, scen):
        sw, outs, st = tie_check(scen, seeds)
        stats[name] = st
        trees = []
        for k, o in enumerate(outs):
            t = sw.tree(o)
            dn = name if len(outs) == 1 else f'{name}_{k}'
            g.add_def(dn, t, f'traced from /repo: {name} output {k}; variables {sw.ctx.vars}; symbols {sw.ctx.syms}')
            trees.append((dn, t))
        return sw.ctx, trees

    def field(ctx, name, n, mi, deps=None):
        deps = list(range(n)) if deps is None else deps
        return ('app', ctx.syms.index(name), tuple(mi[d] for d in deps), tuple(('var', d) for d in deps))

    def e(n, *idx):
        v = [0] * n
        for i in idx:
            v[i] += 1
        return tuple(v)

    # grad and laplacian, n = 1..4, full dependence
    for n in range(1, 5):
        cs = COORDS[:n]

        def sc_grad(w, n=n, cs=cs):
            xs = [w.coord(c) for c in cs]
            return tuple(ops.grad(w.fn('u')(*xs), *xs))
        ctx, trees = trace(f'grad{n}', sc_grad)
        for i, (dn, t) in enumerate(trees):
            g.thm_eq(f'grad{n}_{i}_eq', cs, cs, dn, t, field(ctx, 'u', n, e(n, i)),
                     what=f'grad in {n}D: component {i} is the partial derivative of u w.r.t. coordinate {i}')
            ftxt = X.lean_ex(field(ctx, 'u', n, e(n)))
            idx = '[' + ', '.join(str(j) for j in range(n)) + ']'
            stmt_ = f'{dn} = (NdeVerif.C08.gradM {ftxt} {idx}).getD {i} (.nat 0)'
            g.raw(f'theorem grad{n}_{i}_is_model : {stmt_} := rfl\n',
                  [Obligation(f'grad{n}_{i}_is_model', 'model', stmt_, f'the traced component {i} of grad in {n}D is, term for term, component {i} of the hand model '
                              'gradM (whose theorems hold in every dimension)')])

        def sc_lap(w, n=n, cs=cs):
            xs = [w.coord(c) for c in cs]
            return ops.laplacian(w.fn('u')(*xs), *xs)
        ctx, trees = trace(f'lap{n}', sc_lap)
        g.thm_eq(f'lap{n}_eq', cs, cs, trees[0][0], trees[0][1], add(*[field(ctx, 'u', n, e(n, i, i)) for i in range(n)]),
                 what=f'laplacian in {n}D = sum of the unmixed second partials')
        ftxt = X.lean_ex(field(ctx, 'u', n, e(n)))
        idx = '[' + ', '.join(str(j) for j in range(n)) + ']'
        envt = '[' + ', '.join(cs) + ']'
        stmt_ = f'Ex.eval I (env {envt}) lap{n} = Ex.eval I (env {envt}) (NdeVerif.C08.lapM {ftxt} {idx})'
        g.raw(f'theorem lap{n}_is_model (I : Interp) ({" ".join(cs)} : ℝ) :\n    {stmt_} := by\n'
              f'  simp only [lap{n}, NdeVerif.C08.lapM, Ex.eval, Nat.cast_zero, add_zero]\n  try ring\n',
              [Obligation(f'lap{n}_is_model', 'model', stmt_, f'the traced laplacian in {n}D evaluates as the hand model lapM (lap_sound: sum of second derivatives along '
                          'every coordinate, in every dimension; lapM_eq_div_grad: = div of grad)')])

        def sc_div(w, n=n, cs=cs):
            xs = [w.coord(c) for c in cs]
            us = [w.fn(f'u{i}')(*xs) for i in range(n)]
            return ops.div(*us, *xs)
        ctx, trees = trace(f'div{n}', sc_div)
        g.thm_eq(f'div{n}_eq', cs, cs, trees[0][0], trees[0][1], add(*[field(ctx, f'u{i}', n, e(n, i)) for i in range(n)]),
                 what=f'div in {n}D = sum of d u_i / d x_i')
        ftxts = '[' + ', '.join(X.lean_ex(field(ctx, f'u{i}', n, e(n))) for i in range(n)) + ']'
        idx = '[' + ', '.join(str(j) for j in range(n)) + ']'
        envt = '[' + ', '.join(cs) + ']'
        stmt_ = f'Ex.eval I (env {envt}) div{n} = Ex.eval I (env {envt}) (NdeVerif.C08.divM {ftxts} {idx})'
        g.raw(f'theorem div{n}_is_model (I : Interp) ({" ".join(cs)} : ℝ) :\n    {stmt_} := by\n'
              f'  simp only [div{n}, NdeVerif.C08.divM, Ex.eval, Nat.cast_zero, add_zero]\n  try ring\n',
              [Obligation(f'div{n}_is_model', 'model', stmt_, f'the traced div in {n}D evaluates as the hand model divM')])

    # fields that omit coordinates: zero components / terms (the allow_unused -> zeros path)
    def sc_grad_partial(w):
        x, y, z = (w.coord(c) for c in 'xyz')
        return tuple(ops.grad(w.fn('u')(x, z), x, y, z))
    ctx, trees = trace('grad3_xz', sc_grad_partial)
    cs = ['x', 'y', 'z']
    g.thm_eq('grad3_xz_0_eq', cs, cs, *trees[0], ('app', 0, (1, 0), (('var', 0), ('var', 2))), what='grad of u(x,z): x-component')
    g.thm_eq('grad3_xz_1_eq', cs, cs, *trees[1], ('nat', 0), what='grad of u(x,z): y-component is identically zero')
    g.thm_eq('grad3_xz_2_eq', cs, cs, *trees[2], ('app', 0, (0, 1), (('var', 0), ('var', 2))), what='grad of u(x,z): z-component')

    def sc_lap_partial(w):
        x, y, z = (w.coord(c) for c in 'xyz')
        return ops.laplacian(w.fn('u')(y), x, y, z)
    ctx, trees = trace('lap3_y', sc_lap_partial)
    g.thm_eq('lap3_y_eq', cs, cs, *trees[0], ('app', 0, (2,), (('var', 1),)), what='laplacian of u(y) in 3D = u_yy')

    def sc_div_partial(w):
        x, y, z = (w.coord(c) for c in 'xyz')
        return ops.div(w.fn('a')(y, z), w.fn('b')(x, y), w.fn('c')(x), x, y, z)
    ctx, trees = trace('div3_partial', sc_div_partial)
    g.thm_eq('div3_partial_eq', cs, cs, *trees[0], ('app', ctx.syms.index('b'), (0, 1), (('var', 0), ('var', 1))),
             what='div of (a(y,z), b(x,y), c(x)) = b_y')

    # curl, vector laplacian
    def vec(w):
        x, y, z = (w.coord(c) for c in 'xyz')
        return [w.fn(n)(x, y, z) for n in ('p', 'q', 'r')], (x, y, z)

    def sc_curl(w):
        us, xs = vec(w)
        return tuple(ops.curl(*us, *xs))
    ctx, trees = trace('curl', sc_curl)
    P, Q, R = (lambda mi, s=s: field(ctx, s, 3, mi) for s in ('p', 'q', 'r'))
    want = [sub(R((0, 1, 0)), Q((0, 0, 1))), sub(P((0, 0, 1)), R((1, 0, 0))), sub(Q((1, 0, 0)), P((0, 1, 0)))]
    for i in range(3):
        g.thm_eq(f'curl_{i}_eq', cs, cs, *trees[i], want[i], what=f'curl component {i}: textbook expression')

    def sc_vlap(w):
        us, xs = vec(w)
        return tuple(ops.vector_laplacian(*us, *xs))
    ctx, trees = trace('vlap', sc_vlap)
    for i, s in enumerate(('p', 'q', 'r')):
        g.thm_eq(f'vlap_{i}_eq', cs, cs, *trees[i], add(*[field(ctx, s, 3, e(3, j, j)) for j in range(3)]),
                 what=f'vector laplacian component {i} = scalar laplacian of component {i}')

    # compositions of two operators (results are differentiable again)
    def sc_div_grad(w):
        x, y, z = (w.coord(c) for c in 'xyz')
        u = w.fn('u')(x, y, z)
        return ops.div(*ops.grad(u, x, y, z), x, y, z)
    ctx, trees = trace('div_grad', sc_div_grad)
    g.thm_eq('div_grad_eq_lap', cs, cs, *trees[0], add(*[field(ctx, 'u', 3, e(3, j, j)) for j in range(3)]),
             what='div(grad u) = laplacian u')

    def sc_curl_grad(w):
        x, y, z = (w.coord(c) for c in 'xyz')
        u = w.fn('u')(x, y, z)
        return tuple(ops.curl(*ops.grad(u, x, y, z), x, y, z))
    ctx, trees = trace('curl_grad', sc_curl_grad)
    for i in range(3):
        g.thm_eq(f'curl_grad_{i}_zero', cs, cs, *trees[i], ('nat', 0), what='curl(grad u) = 0')

    def sc_div_curl(w):
        us, xs = vec(w)
        return ops.div(*ops.curl(*us, *xs), *xs)
    ctx, trees = trace('div_curl', sc_div_curl)
    g.thm_eq('div_curl_zero', cs, cs, *trees[0], ('nat', 0), what='div(curl F) = 0')

    def sc_curl_curl(w):
        us, xs = vec(w)
        return tuple(ops.curl(*ops.curl(*us, *xs), *xs))
    ctx, trees = trace('curl_curl', sc_curl_curl)
    P, Q, R = (lambda mi, s=s: field(ctx, s, 3, mi) for s in ('p', 'q', 'r'))
    F = [P, Q, R]
    for i in range(3):
        graddiv = add(*[F[j](e(3, j, i)) for j in range(3)])
        vl = add(*[F[i](e(3, j, j)) for j in range(3)])
        g.thm_eq(f'curl_curl_{i}_eq', cs, cs, *trees[i], sub(graddiv, vl),
                 what='curl(curl F) = grad(div F) - vector_laplacian F, componentwise')

    def sc_lap_lap(w):
        x, y = (w.coord(c) for c in 'xy')
        u = w.fn('u')(x, y)
        return ops.laplacian(ops.laplacian(u, x, y), x, y)
    ctx, trees = trace('lap_lap', sc_lap_lap)
    g.thm_eq('lap_lap_eq', ['x', 'y'], ['x', 'y'], *trees[0],
             add(field(ctx, 'u', 2, (4, 0)), ('mul', ('nat', 2), field(ctx, 'u', 2, (2, 2))), field(ctx, 'u', 2, (0, 4))),
             what='laplacian(laplacian u) in 2D = u_xxxx + 2 u_xxyy + u_yyyy (biharmonic)')
    return g, stats


ASSUMPTIONS = [
    'theorems are over the reals; a field is an arbitrary symbol whose mixed partials are given by a multi-index '
    '(equality of mixed partials is built into the symbol table, as for C^2 fields)',
    'the derivative atoms are the true partial derivatives by D_sound (Smooth I)',
]


def search(seed, tier):
    """random polynomial/trig/exp fields: operators of the real code vs sympy-differentiated textbook expressions"""
    import random
    import sympy as sp
    import torch
    from neurodiffeq import operators as ops
    rng = random.Random(seed)
    found = []
    X = sp.symbols('x y z w')

    def rand_field(n):
        xs = X[:n]
        terms = []
        for _ in range(rng.randint(1, 3)):
            kind = rng.choice(['poly', 'sin', 'exp', 'mix', 'sum', 'affine', 'coord'])
            if kind == 'coord':
                if _ == 0 and rng.random() < 0.7:
                    return rng.choice(list(xs))
                kind = 'poly'
            lin = sum(rng.randint(-2, 2) * v for v in xs) + rng.randint(-1, 1)
            if kind == 'sum':      # dependence through the plain sum of some coordinates (autograd shares gradient buffers)
                sub = [v for v in xs if rng.random() < 0.7] or list(xs)
                terms.append(rng.choice([sp.sin, sp.exp, lambda q: q ** 2])(sum(sub)) * rng.randint(1, 3))
                continue
            if kind == 'affine':   # planar / affine components: constant or vanishing partials
                terms.append(sum(rng.randint(-2, 2) * v for v in xs) + rng.randint(-1, 1))
                continue
            mono = sp.Mul(*[v ** rng.randint(0, 3) for v in xs])
            terms.append({'poly': mono, 'sin': sp.sin(lin) * mono, 'exp': sp.exp(lin / 3), 'mix': sp.cos(lin) + mono}[kind] * rng.randint(-3, 3))
        return sum(terms)

    def tfun(expr, n):
        if expr in X[:n]:       # the field IS a coordinate column: hand over the leaf tensor itself
            i = list(X[:n]).index(expr)
            return lambda *ts: ts[i]
        f = sp.lambdify(X[:n], expr, modules=[{k: (lambda a, f=f: f(torch.as_tensor(a, dtype=torch.float64))) for k, f in (('sin', torch.sin), ('cos', torch.cos), ('exp', torch.exp))}])
        return lambda *ts: f(*ts) + 0 * ts[0]

    def num(expr, n, pts):
        f = sp.lambdify(X[:n], expr, 'numpy')
        import numpy as np
        return np.broadcast_to(np.asarray(f(*[p.detach().numpy() for p in pts]), dtype=float), pts[0].shape)

    def cmp(what, got, want_expr, n, pts, fields):
        import numpy as np
        want = num(want_expr, n, pts)
        g = got.detach().numpy()
        if not np.allclose(g, want, rtol=1e-7, atol=1e-7 * (1 + np.abs(want).max())):
            found.append(dict(op=what, fields=[str(f) for f in fields], points=[p.reshape(-1).tolist() for p in pts],
                              got=g.reshape(-1).tolist(), want=want.reshape(-1).tolist()))

    for it in range(30 if tier == 'quick' else 300):
        try:
            n = rng.randint(1, 4)
            pts = [torch.tensor([[rng.uniform(-1.5, 1.5)] for _ in range(4)], requires_grad=True) for _ in range(n)]
            u = rand_field(n)
            U = tfun(u, n)(*pts)
            for i, gi in enumerate(ops.grad(U, *pts)):
                cmp(f'grad{n}[{i}]', gi, sp.diff(u, X[i]), n, pts, [u])
            cmp(f'laplacian{n}', ops.laplacian(tfun(u, n)(*pts), *pts), sum(sp.diff(u, v, 2) for v in X[:n]), n, pts, [u])
            us = [rand_field(n) for _ in range(n)]
            cmp(f'div{n}', ops.div(*[tfun(f, n)(*pts) for f in us], *pts), sum(sp.diff(f, v) for f, v in zip(us, X)), n, pts, us)
            if n == 3:
                Us = [tfun(f, 3)(*pts) for f in us]
                p, q, r = us
                x, y, z = X[:3]
                want = [sp.diff(r, y) - sp.diff(q, z), sp.diff(p, z) - sp.diff(r, x), sp.diff(q, x) - sp.diff(p, y)]
                for i, ci in enumerate(ops.curl(*Us, *pts)):
                    cmp(f'curl[{i}]', ci, want[i], 3, pts, us)
                for i, vi in enumerate(ops.vector_laplacian(*[tfun(f, 3)(*pts) for f in us], *pts)):
                    cmp(f'vector_laplacian[{i}]', vi, sum(sp.diff(us[i], v, 2) for v in X[:3]), 3, pts, us)
                cc = ops.curl(*ops.curl(*[tfun(f, 3)(*pts) for f in us], *pts), *pts)
                for i in range(3):
                    cw = sp.diff(sum(sp.diff(f, v) for f, v in zip(us, X)), X[i]) - sum(sp.diff(us[i], v, 2) for v in X[:3])
                    cmp(f'curl_curl[{i}]', cc[i], cw, 3, pts, us)
        except Exception as e:   # an operator that raises on an admissible smooth field is a failing input too
            found.append(dict(error=f'{type(e).__name__}: {e}', dimension=n, fields=[str(f) for f in ([locals().get('u')] + list(locals().get('us', [])))]))
        if len(found) >= 3:
            break
    return found


def runtime_checks():
    """exact observations on the real code that a symbolic trace cannot carry (every run):
    * "their results remain differentiable so operators can be composed": fields with constant or vanishing partials
      (position vector, rigid rotation, uniform strain, shear, affine scalars) through every composition;
    * batches in which EVERY row sits at a special point (critical point, symmetry plane): the value at a point does not
      depend on what the other rows of the batch are;
    * the operators give the same values when called inside torch.no_grad() on a field built with grad enabled."""
    import torch
    from neurodiffeq import operators as ops
    bad = []
    col = lambda *v: torch.tensor([[float(a)] for a in v], requires_grad=True)
    # the operators are functions of the tensors they are given: what other parts of the library did with them earlier in the process -
    # here a stream-plot monitor (which calls grad) that was mis-configured and raised - must not matter to any observation below
    try:
        import matplotlib
        matplotlib.use('Agg')
        from neurodiffeq.monitors import StreamPlotMonitor2D
        from neurodiffeq.conditions import NoCondition
        from neurodiffeq.networks import FCNN
        import warnings
        with warnings.catch_warnings():
            warnings.simplefilter('ignore')
            mon = StreamPlotMonitor2D((0., 0.), (1., 1.), pairs=[0, 3], nx=4, ny=4)       # unknown 3 does not exist
            try:
                mon.check([FCNN(2, 1, hidden_units=(3,))], [NoCondition()], {'train_loss': [1.0], 'valid_loss': [1.0]})
            except Exception:
                pass
            import matplotlib.pyplot as plt
            plt.close('all')
    except Exception:
        pass
    x, y = col(0.3, -1.2, 2.0), col(1.1, 0.4, -0.7)
    u = x ** 2 * y + torch.sin(y)
    for nm, got, want in (('laplacian', ops.laplacian(u, x, y), 2 * y - torch.sin(y)), ('div(grad)', ops.div(*ops.grad(u, x, y), x, y), 2 * y - torch.sin(y)),
                          ('grad(grad[0])[1]', ops.grad(ops.grad(u, x, y)[0], x, y)[1], 2 * x)):
        if not torch.is_tensor(got) or not torch.allclose(got.detach(), want.detach(), rtol=1e-12, atol=1e-12) or not got.requires_grad:
            bad.append(dict(case='operators used after a mis-configured stream-plot monitor raised in the same process', violated=nm,
                            got=got.detach().reshape(-1).tolist() if torch.is_tensor(got) else repr(got), want=want.detach().reshape(-1).tolist()))
    # coordinates that are not finite in some rows (points at infinity of a compactified axis, padding rows): a field that does not depend
    # on such a coordinate has partial derivative exactly 0 there, and the other partials are unaffected
    inf = float('inf')
    x, y, z = col(0.3, -1.2, 2.0), col(inf, 0.4, -inf), col(-0.5, float('nan'), 1.6)
    f = torch.sin(x) * 2.0
    for opn, got, want in (('grad(f(x), x, y, z)[1]', ops.grad(f, x, y, z)[1], torch.zeros(3, 1)), ('grad(f(x), x, y, z)[2]', ops.grad(f, x, y, z)[2], torch.zeros(3, 1)),
                           ('grad(f(x), x, y, z)[0]', ops.grad(f, x, y, z)[0], 2.0 * torch.cos(x)),
                           ('curl(0, 0, f(x))[0]', ops.curl(x * 0, x * 0, f, x, y, z)[0], torch.zeros(3, 1))):
        if not torch.allclose(got.detach(), want.detach(), rtol=0, atol=1e-12, equal_nan=False):
            bad.append(dict(case='rows in which a coordinate the field does not depend on is inf / nan', violated=opn, got=got.detach().reshape(-1).tolist(),
                            want=want.detach().reshape(-1).tolist()))
    # components and coordinates of different precision (a float32 network evaluated on float64 points)
    try:
        x, y = col(0.3, -1.2, 2.0).double().detach().requires_grad_(), col(1.1, 0.4, -0.7).double().detach().requires_grad_()
        u32, v32 = (x.float() ** 2) * y.float(), torch.sin(x.float()) + y.float() ** 3
        got = ops.div(u32, v32, x, y)
        want = 2 * x * y + 3 * y ** 2
        if not torch.is_tensor(got) or tuple(got.shape) != (3, 1) or not torch.allclose(got.detach().double(), want.detach(), rtol=1e-5, atol=1e-5):
            bad.append(dict(case='float32 components on float64 coordinates', violated='div', got=got.detach().reshape(-1).tolist() if torch.is_tensor(got) else repr(got),
                            want=want.detach().reshape(-1).tolist()))
        lg = ops.laplacian(u32, x, y)
        if not torch.allclose(lg.detach().double(), (2 * y).detach(), rtol=1e-5, atol=1e-5):
            bad.append(dict(case='float32 components on float64 coordinates', violated='laplacian', got=lg.detach().reshape(-1).tolist(), want=(2 * y).detach().reshape(-1).tolist()))
    except Exception as e:
        bad.append(dict(case='float32 components on float64 coordinates', error=f'{type(e).__name__}: {e}'))

    def zero(t, what, ctx):
        if t is None or not torch.is_tensor(t) or t.shape != (3, 1) or float(t.detach().abs().max()) != 0.0:
            bad.append(dict(ctx, violated=f'{what} is not identically zero', got=None if t is None else t.detach().reshape(-1).tolist()))

    fields = {
        'position vector (x, y, z)': lambda x, y, z: (x, y, z),
        'rigid rotation (-y, x, 0)': lambda x, y, z: (-y, x, z * 0),
        'uniform strain (2x, -y, 3z)': lambda x, y, z: (2 * x, -y, 3 * z),
        'shear (y, 0, 0)': lambda x, y, z: (y + 0 * x, 0 * y, 0 * z),
        'constant (1, 2, 3)': lambda x, y, z: (x * 0 + 1, y * 0 + 2, z * 0 + 3),
    }
    for name, F in fields.items():
        ctx = dict(case='composition on a field with constant partial derivatives', field=name)
        try:
            x, y, z = col(0.3, -1.2, 2.0), col(1.1, 0.4, -0.7), col(-0.5, 0.9, 1.6)
            d = ops.div(*F(x, y, z), x, y, z)
            for i, gi in enumerate(ops.grad(d, x, y, z)):
                zero(gi, f'grad(div F)[{i}]', ctx)
            zero(ops.laplacian(d, x, y, z), 'laplacian(div F)', ctx)
            for i, ci in enumerate(ops.curl(*ops.curl(*F(x, y, z), x, y, z), x, y, z)):
                zero(ci, f'curl(curl F)[{i}]', ctx)
            for i, vi in enumerate(ops.vector_laplacian(*F(x, y, z), x, y, z)):
                zero(vi, f'vector_laplacian(F)[{i}]', ctx)
                for j, gj in enumerate(ops.grad(vi, x, y, z)):
                    zero(gj, f'grad(vector_laplacian(F)[{i}])[{j}]', ctx)
            zero(ops.div(*ops.curl(*F(x, y, z), x, y, z), x, y, z), 'div(curl F)', ctx)
            # back-propagation through the result must work (zeros are fine, exceptions are not)
            (d.sum() + sum(c.sum() for c in ops.curl(*F(x, y, z), x, y, z))).backward()
        except Exception as e:
            bad.append(dict(ctx, violated='operators cannot be composed / back-propagated on this field', error=f'{type(e).__name__}: {e}'))
    try:
        x, y = col(0.3, -1.2, 2.0), col(1.1, 0.4, -0.7)
        u = 2 * x - y + 3
        ctx = dict(case='affine scalar field 2x - y + 3')
        zero(ops.laplacian(u, x, y), 'laplacian(u)', ctx)
        zero(ops.div(*ops.grad(u, x, y), x, y), 'div(grad u)', ctx)
        for i, gi in enumerate(ops.grad(u, x, y)):
            for j, gij in enumerate(ops.grad(gi, x, y)):
                zero(gij, f'grad(grad(u)[{i}])[{j}]', ctx)
    except Exception as e:
        bad.append(dict(case='affine scalar field', violated='operators cannot be composed', error=f'{type(e).__name__}: {e}'))
    # every row at a critical point / on a symmetry plane
    specials = [('x^2 + 3y^2 - z^2 at the origin (all rows)', lambda x, y, z: x ** 2 + 3 * y ** 2 - z ** 2, (0., 0., 0.), 6.0),
                ('cos(x) + y^2 z on the plane x = 0, z = 0', lambda x, y, z: torch.cos(x) + y ** 2 * z, (0., 0.7, 0.), -1.0),
                ('(x - 1)^2 (y + 2) at x = 1', lambda x, y, z: (x - 1) ** 2 * (y + 2) + 0 * z, (1., 0.5, -0.3), 5.0)]
    for name, f, p, want in specials:
        try:
            x, y, z = col(p[0], p[0], p[0]), col(p[1], p[1], p[1]), col(p[2], p[2], p[2])
            lap = ops.laplacian(f(x, y, z), x, y, z).detach().reshape(-1).tolist()
            if any(abs(v - want) > 1e-12 for v in lap):
                bad.append(dict(case='batch in which every row is the same special point', field=name, violated='laplacian', got=lap, want=want))
            vl = ops.vector_laplacian(f(x, y, z), f(x, y, z) * 2, f(x, y, z) * -1, x, y, z)
            if any(abs(v - k * want) > 1e-12 for comp, k in zip(vl, (1, 2, -1)) for v in comp.detach().reshape(-1).tolist()):
                bad.append(dict(case='batch in which every row is the same special point', field=name, violated='vector_laplacian', want=want))
        except Exception as e:
            bad.append(dict(case='special-point batch', field=name, error=f'{type(e).__name__}: {e}'))
    # a field tensor that is modified in place between two queries: the second answer is about the field as it is then
    try:
        x, y, z = col(0.3, -1.2, 2.0), col(1.1, 0.4, -0.7), col(-0.5, 0.9, 1.6)
        u = torch.sin(x * y) + z ** 2 * x
        g1 = [g.detach().clone() for g in ops.grad(u, x, y, z)]
        l1 = ops.laplacian(u, x, y, z).detach().clone()
        u.mul_(3.0)
        g2 = ops.grad(u, x, y, z)
        l2 = ops.laplacian(u, x, y, z)
        if any(not torch.allclose(b.detach(), 3 * a, rtol=1e-12, atol=1e-12) for a, b in zip(g1, g2)) or not torch.allclose(l2.detach(), 3 * l1, rtol=1e-12, atol=1e-12):
            bad.append(dict(case='field tensor scaled in place (u.mul_(3)) between two queries', violated='grad / laplacian still describe the old field',
                            grad_before=[g.reshape(-1).tolist() for g in g1], grad_after=[g.detach().reshape(-1).tolist() for g in g2]))
    except Exception as e:
        bad.append(dict(case='field tensor modified in place between two queries', error=f'{type(e).__name__}: {e}'))
    # components / partial derivatives that are ONE tensor object (plane waves: autograd hands the same gradient tensor to every summand
    # of x + y + z; vector fields with equal components): every term of the sums still counts, each against its own coordinate
    try:
        x, y, z = col(0.3, -1.2, 2.0), col(1.1, 0.4, -0.7), col(-0.5, 0.9, 1.6)
        close = lambda a, b: torch.allclose(a.detach(), b.detach(), rtol=1e-12, atol=1e-12)
        s3, s2 = x + y + z, x + y
        obs = [('laplacian(sin(x+y+z))', ops.laplacian(torch.sin(s3), x, y, z), -3 * torch.sin(s3)),
               ('laplacian(exp(x+y)) in 2-D', ops.laplacian(torch.exp(s2), x, y), 2 * torch.exp(s2)),
               ('laplacian(laplacian(sin(x+y+z)))', ops.laplacian(ops.laplacian(torch.sin(s3), x, y, z), x, y, z), 9 * torch.sin(s3)),
               ('div(grad(sin(x+y+z)))', ops.div(*ops.grad(torch.sin(s3), x, y, z), x, y, z), -3 * torch.sin(s3))]
        f = torch.sin(x * y) + z ** 2 * x
        h = x * y * z
        fx, fy, fz = y * torch.cos(x * y) + z ** 2, x * torch.cos(x * y), 2 * z * x
        hx, hy, hz = y * z, x * z, x * y
        obs += [('div(f, f, f)', ops.div(f, f, f, x, y, z), fx + fy + fz),
                ('div(f, h, f)', ops.div(f, h, f, x, y, z), fx + hy + fz),
                ('div(f, f) in 2-D', ops.div(f, f, x, y), fx + fy)]
        for nm, comps, want in (('curl(f, f, h)', (f, f, h), (hy - fz, fz - hx, fx - fy)),
                                ('curl(f, h, f)', (f, h, f), (fy - hz, fz - fx, hx - fy)),
                                ('curl(h, f, f)', (h, f, f), (fy - fz, hz - fx, fx - hy)),
                                ('curl(f, f, f)', (f, f, f), (fy - fz, fz - fx, fx - fy))):
            got = ops.curl(*comps, x, y, z)
            obs += [(f'{nm}[{i}]', g, w) for i, (g, w) in enumerate(zip(got, want))]
        vl = ops.vector_laplacian(torch.sin(s3), torch.sin(s3), torch.cos(s3), x, y, z)
        obs += [('vector_laplacian(sin s, sin s, cos s)[0]', vl[0], -3 * torch.sin(s3)), ('vector_laplacian(sin s, sin s, cos s)[2]', vl[2], -3 * torch.cos(s3))]
        for nm, got, want in obs:
            if not close(got, want):
                bad.append(dict(case='components or partial derivatives that are the same tensor object', violated=nm,
                                got=got.detach().reshape(-1).tolist(), want=want.detach().reshape(-1).tolist()))
    except Exception as e:
        bad.append(dict(case='components or partial derivatives that are the same tensor object', error=f'{type(e).__name__}: {e}'))
    # a field whose graph is gone (released by an earlier backward, or detached): the operators raise - or answer correctly - but
    # never hand back numbers that are not the derivatives
    for what in ('graph released by backward()', 'detached field'):
        try:
            x, y = col(0.3, -1.2, 2.0), col(1.1, 0.4, -0.7)
            u = x ** 2 * torch.sin(y)
            if what.startswith('graph'):
                u.sum().backward()
            else:
                u = u.detach()
            want = [2 * x * torch.sin(y), x ** 2 * torch.cos(y)]
            for opn, call, w in (('grad', lambda: ops.grad(u, x, y), want),
                                 ('laplacian', lambda: [ops.laplacian(u, x, y)], [2 * torch.sin(y) - x ** 2 * torch.sin(y)]),
                                 ('div', lambda: [ops.div(u, u * 1.0, x, y)], [want[0] + want[1]])):
                try:
                    got = call()
                except RuntimeError:
                    continue        # an error is an honest answer
                if any(not torch.allclose(g.detach(), ww.detach(), rtol=1e-12, atol=1e-12) for g, ww in zip(got, w)):
                    bad.append(dict(case=f'field without a usable graph ({what})', violated=f'{opn} returned values that are not the derivatives '
                                    '(instead of raising)', got=[g.detach().reshape(-1).tolist() for g in got],
                                    want=[ww.detach().reshape(-1).tolist() for ww in w]))
        except Exception as e:
            bad.append(dict(case=f'field without a usable graph ({what})', error=f'{type(e).__name__}: {e}'))
    # grad mode: same values inside torch.no_grad()
    try:
        x, y, z = col(0.3, -1.2, 2.0), col(1.1, 0.4, -0.7), col(-0.5, 0.9, 1.6)
        u = torch.sin(x * y) + z ** 3 * x
        v, w = u * y, z * u
        ref = [ops.laplacian(u, x, y, z)] + list(ops.grad(u, x, y, z)) + [ops.div(*ops.grad(u, x, y, z), x, y, z)] \
            + list(ops.vector_laplacian(u, v, w, x, y, z))
        with torch.no_grad():
            got = [ops.laplacian(u, x, y, z)] + list(ops.grad(u, x, y, z)) + [ops.div(*ops.grad(u, x, y, z), x, y, z)] \
                + list(ops.vector_laplacian(u, v, w, x, y, z))
        names = ['laplacian', 'grad[0]', 'grad[1]', 'grad[2]', 'div(grad)', 'vector_laplacian[0]', 'vector_laplacian[1]', 'vector_laplacian[2]']
        for nm, a, b in zip(names, got, ref):
            if not torch.allclose(a.detach(), b.detach(), rtol=0, atol=1e-12):
                bad.append(dict(case='operators called inside torch.no_grad() on a field built with grad enabled', op=nm,
                                got=a.detach().reshape(-1).tolist(), want=b.detach().reshape(-1).tolist()))
    except Exception as e:
        bad.append(dict(case='operators called inside torch.no_grad()', error=f'{type(e).__name__}: {e}'))
    return bad


def check(tier, seed):
    from ..calcprop import check_calc
    return check_calc(sys.modules[__name__], tier, seed)
