"""C05 — best-model tracking. Engine B: model NdeVerif.Model.Solver, theorems NdeVerif.Proofs.C05,
correspondence with the real solver classes in the scripted world (harness/solverworld.py)."""
from ..runner import Report, kernel_phase, known_findings
from ..solverprop import Campaign, loss_of

PID = 'C05'
THEOREMS = ['bestSpec_push', 'best_tracking', 'best_tracking_from_init', 'bestInv_epoch', 'bestInv_init',
            'bestStep_frozen', 'bestStep_improves', 'valid_epoch_best', 'train_epoch_plain_best', 'train_epoch_keeps_best',
            'closure_novalid_counterexample']
KNOWN_KEY = 'closure-optimizer/n_batches_valid=0/snapshot-after-step'


def evaluate(camp):
    """the property itself on the real observations; returns (violations, known-finding hits)"""
    bad, known = [], []
    for lines, kw, fits, theta0, run in camp.observations():
        L = loss_of(lines)
        n_valid = int(lines[0].split()[4])
        tracked_key = 'valid' if n_valid > 0 else 'train'
        prev = None
        epoch_info = []     # per tracked entry: dict(lossId, batches, closure, theta_end)
        for f in fits:
            for d, evs in zip(f['epochs'], f['events']):
                ls = [e for e in evs if e.startswith('L')]
                want_t = '0' if n_valid > 0 else '1'
                sel = [e[1:].split(':') for e in ls if e[1:].split(':')[2] == want_t]
                batches = sorted({int(x[3]) for x in sel})
                closure = any(e.startswith('Sclosure') for e in evs)
                if sel:
                    epoch_info.append(dict(lossId=int(sel[0][0]), batches=batches, closure=closure, theta_end=d['theta']))
                tr = d[tracked_key]
                ctx = dict(script=lines, kw=kw, after_epochs=len(d['train']))
                if tr:
                    m = min(tr)
                    if d['lowest'] != m:
                        bad.append(dict(ctx, violated='lowest_loss is not the minimum of the tracked history', lowest=d['lowest'], history=tr))
                    else:
                        i = tr.index(m)
                        info = epoch_info[i] if i < len(epoch_info) else None
                        if info and d['best'] is not None:
                            redo = sum(L(info['lossId'], d['best'], n_valid == 0, b) for b in info['batches'])
                            if redo != m * len(info['batches']):
                                item = dict(ctx, violated='re-evaluating the loss with best_nets on that epoch\'s batches does not reproduce lowest_loss',
                                            lowest=m, best=d['best'], epoch_index=i, recomputed_sum=redo, n_batches=len(info['batches']))
                                if info['closure'] and n_valid == 0:
                                    known.append(item)
                                else:
                                    bad.append(item)
                        if d['best'] is None:
                            bad.append(dict(ctx, violated='best_nets is None although losses were recorded'))
                elif d['lowest'] is not None:
                    bad.append(dict(ctx, violated='lowest_loss set without any tracked loss', lowest=d['lowest']))
                if prev is not None and prev['lowest'] is not None and d['lowest'] is None:
                    bad.append(dict(ctx, violated='lowest_loss was reset although losses had been recorded', before=prev['lowest']))
                elif prev is not None and prev['best'] != d['best'] and prev['lowest'] is not None and not d['lowest'] < prev['lowest']:
                    bad.append(dict(ctx, violated='best_nets changed without a strictly lower loss', before=prev['lowest'], after=d['lowest']))
                if run is not None and run.solver.best_nets is not None and any(a is b for a, b in zip(run.solver.best_nets, run.solver.nets)):
                    bad.append(dict(ctx, violated='best_nets aliases the live networks (not a frozen copy)'))
                prev = d
        # the frozen copy is a copy of the WHOLE network (parameters and buffers) as it was when the loss was computed: the
        # scripted networks carry a buffer `seen` = parameter value at their most recent forward pass, so in the stored
        # best networks buffer and parameter must agree (except in the known closure/no-validation configuration, where the
        # copy is taken after the step)
        if run is not None:
            for bw, bseen, okind, nv, call, ep in run.best_obs:
                if bw != bseen and not (okind == 'closure' and nv == 0):
                    bad.append(dict(script=lines, kw=kw, fit_call=call, epoch=ep, violated='best_nets is not a copy of the networks as they were when '
                                    'the loss was computed: its buffer (parameter value at the last forward pass) differs from its parameter',
                                    best_parameter=bw, best_buffer=bseen))
                    break
            for bmode, lmode, call, ep in run.best_mode_obs:
                if bmode != lmode:
                    bad.append(dict(script=lines, kw=kw, fit_call=call, epoch=ep, violated='best_nets is not a copy of the networks as they were: its '
                                    'train/eval mode differs from the live networks\' mode (mode-dependent layers then evaluate differently)',
                                    best_training=bmode, live_training=lmode))
                    break
            # ... and of frozen parameters too: changing them later must not reach into the stored best networks
            for baux, want, call, ep in run.aux_obs:
                if want is not None and baux != want:
                    bad.append(dict(script=lines, kw=kw, fit_call=call, epoch=ep, violated='best_nets changed after it was stored: a frozen '
                                    '(requires_grad=False) parameter of the live networks was modified later and the stored copy followed',
                                    stored_value=baux, value_when_stored=want))
                    break
    return bad, known


def lbfgs_witness():
    """the known finding replayed on the real code with torch.optim.LBFGS (deterministic generator)"""
    import warnings
    import torch
    from neurodiffeq.solvers import Solver1D
    from neurodiffeq.conditions import IVP
    from neurodiffeq.networks import FCNN
    from neurodiffeq.generators import Generator1D
    from neurodiffeq import diff
    with warnings.catch_warnings():
        warnings.simplefilter('ignore')
        torch.manual_seed(0)
        g = Generator1D(8, 0., 1., method='equally-spaced')
        net = FCNN(1, 1, hidden_units=(4,))
        s = Solver1D(lambda u, t: [diff(u, t) + u], [IVP(0., 1.)], t_min=0., t_max=1., nets=[net], train_generator=g,
                     valid_generator=g, n_batches_valid=0, optimizer=torch.optim.LBFGS(net.parameters(), lr=0.5, max_iter=5))
        s.fit(3, tqdm_file=None)
        t = g.get_examples().reshape(-1, 1)
        u = s.conditions[0].enforce(s.best_nets[0], t)
        redo = ((diff(u, t) + u) ** 2).mean().item()
    return dict(lowest_loss=s.lowest_loss, recomputed_with_best_nets=redo, reproduces=abs(redo - s.lowest_loss) <= 1e-12 * (1 + abs(redo)))


def direct_checks(seed):
    """best-model tracking on real solvers, outside fit(): epochs run by hand, save(), load() with user networks"""
    import contextlib, io, os, tempfile, warnings
    from copy import deepcopy
    import dill
    import torch
    from neurodiffeq import diff
    from neurodiffeq.solvers import Solver1D
    from neurodiffeq.solvers_utils import SolverConfig
    from neurodiffeq.conditions import IVP
    from neurodiffeq.networks import FCNN
    from neurodiffeq.generators import Generator1D
    from ..fixtures import c18_eqs as E
    bad = []
    with warnings.catch_warnings():
        warnings.simplefilter('ignore')
        # (a) epochs run through run_train_epoch() / run_valid_epoch() (the documented building blocks of fit()) are tracked like any other
        for nv in (2, 0):
            torch.manual_seed(seed + 5)
            vg = Generator1D(6, 0., 1., method='equally-spaced')
            s = Solver1D(E.ode, [IVP(0., 1.)], t_min=0., t_max=1., nets=[FCNN(1, 1, hidden_units=(4,))], n_batches_train=1, n_batches_valid=nv,
                         train_generator=Generator1D(6, 0., 1., method='equally-spaced'), valid_generator=vg,
                         optimizer=None)
            for _ in range(4):
                s.run_train_epoch()
                s.run_valid_epoch()
            hist = s.metrics_history['valid_loss'] if nv else None
            if nv:
                t = vg.get_examples().reshape(-1, 1).requires_grad_()
                redo = None if s.best_nets is None else float(((diff(s.conditions[0].enforce(s.best_nets[0], t), t) + s.conditions[0].enforce(s.best_nets[0], t)) ** 2).mean())
                if s.lowest_loss is None or s.lowest_loss != min(hist) or redo is None or abs(redo - s.lowest_loss) > 1e-12 * (1 + abs(redo)):
                    bad.append(dict(case='four epochs run by hand (run_train_epoch + run_valid_epoch)', n_batches_valid=nv, violated='lowest_loss is not the '
                                    'minimum of the validation history / best_nets do not reproduce it', lowest_loss=s.lowest_loss, history=hist, recomputed=redo))
            elif s.lowest_loss is None or s.best_nets is None:
                bad.append(dict(case='four epochs run by hand, validation disabled', violated='nothing was tracked', lowest_loss=s.lowest_loss))
        # (a') an optimiser that writes through .data (old-style / hand-written update rules), a validation epoch run by hand after training
        # without validation, and evaluations of the best solution on points of another precision: best_nets stay the networks of the lowest loss
        class DataSGD(torch.optim.Optimizer):
            def __init__(self, params, lr):
                super().__init__(params, dict(lr=lr))

            def step(self, closure=None):
                for g in self.param_groups:
                    for p_ in g['params']:
                        if p_.grad is not None:
                            p_.data.add_(p_.grad.data, alpha=-g['lr'])
        torch.manual_seed(seed + 7)
        vg = Generator1D(6, 0., 1., method='equally-spaced')
        net = FCNN(1, 1, hidden_units=(4,))
        s = Solver1D(E.ode, [IVP(0., 1.)], t_min=0., t_max=1., nets=[net], n_batches_train=1, n_batches_valid=1,
                     train_generator=Generator1D(6, 0., 1., method='equally-spaced'), valid_generator=vg, optimizer=DataSGD(net.parameters(), lr=0.05))
        s.fit(5, tqdm_file=None)

        def redo(sv):
            t = vg.get_examples().reshape(-1, 1).requires_grad_()
            u = sv.conditions[0].enforce(sv.best_nets[0], t)
            return float(((diff(u, t) + u) ** 2).mean())
        r_ = redo(s)
        if s.lowest_loss != min(s.metrics_history['valid_loss']) or abs(r_ - s.lowest_loss) > 1e-12 * (1 + abs(r_)):
            bad.append(dict(case='optimiser that updates the weights through .data', violated='best_nets do not reproduce the lowest loss', lowest_loss=s.lowest_loss,
                            recomputed_with_best_nets=r_, history=s.metrics_history['valid_loss']))
        # evaluation of the best solution on float32 points (works or raises - either way the stored best networks are untouched)
        before = {k: v.clone() for k, v in s.best_nets[0].state_dict().items()}
        for call in (lambda: s.get_residuals(torch.linspace(0, 1, 5, dtype=torch.float32), best=True), lambda: s.get_solution(copy=False, best=True)(torch.linspace(0, 1, 5, dtype=torch.float32))):
            try:
                call()
            except Exception:
                pass
        after = s.best_nets[0].state_dict()
        if any(before[k].dtype != after[k].dtype or not torch.equal(before[k], after[k].to(before[k].dtype)) for k in before):
            bad.append(dict(case='best solution / residuals evaluated on float32 points', violated='the stored best networks were changed (precision) although no lower loss occurred',
                            dtypes_now=sorted({str(v.dtype) for v in after.values()})))
        # training without validation, then one validation epoch run by hand in the same global epoch
        torch.manual_seed(seed + 8)
        net = FCNN(1, 1, hidden_units=(4,))
        s = Solver1D(E.ode, [IVP(0., 1.)], t_min=0., t_max=1., nets=[net], n_batches_train=1, n_batches_valid=0,
                     train_generator=Generator1D(6, 0., 1., method='equally-spaced'), valid_generator=vg, optimizer=torch.optim.SGD(net.parameters(), lr=0.05))
        s.fit(3, tqdm_file=None)
        low0 = s.lowest_loss
        s.n_batches['valid'] = 1
        s.run_valid_epoch()
        if s.lowest_loss is not None and s.lowest_loss < low0:
            r_ = redo(s)
            if abs(r_ - s.lowest_loss) > 1e-12 * (1 + abs(r_)):
                bad.append(dict(case='validation epoch run by hand after training without validation (same global epoch)', violated='lowest_loss was lowered but '
                                'best_nets are not the networks that produced it', lowest_loss=s.lowest_loss, recomputed_with_best_nets=r_))
        # (b) save() does not touch the stored best networks (buffers included); (c) load() with user networks keeps the saved best networks
        path = tempfile.mktemp(prefix='verif-c05-')
        dill.settings['byref'] = True
        try:
            torch.manual_seed(seed + 6)
            net = E.CountingNet()
            s = Solver1D(E.ode, [IVP(0., 1.)], t_min=0., t_max=1., nets=[net], n_batches_valid=1,
                         train_generator=Generator1D(6, 0., 1.), valid_generator=Generator1D(6, 0., 1., method='equally-spaced'),
                         optimizer=torch.optim.SGD(net.parameters(), lr=0.01))
            s.fit(3, tqdm_file=None)
            before = {k: v.clone() for k, v in s.best_nets[0].state_dict().items()}
            low = s.lowest_loss
            try:
                s.save(path=path)
            except Exception:
                pass
            after = s.best_nets[0].state_dict()
            if s.lowest_loss != low or any(not torch.equal(before[k], after[k]) for k in before):
                bad.append(dict(case='save() of a solver whose network has a buffer updated by every forward pass', violated='the stored best networks '
                                'changed although no lower loss occurred', changed=[k for k in before if not torch.equal(before[k], after[k])]))
            if os.path.exists(path):
                cfg = SolverConfig()
                mine = [E.CountingNet()]
                cfg.nets = mine
                with contextlib.redirect_stdout(io.StringIO()):
                    l = Solver1D.load(path=path, config=cfg)
                saved_best = s.best_nets[0].state_dict()
                if l.best_nets is None or any(b is n for b in l.best_nets for n in l.nets) or l.lowest_loss != s.lowest_loss \
                        or any(not torch.equal(saved_best[k], l.best_nets[0].state_dict()[k]) for k in ('lin.weight', 'lin.bias')):
                    bad.append(dict(case='load() with user networks in the SolverConfig', violated='the best networks of the loaded solver are not the saved '
                                    'best networks (the ones that produced lowest_loss)', best_is_live_network=bool(l.best_nets is not None and any(b is n for b in l.best_nets for n in l.nets)),
                                    lowest_loss=l.lowest_loss))
        except Exception as e:
            bad.append(dict(case='save / load with a buffer-carrying network', violated='raised', error=f'{type(e).__name__}: {e}'))
        finally:
            dill.settings['byref'] = False
            if os.path.exists(path):
                os.remove(path)
    return bad


def check(tier, seed):
    rep = Report(PID, tier, seed)
    ok, hits = kernel_phase(rep, 'NdeVerif.Proofs.C05', 'NdeVerif.C05', THEOREMS)
    if hits:
        print('forbidden tokens:', hits)
        rep.finish()
        return 2
    broken = [] if ok else [dict(kind='proof', failed=rep.failed)]
    camp = Campaign(tier, seed).run()
    if camp.mismatches:
        broken.append(dict(kind='correspondence', stream='real solver vs NdeVerif.Solver', count=len(camp.mismatches), first=camp.mismatches[:2]))
    bad, known = evaluate(camp)
    rep.coverage.update(camp.coverage())
    rep.coverage['known_finding_instances_seen'] = len(known)
    rep.coverage['lbfgs_witness_on_real_code'] = lbfgs_witness()
    # best networks / lowest loss across save() and load() of real solvers (several loads in one process, default configuration)
    import random
    from . import C18 as _C18
    pbad, pruns, pstats = _C18.stream_real(random.Random(seed * 31 + 5), 3 if tier == 'quick' else 12, True)
    rep.coverage['persisted_best_tracking'] = dict(save_load_cycles=pruns, **pstats)
    bad += [b for b in pbad if any(w in b.get('violated', '') for w in ('best', 'lowest'))]
    bad += direct_checks(seed)
    # histories that mix hand-run epochs with fit() calls: model vs code (ties Proofs/AnyHistory.lean), invariants on every dump
    from ..solverprop import manual_campaign
    okm, _ = kernel_phase(rep, 'NdeVerif.Proofs.AnyHistory', 'NdeVerif.AnyHistory', ['inv_any_history', 'best_tracking_any_history', 'any_history_from_init'], tag='C05any')
    if not okm:
        broken.append(dict(kind='proof', failed=rep.failed))
    man = manual_campaign(tier, seed)
    rep.coverage['hand_run_epoch_histories'] = dict(scripts=man['scripts'], manual_epochs=man['manual_epochs'], mismatches=len(man['mismatches']))
    if man['mismatches']:
        broken.append(dict(kind='correspondence', stream='hand-run epochs mixed with fit() vs NdeVerif.Solver', count=len(man['mismatches']), first=man['mismatches'][:2]))
    bad += [b for b in man['bad'] if 'lowest_loss' in b['violated']]
    rep.samples = [dict(script=l, solver=kw) for l, kw in camp.scripts[:3]]
    rep.assumptions = ['optimiser arithmetic is an oracle (scripted integer optimisers in the correspondence; real Adam/LBFGS are not modelled)',
                       'deepcopy of the networks is a value copy (observed: best_nets never aliases nets)',
                       'the full claim is false for closure-based optimisers with n_batches_valid = 0 (theorem closure_novalid_counterexample): known finding']
    listed = [k for k in known_findings(PID) if k.get('key') == KNOWN_KEY]
    if known:
        if listed:
            rep.known.append(f'{KNOWN_KEY}: best_nets is copied after optimizer.step(closure) when n_batches_valid=0 '
                             f'({len(known)} scripted instances this run, e.g. lowest={known[0]["lowest"]} best θ={known[0]["best"]})')
        else:
            bad += known
    for b in bad[:3]:
        rep.violation(dict(kind='failing-input', input=b, broken=broken))
    if broken and not bad:
        rep.violation(dict(kind='unproved', broken=broken), found_input=False, name='unproved')
    return rep.finish(checker_cmd='cd lean && lake build NdeVerif.Proofs.C05 && lake env lean --run drivers/Solver.lean < scripts')


def replay(path):
    import json
    from ..solverworld import run_script
    d = json.load(open(path))
    inp = d.get('input', {})
    if 'script' not in inp:
        print('no script in replay:', d.get('broken'))
        return 1
    out, run = run_script(inp['script'], **inp.get('kw', {}))
    print('\n'.join(out))
    return 0
