"""C16 — callbacks fire exactly when their predicate holds and do what they say.

Engine B: Lean model NdeVerif.Model.Callbacks (condition terms with explicit state, actions, the fit loop), theorems
NdeVerif.Proofs.C16, correspondence inside REAL `Solver1D.fit()` calls: a tiny real solver whose loss values are scripted
(exact integers / dyadic rationals), callbacks built from the REAL classes of neurodiffeq.callbacks wrapping logging
actions, sequences of fit() calls; the same callback terms + scripted histories are run through the Lean driver and the
per-epoch observations are compared line by line.  Independently the property itself (documented predicate vs observed
firing, stop semantics, set-once/reset, distinct parameters, the batch-count rule) is evaluated in Python on the real logs."""
import itertools
import json
import math
import random
import time
from fractions import Fraction

from ..runner import Report, kernel_phase, run_driver, split_blocks

PID = 'C16'
THEOREMS = [
    'cond_eval_bool', 'cond_sem_and', 'cond_sem_or', 'cond_sem_not', 'cond_sem_xor',
    'periodLocal_iff', 'periodGlobal_iff', 'periodLocal_iff_exists', 'periodGlobal_iff_exists',
    'intervalLocal_iff', 'intervalGlobal_iff', 'onFirstLocal_iff', 'onFirstGlobal_iff', 'onLast_iff', 'monitor_cb_iff',
    'repeated_state', 'soFarAfter_ge_iff', 'repeated_iff', 'repeated_threshold_iff', 'repeated_below_first_epoch_witness',
    'callbacks_preserve_ctx', 'callbacks_log', 'action_runs_iff_condition', 'epoch_ctx',
    'epochStep_log', 'pure_callback_persists', 'loop_pure_persist', 'pure_action_runs_iff_sem',
    'stop_flag_iff', 'stop_semantics', 'early_exit_only_by_stop', 'fit_after_stop_runs', 'loop_locs', 'fit_epochs',
    'set_once', 'set_reset', 'set_effect', 'setOptimizer_once', 'setOptimizer_reset', 'setOptimizer_distinct_params',
    'trunc_eq_floor_under_max', 'floor_logb_ge_iff', 'eveK_spec', 'eve_formula', 'eve_model_eq_code', 'eve_model_eq_code_any', 'eveKAny_spec', 'eveK_spec_gt', 'eve_action',
]
LOSS_OFFSET = 1000
PER_NET = 4
PURE_LEAVES = ('T', 'F', 'ofl', 'ofg', 'oll', 'pl', 'pg', 'il', 'ig', 'mon')
KINDS = ('up', 'down', 'conv', 'div', 'below', 'above')
CHANGE_KINDS = ('up', 'down', 'conv', 'div')


# ----------------------------------------------------------------------------------------------------------------------
# condition terms: spec (nested lists, JSON-friendly) -> real object / driver tokens / documented predicate
# ----------------------------------------------------------------------------------------------------------------------

def build_cond(spec, mon_sink=None):
    """real neurodiffeq object for a spec; binary and/or/xor/not go through the real operators & | ^ ~"""
    from neurodiffeq import callbacks as C
    t = spec[0]
    if t == 'T':
        return C.TrueCallback()
    if t == 'F':
        return C.FalseCallback()
    if t == 'ofl':
        return C.OnFirstLocal()
    if t == 'ofg':
        return C.OnFirstGlobal()
    if t == 'oll':
        return C.OnLastLocal()
    if t == 'pl':
        return C.PeriodLocal(spec[1], spec[2]) if spec[2] is not None else C.PeriodLocal(spec[1])
    if t == 'pg':
        return C.PeriodGlobal(spec[1], spec[2]) if spec[2] is not None else C.PeriodGlobal(spec[1])
    if t == 'il':
        return C.ClosedIntervalLocal(min=spec[1], max=spec[2])
    if t == 'ig':
        return C.ClosedIntervalGlobal(min=spec[1], max=spec[2])
    if t == 'rep':
        _, kind, param, ut, n = spec
        if kind == 'up':
            return C.RepeatedMetricUp(at_least_by=param, use_train=bool(ut), repetition=n)
        if kind == 'down':
            return C.RepeatedMetricDown(at_least_by=param, use_train=bool(ut), repetition=n)
        if kind == 'conv':
            return C.RepeatedMetricConverge(epsilon=param, use_train=bool(ut), repetition=n)
        if kind == 'div':
            return C.RepeatedMetricDiverge(gap=param, use_train=bool(ut), repetition=n)
        if kind == 'below':
            return C.RepeatedMetricBelow(param, bool(ut), 'loss', n, None)
        if kind == 'above':
            return C.RepeatedMetricAbove(param, bool(ut), 'loss', n, None)
    if t == 'not':
        return ~build_cond(spec[1])
    if t == 'and':
        return build_cond(spec[1]) & build_cond(spec[2])
    if t == 'or':
        return build_cond(spec[1]) | build_cond(spec[2])
    if t == 'xor':
        return build_cond(spec[1]) ^ build_cond(spec[2])
    if t in ('andn', 'orn', 'xorn'):
        cls = dict(andn=C.AndCallback, orn=C.OrCallback, xorn=C.XorCallback)[t]
        return cls([build_cond(s) for s in spec[1]])
    raise ValueError(f'unknown cond spec {spec}')


def tok(v):
    return '_' if v is None else str(v)


def cond_tokens(spec):
    t = spec[0]
    if t in ('T', 'F', 'ofl', 'ofg', 'oll'):
        return t
    if t in ('pl', 'pg'):
        return f'{t} {spec[1]} {0 if spec[2] is None else spec[2]}'
    if t in ('il', 'ig'):
        return f'{t} {tok(spec[1])} {tok(spec[2])}'
    if t == 'mon':
        return f'mon {tok(spec[1])}'
    if t == 'rep':
        return f'rep {spec[1]} {spec[2]} {int(bool(spec[3]))} {spec[4]}'
    if t == 'not':
        return 'not ' + cond_tokens(spec[1])
    if t in ('and', 'or', 'xor'):
        return f'{t} {cond_tokens(spec[1])} {cond_tokens(spec[2])}'
    if t in ('andn', 'orn', 'xorn'):
        return f'{t} {len(spec[1])} ' + ' '.join(cond_tokens(s) for s in spec[1])
    raise ValueError(spec)


def is_pure(spec):
    t = spec[0]
    if t == 'rep':
        return False
    if t == 'not':
        return is_pure(spec[1])
    if t in ('and', 'or', 'xor'):
        return is_pure(spec[1]) and is_pure(spec[2])
    if t in ('andn', 'orn', 'xorn'):
        return all(is_pure(s) for s in spec[1])
    return True


def doc_pred(spec, loc, glob, mx):
    """the DOCUMENTED predicate of a pure term (docstrings of callbacks.py / monitors.py), Boolean semantics for & | ~ ^"""
    t = spec[0]
    if t == 'T':
        return True
    if t == 'F':
        return False
    if t == 'ofl':
        return loc == 1
    if t == 'ofg':
        return glob == 1
    if t == 'oll':
        return loc == mx
    if t in ('pl', 'pg'):
        e, p, off = (loc if t == 'pl' else glob), spec[1], (spec[2] or 0)
        return any(e == p * n + off for n in range(-40, 41))     # "equals period × n + offset" for some integer n
    if t in ('il', 'ig'):
        e = loc if t == 'il' else glob
        return (spec[1] is None or spec[1] <= e) and (spec[2] is None or e <= spec[2])
    if t == 'mon':
        ce = spec[1] or 100
        return loc == mx or loc % ce == 0                         # "every check_every epochs and after the last local epoch"
    if t == 'not':
        return not doc_pred(spec[1], loc, glob, mx)
    if t == 'and':
        return doc_pred(spec[1], loc, glob, mx) and doc_pred(spec[2], loc, glob, mx)
    if t == 'or':
        return doc_pred(spec[1], loc, glob, mx) or doc_pred(spec[2], loc, glob, mx)
    if t == 'xor':
        return doc_pred(spec[1], loc, glob, mx) != doc_pred(spec[2], loc, glob, mx)
    if t == 'andn':
        return all(doc_pred(s, loc, glob, mx) for s in spec[1])
    if t == 'orn':
        return any(doc_pred(s, loc, glob, mx) for s in spec[1])
    if t == 'xorn':
        return sum(doc_pred(s, loc, glob, mx) for s in spec[1]) % 2 == 1
    raise ValueError(spec)


def step_ok(kind, param, last, prev):
    if kind == 'up':
        return last >= prev + param
    if kind == 'down':
        return last <= prev - param
    if kind == 'conv':
        return abs(last - prev) < abs(param)
    if kind == 'div':
        return abs(last - prev) > abs(param)
    if kind == 'below':
        return last < param
    if kind == 'above':
        return last > param


def doc_repeated(spec, hist):
    """'the metric for the latest n epochs kept …' read as: the last n steps each satisfy the step predicate"""
    _, kind, param, ut, n = spec
    if len(hist) < n + 1:
        return n == 0
    return all(step_ok(kind, param, hist[-1 - i], hist[-2 - i]) for i in range(n))


def counters(obj):
    """so_far counters of a real condition object, pre-order"""
    from neurodiffeq import callbacks as C
    if isinstance(obj, C._RepeatedMetricChange):
        return [obj.so_far]
    if isinstance(obj, (C.AndCallback, C.OrCallback, C.XorCallback)):
        return [c for sub in obj.condition_callbacks for c in counters(sub)]
    if isinstance(obj, C.NotCallback):
        return counters(obj.condition_callback)
    return []


# ----- enumeration of all terms up to a depth over a leaf pool (same indexing as Callbacks.treeAt) --------------------

def tree_count(L, d):
    return L if d == 0 else L + tree_count(L, d - 1) + 3 * tree_count(L, d - 1) ** 2


def tree_at(leaves, d, i):
    L = len(leaves)
    if d == 0 or i < L:
        return leaves[i]
    t = tree_count(L, d - 1)
    if i < L + t:
        return ['not', tree_at(leaves, d - 1, i - L)]
    j = i - L - t
    op = ('and', 'or', 'xor')[j // (t * t)]
    return [op, tree_at(leaves, d - 1, (j // t) % t), tree_at(leaves, d - 1, j % t)]


class TreeFactory:
    """real objects for tree_at; pure sub-terms of depth < d are shared objects (they are stateless), every top-level
    term is a fresh object because it carries its own action"""

    def __init__(self, leaves, d):
        self.leaves, self.d, self.cache = leaves, d, {}

    def sub(self, d, i):
        key = (d, i)
        if key not in self.cache:
            self.cache[key] = self.make(d, i)
        return self.cache[key]

    def make(self, d, i):
        L = len(self.leaves)
        if d == 0 or i < L:
            return build_cond(self.leaves[i])
        t = tree_count(L, d - 1)
        if i < L + t:
            return ~self.sub(d - 1, i - L)
        j = i - L - t
        a, b = self.sub(d - 1, (j // t) % t), self.sub(d - 1, j % t)
        op = j // (t * t)
        return a & b if op == 0 else a | b if op == 1 else a ^ b


# ----------------------------------------------------------------------------------------------------------------------
# the real run
# ----------------------------------------------------------------------------------------------------------------------

class Recorder:
    def __init__(self):
        self.fit_idx = 0
        self.fired = []          # indices of actions run in the current epoch, in order
        self.epochs = []         # dicts
        self.fits = []
        self.child_fired = 0     # actions attached to sub-terms must never run

    def fire(self, idx):
        self.fired.append(idx)


def make_world(script):
    """(solver, callbacks list incl. final recorder, recorder, objects) for a script"""
    import torch
    from neurodiffeq import diff
    from neurodiffeq.callbacks import ActionCallback, StopCallback, SetLossFn, SetOptimizer, EveCallback
    from neurodiffeq.conditions import IVP
    from neurodiffeq.generators import Generator1D
    from neurodiffeq.monitors import BaseMonitor
    from neurodiffeq.networks import FCNN
    from neurodiffeq.solvers import Solver1D

    rec = Recorder()
    sv = script.get('solver', {})
    net_ids = sv.get('nets', [0])
    den = script.get('den', 1)
    scripts = dict(train=script.get('train', []), valid=script.get('valid', []))

    class SpySolver(Solver1D):
        def _set_loss_fn(self, criterion):
            self.__dict__['_lsets'] = self.__dict__.get('_lsets', 0) + 1
            super()._set_loss_fn(criterion)

        @property
        def optimizer(self):
            return self.__dict__['_opt']

        @optimizer.setter
        def optimizer(self, o):
            self.__dict__['_osets'] = self.__dict__.get('_osets', 0) + 1
            self.__dict__['_opt'] = o
            hook = self.__dict__.get('_on_opt')
            if hook:
                hook(o)           # label optimizers in the order they are assigned (creation order for SetOptimizer(class))

    class Loss:
        """scripted loss: value of the epoch (index = completed epochs of the phase) + LOSS_OFFSET * id, over den"""
        def __init__(self, ident):
            self.ident, self.solver = ident, None

        def __call__(self, r, f, x):
            s = self.solver
            ph = s._phase
            k = len(s.metrics_history[f'{ph}_loss'])
            sc = scripts[ph]
            v = (sc[k] if k < len(sc) else 0) + LOSS_OFFSET * self.ident
            return 0 * r.sum() + v / den

    losses = {0: Loss(0)}
    distinct = sorted(set(net_ids))
    net_objs = {i: FCNN(1, 1, hidden_units=(2,)) for i in distinct}
    nets = [net_objs[i] for i in net_ids]
    n = len(nets)
    if n == 1:
        ode = lambda u, t: [diff(u, t) + u]
    else:
        ode = lambda *a: [diff(u, a[-1]) + u for u in a[:-1]]
    solver = SpySolver(ode, [IVP(0.0, 1.0) for _ in nets], t_min=0.0, t_max=1.0, nets=nets,
                       train_generator=Generator1D(4), valid_generator=Generator1D(4),
                       n_batches_train=sv.get('n_train', 1), n_batches_valid=sv.get('n_valid', 1), loss_fn=losses[0])
    solver.__dict__['_lsets'] = 0
    solver.__dict__['_osets'] = 0
    losses[0].solver = solver
    param_index = {}
    for i in distinct:
        for j, p in enumerate(net_objs[i].parameters()):
            param_index[id(p)] = i * PER_NET + j
    opt_label = {id(solver.optimizer): 0}
    keep = [solver.optimizer]
    created = [0]

    def label_opt(o):
        if id(o) not in opt_label:
            opt_label[id(o)] = 100 + created[0]
            created[0] += 1
            keep.append(o)
        return opt_label[id(o)]
    solver.__dict__['_on_opt'] = label_opt

    def logged(cls, idx, *a, **kw):
        class Logged(cls):
            def __call__(self, s):
                rec.fire(idx)
                return super().__call__(s)
        Logged.__name__ = 'Logged' + cls.__name__
        return Logged(*a, **kw)

    class Spy(ActionCallback):
        def __init__(self, idx):
            super().__init__()
            self.idx = idx

        def __call__(self, s):
            rec.fire(self.idx)

    class ChildSpy(ActionCallback):
        def __call__(self, s):
            rec.child_fired += 1

    class Mon(BaseMonitor):
        def __init__(self, idx, check_every):
            super().__init__(check_every=check_every)
            self.idx = idx

        def check(self, nets, conditions, history):
            rec.fire(self.idx)

    def make_action(a, idx):
        if a is None:
            return None
        t = a[0]
        if t == 'spy':
            return Spy(idx)
        if t == 'stop':
            return logged(StopCallback, idx)
        if t == 'setloss':
            if a[1] not in losses:
                losses[a[1]] = Loss(a[1])
                losses[a[1]].solver = solver
            return logged(SetLossFn, idx, losses[a[1]], reset=bool(a[2]))
        if t == 'setoptinst':
            params = []
            for net in nets:
                for p in net.parameters():
                    if not any(p is q for q in params):
                        params.append(p)
            o = torch.optim.SGD(params[:a[3]] if len(a) > 3 else params, lr=0.0)
            opt_label[id(o)] = a[1]
            keep.append(o)
            return logged(SetOptimizer, idx, o, reset=bool(a[2]))
        if t == 'setoptcls':
            return logged(SetOptimizer, idx, torch.optim.SGD, optimizer_kwargs=dict(lr=0.0), reset=bool(a[1]))
        if t == 'eve':
            _, v0, p, n0, nmax, ut = a
            return logged(EveCallback, idx, base_value=v0, double_at=p, n_0=n0, n_max=nmax, use_train=bool(ut))
        raise ValueError(a)

    def attach_children(obj):
        from neurodiffeq import callbacks as C
        subs = []
        if isinstance(obj, (C.AndCallback, C.OrCallback, C.XorCallback)):
            subs = obj.condition_callbacks
        elif isinstance(obj, C.NotCallback):
            subs = [obj.condition_callback]
        for s in subs:
            s.set_action_callback(ChildSpy())
            attach_children(s)

    cbs, objs = [], []
    if script.get('kind') == 'table':
        fac = TreeFactory(script['leaves'], script['depth'])
        for i in range(script['count']):
            c = fac.make(script['depth'], script['start'] + i)
            c.set_action_callback(Spy(i))
            cbs.append(c)
    else:
        for idx, cb in enumerate(script['cbs']):
            cond, act = cb.get('cond'), cb.get('action')
            if cond is None:
                o = make_action(act, idx)
            elif cond[0] == 'mon':
                o = Mon(idx, cond[1]).to_callback()
            else:
                o = build_cond(cond)
                attach_children(o)
                a = make_action(act, idx)
                if a is not None:
                    if idx % 2:
                        o = a.conditioned_on(o)
                    else:
                        o.set_action_callback(a)
            cbs.append(o)
            objs.append(o)

    is_table = script.get('kind') == 'table'
    ncb = len(cbs)

    class Rec(ActionCallback):
        def __call__(self, s):
            fired, rec.fired = rec.fired, []
            e = dict(fit=rec.fit_idx, loc=s.local_epoch, glob=s.global_epoch, max=s._max_local_epoch, fired=fired,
                     ntrain_hist=len(s.metrics_history['train_loss']), nvalid_hist=len(s.metrics_history['valid_loss']))
            if not is_table:
                o = s.optimizer
                e.update(stop=int(bool(s._stop_training)), nb=s.n_batches['train'],
                         loss=next((k for k, v in losses.items() if v is s.loss_fn), -1), lsets=s.__dict__['_lsets'],
                         opt=label_opt(o), osets=s.__dict__['_osets'],
                         params=[param_index.get(id(p), -1) for g in o.param_groups for p in g['params']],
                         n_distinct=len({id(p) for net in s.nets for p in net.parameters()}),
                         st=[state_of(x) for x in objs])
            rec.epochs.append(e)

    def state_of(o):
        from neurodiffeq import callbacks as C
        if isinstance(o, C.ConditionCallback):
            cs = counters(o)
            s = ','.join(str(c) for c in cs) if cs else '.'
            a = o.action_callback
            if isinstance(a, (C.SetLossFn, C.SetOptimizer)):
                s += f'c{int(a.called)}'
            return s
        if isinstance(o, (C.SetLossFn, C.SetOptimizer)):
            return f'c{int(o.called)}'
        return '.'

    return solver, cbs + [Rec()], rec, dict(ncb=ncb, den=den)


def real_run(script):
    solver, cbs, rec, info = make_world(script)
    for m in script['fits']:
        rec.fit_idx += 1
        before = len(rec.epochs)
        solver.fit(m, callbacks=cbs, tqdm_file=None)
        rec.fits.append(dict(fit=rec.fit_idx, loc=solver.local_epoch, glob=solver.global_epoch, max=solver._max_local_epoch,
                             stop=int(bool(solver._stop_training)), ran=len(rec.epochs) - before, requested=m))
    den = info['den']

    def ints(h):
        out = []
        for v in h:
            x = v * den
            if abs(x - round(x)) > 1e-6:
                raise RuntimeError(f'scripted history value {v} is not an exact multiple of 1/{den}')
            out.append(int(round(x)))
        return out
    hist = dict(train=ints(solver.metrics_history['train_loss']), valid=ints(solver.metrics_history['valid_loss']))
    return rec, hist, info


def csv(l):
    return ','.join(str(x) for x in l) if l else '-'


def real_lines(script, rec, hist, info):
    table = script.get('kind') == 'table'
    out, ei = [], 0
    for f in rec.fits:
        for e in rec.epochs[ei:ei + f['ran']]:
            head = f'E {e["fit"]} {e["loc"]} {e["glob"]} {e["max"]} '
            if table:
                bits = ['0'] * info['ncb']
                for j in e['fired']:
                    bits[j] = '1'
                out.append(head + 'bits=' + ''.join(bits))
            else:
                out.append(head + f'fired={csv(e["fired"])} stop={e["stop"]} nb={e["nb"]} loss={e["loss"]} lsets={e["lsets"]} '
                                  f'opt={e["opt"]} osets={e["osets"]} params={csv(e["params"])} st={";".join(e["st"])}')
        ei += f['ran']
        out.append(f'F {f["fit"]} loc={f["loc"]} glob={f["glob"]} max={f["max"]} stop={f["stop"]} ran={f["ran"]}')
    out.append(f'H train={csv(hist["train"])} valid={csv(hist["valid"])}')
    return out


def action_tokens(a, script):
    if a is None:
        return 'none'
    t = a[0]
    if t in ('spy', 'stop'):
        return t
    if t == 'setloss':
        return f'setloss {a[1]} {int(bool(a[2]))}'
    if t == 'setoptinst':
        nets = script.get('solver', {}).get('nets', [0])
        params = []
        for i in nets:
            for j in range(PER_NET):
                if i * PER_NET + j not in params:
                    params.append(i * PER_NET + j)
        if len(a) > 3:
            params = params[:a[3]]
        return f'setoptinst {a[1]} {int(bool(a[2]))} {csv(params)}'
    if t == 'setoptcls':
        return f'setoptcls {int(bool(a[1]))}'
    if t == 'eve':
        _, v0, p, n0, nmax, ut = a
        fv, fp = Fraction(v0), Fraction(p)
        return (f'eve {fv.numerator} {fv.denominator} {fp.numerator} {fp.denominator} {script.get("den", 1)} {n0} '
                f'{tok(nmax)} {int(bool(ut))}')
    raise ValueError(a)


def driver_block(script):
    sv = script.get('solver', {})
    lines = [f'solver {sv.get("n_train", 1)} {sv.get("n_valid", 1)} {PER_NET} {csv(sv.get("nets", [0]))}',
             f'train {csv(script.get("train", []))}', f'valid {csv(script.get("valid", []))}']
    if script.get('kind') == 'table':
        lines.append(f'table {script["depth"]} {script["start"]} {script["count"]} : ' +
                     ' ; '.join(cond_tokens(l) for l in script['leaves']))
    else:
        for cb in script['cbs']:
            if cb.get('cond') is None:
                lines.append('cb bare ' + action_tokens(cb['action'], script))
            else:
                lines.append(f'cb cond {action_tokens(cb.get("action"), script)} : {cond_tokens(cb["cond"])}')
    lines += [f'fit {m}' for m in script['fits']]
    return '\n'.join(lines + ['---'])


# ----------------------------------------------------------------------------------------------------------------------
# the property itself, on the real observations
# ----------------------------------------------------------------------------------------------------------------------

def eve_expected(a, v_int, den):
    """(n_batches expected by the documented rule, fractional part of log_p(v/v0)) with exact rational arithmetic"""
    _, v0, p, n0, nmax, ut = a
    x = Fraction(v_int, den) / Fraction(v0)
    fp = Fraction(p)
    k = 0
    while (x <= fp ** (k + 1)) if fp < 1 else (x >= fp ** (k + 1)):      # k = max(0, floor(log_p(v / v0))), for p below and above 1
        k += 1
    L = (math.log(v_int / den) - math.log(v0)) / math.log(p)
    n = n0 * 2 ** k
    return (min(n, nmax) if nmax else n), L - math.floor(L)


def eve_away(frac):
    return 1e-9 < frac < 1 - 1.01e-4


def property_failures(script, rec, hist, info, stats):
    """list of human-readable violations of the property statement observed in this real run"""
    bad = []
    table = script.get('kind') == 'table'
    if rec.child_fired:
        bad.append(f'actions attached to sub-terms of a combined condition ran {rec.child_fired} times')
    # epoch bookkeeping + stop semantics
    ei = 0
    for f in rec.fits:
        eps = rec.epochs[ei:ei + f['ran']]
        ei += f['ran']
        if [e['loc'] for e in eps] != list(range(1, f['ran'] + 1)):
            bad.append(f'fit {f["fit"]}: local epochs {[e["loc"] for e in eps]} are not 1..{f["ran"]}')
        if any(e['max'] != f['requested'] for e in eps):
            bad.append(f'fit {f["fit"]}: max epochs seen by callbacks differs from the requested {f["requested"]}')
        if not table:
            stops = [any(is_stop(script, j) for j in e['fired']) for e in eps]
            for i, s in enumerate(stops):
                if s and i != len(eps) - 1:
                    bad.append(f'fit {f["fit"]}: a stop action ran in local epoch {i + 1} but epoch {i + 2} still ran')
                    break
            if f['ran'] < f['requested'] and not (stops and stops[-1]):
                bad.append(f'fit {f["fit"]}: only {f["ran"]} of {f["requested"]} epochs ran although no stop action ran')
            if f['requested'] > 0 and f['ran'] == 0:
                bad.append(f'fit {f["fit"]}: no epoch ran (stale stop flag?)')
            stats['stops'] += sum(stops)
    if table:
        leaves, d = script['leaves'], script['depth']
        specs = [tree_at(leaves, d, script['start'] + i) for i in range(script['count'])]
    else:
        specs = [cb.get('cond') for cb in script['cbs']]
    acts = [['spy']] * len(specs) if table else [cb.get('action') for cb in script['cbs']]
    # firing vs documented predicate
    for e in rec.epochs:
        fired = set(e['fired'])
        th, vh = hist['train'][:e['ntrain_hist']], hist['valid'][:e['nvalid_hist']]
        for j, (spec, act) in enumerate(zip(specs, acts)):
            if act is None:
                if j in fired:
                    bad.append(f'callback {j} has no action but something ran')
                continue
            if spec is None:
                want = True
            elif is_pure(spec):
                want = doc_pred(spec, e['loc'], e['glob'], e['max'])
                stats['pure_evals'] += 1
                stats['pure_true'] += want
            elif spec[0] == 'rep':
                h = th if spec[3] else vh
                want = doc_repeated(spec, h)
                stats['rep_evals'] += 1
                stats['rep_true'] += want
                if spec[1] in ('below', 'above'):
                    n = spec[4]
                    doc_reading = len(h) >= n and all(step_ok(spec[1], spec[2], v, 0) for v in h[len(h) - n:])
                    stats['threshold_doc_deviation'] += (doc_reading != (j in fired))
            else:
                continue
            if want != (j in fired):
                bad.append(f'callback {j} {json.dumps(spec)} at fit {e["fit"]} local {e["loc"]} global {e["glob"]} max {e["max"]}: '
                           f'documented predicate is {want}, action ran: {j in fired}')
                if len(bad) > 8:
                    return bad
    if table:
        return bad
    # actions: set-once / reset / effect, distinct parameters, Eve
    called = {}
    prev = dict(lsets=0, osets=0, loss=0)
    for ei, e in enumerate(rec.epochs):
        exp_l, exp_o, last_loss = 0, 0, None
        for j in e['fired']:
            a = acts[j]
            if a[0] == 'setloss' and (a[2] or not called.get(j)):
                exp_l += 1
                last_loss = a[1]
                called[j] = True
            if a[0] in ('setoptinst', 'setoptcls') and (a[-1 if a[0] == 'setoptcls' else 2] or not called.get(j)):
                exp_o += 1
                called[j] = True
                stats['opt_sets'] += 1
        if e['lsets'] - prev['lsets'] != exp_l:
            bad.append(f'epoch {ei}: loss function set {e["lsets"] - prev["lsets"]} times, expected {exp_l} (set-once / reset)')
        if last_loss is not None and e['loss'] != last_loss:
            bad.append(f'epoch {ei}: solver.loss_fn is {e["loss"]}, expected {last_loss}')
        if last_loss is None and e['loss'] != prev['loss']:
            bad.append(f'epoch {ei}: solver.loss_fn changed without an effective SetLossFn')
        if e['osets'] - prev['osets'] != exp_o:
            bad.append(f'epoch {ei}: optimizer set {e["osets"] - prev["osets"]} times, expected {exp_o} (set-once / reset)')
        stats['loss_sets'] += exp_l
        if e['opt'] >= 100 or e['opt'] == 0:
            # optimizer built by the solver / by SetOptimizer(class): every distinct parameter exactly once
            if len(e['params']) != e['n_distinct'] or len(set(e['params'])) != e['n_distinct'] or -1 in e['params']:
                bad.append(f'epoch {ei}: optimizer {e["opt"]} registers parameters {e["params"]} for {e["n_distinct"]} distinct ones')
            stats['distinct_checks'] += 1
        # the loss function in force produced this epoch's train value
        if e['ntrain_hist'] >= 1 and script.get('solver', {}).get('n_train', 1) > 0:
            k = e['ntrain_hist'] - 1
            sc = script.get('train', [])
            if hist['train'][k] != (sc[k] if k < len(sc) else 0) + LOSS_OFFSET * prev['loss']:
                bad.append(f'epoch {ei}: train loss {hist["train"][k]} was not produced by loss function {prev["loss"]}')
        for j in e['fired']:
            a = acts[j]
            if a[0] == 'eve' and all(acts[i][0] != 'eve' for i in e['fired'] if i > j):
                h = hist['train'][:e['ntrain_hist']] if a[5] else hist['valid'][:e['nvalid_hist']]
                want, frac = eve_expected(a, h[-1], info['den'])
                if eve_away(frac):
                    stats['eve_checked'] += 1
                    if e['nb'] != want:
                        bad.append(f'epoch {ei}: Eve{a[1:]} on v={h[-1]}/{info["den"]}: n_batches={e["nb"]}, rule gives {want}')
                else:
                    stats['eve_boundary'] += 1
        prev = dict(lsets=e['lsets'], osets=e['osets'], loss=e['loss'])
    return bad


def is_stop(script, j):
    a = script['cbs'][j].get('action')
    return a is not None and a[0] == 'stop'


# ----------------------------------------------------------------------------------------------------------------------
# script generators
# ----------------------------------------------------------------------------------------------------------------------

def all_leaf_specs():
    out = [['T'], ['F'], ['ofl'], ['ofg'], ['oll']]
    for p in range(1, 6):
        for off in [None] + list(range(-p, 2 * p + 1)):
            out += [['pl', p, off], ['pg', p, off]]
    bounds = [None] + list(range(0, 14))
    for lo in bounds:
        for hi in bounds:
            out += [['il', lo, hi], ['ig', lo, hi]]
    for ce in (None, 1, 2, 3, 4, 5, 7):
        out.append(['mon', ce])
    return out


def rand_leaf(rng):
    t = rng.choice(['T', 'F', 'ofl', 'ofg', 'oll', 'pl', 'pl', 'pg', 'pg', 'il', 'ig'])
    if t in ('pl', 'pg'):
        p = rng.randint(1, 5)
        return [t, p, rng.choice([None, rng.randint(-p, 2 * p)])]
    if t in ('il', 'ig'):
        return [t, rng.choice([None, rng.randint(0, 8)]), rng.choice([None, rng.randint(1, 13)])]
    return [t]


def rand_tree(rng, depth):
    if depth == 0 or rng.random() < 0.15:
        return rand_leaf(rng)
    op = rng.choice(['and', 'or', 'xor', 'not', 'and', 'or', 'xor', 'nary'])
    if op == 'not':
        return ['not', rand_tree(rng, depth - 1)]
    if op == 'nary':
        return [rng.choice(['andn', 'orn', 'xorn']), [rand_tree(rng, depth - 1) for _ in range(rng.randint(1, 4))]]
    return [op, rand_tree(rng, depth - 1), rand_tree(rng, depth - 1)]


def rand_fits(rng, lo_calls=1):
    return [rng.randint(0, 6) for _ in range(rng.randint(lo_calls, 4))]


COVER_FITS = [6, 0, 4, 2]          # local epochs 1..6, global epochs 1..12, a max_epochs=0 call


def rand_rep(rng, lo=-3, hi=3):
    kind = rng.choice(KINDS)
    return ['rep', kind, rng.randint(lo, hi) if kind not in ('below', 'above') else rng.randint(-2, 2), rng.random() < 0.7, rng.randint(0, 4)]


def gen_scripts(tier, seed):
    rng = random.Random(seed)
    quick = tier == 'quick'
    S = []
    # (a) every leaf predicate, every period 1..5 with offsets -p..2p, every closed interval over {None,0..13}, monitors
    leaves = all_leaf_specs()
    for fits in [COVER_FITS, [3, 5, 1, 6]] + [rand_fits(rng) for _ in range(1 if quick else 6)]:
        S.append(dict(family='leaves', cbs=[dict(cond=l, action=['spy']) for l in leaves], fits=fits, cbs_ref='all_leaf_specs'))
    # the same leaves, the call stopped early by a conditioned stop (callbacks after the stop still run in that epoch)
    S.append(dict(family='leaves', cbs=[dict(cond=['pg', 4, 3], action=['stop'])] + [dict(cond=l, action=['spy']) for l in leaves[:200]],
                  fits=[6, 6, 0, 6]))
    # (b) exhaustive truth tables: all terms of depth <= D over constant leaves (every assignment of every skeleton)
    D = 2 if quick else 3
    total = tree_count(2, D)
    chunk = 60000
    for st in range(0, total, chunk):
        S.append(dict(family='truth-table', kind='table', depth=D, start=st, count=min(chunk, total - st), leaves=[['T'], ['F']], fits=[1]))
    # (c) all terms of depth <= 2 over epoch-predicate leaves whose joint truth assignments are all realised over the epochs
    pools = [[['pg', 2, 0], ['pg', 3, 0], ['il', 2, 4], ['oll']]]
    if not quick:
        pools += [[['pl', 2, 1], ['pg', 3, 1], ['ig', 7, None], ['ofl'], ['pl', 5, 2], ['ig', None, 3]],
                  [['pl', 3, 0], ['pg', 4, 2], ['il', None, 2], ['ofg'], ['pg', 5, 0]]]
    for pool in pools:
        total = tree_count(len(pool), 2)
        for st in range(0, total, 20000):
            S.append(dict(family='truth-table-epochs', kind='table', depth=2, start=st, count=min(20000, total - st), leaves=pool,
                          fits=COVER_FITS))
    # (d) random terms of depth <= 3 (incl. n-ary lists) over random leaves, random fit sequences
    for _ in range(15 if quick else 80):
        S.append(dict(family='random-terms', cbs=[dict(cond=rand_tree(rng, 3), action=['spy']) for _ in range(60)] +
                      [dict(cond=rand_tree(rng, 2), action=None)], fits=rand_fits(rng, 2)))
    # (e) fit() sequences: up to 4 calls, max_epochs 0..6 — all of them in thorough — with stops and a fixed callback mix
    seqs = [list(s) for k in range(1, 5) for s in itertools.product(range(7), repeat=k)]
    for fits in (rng.sample(seqs, 200) if quick else seqs):
        stop_cond = rng.choice([['pg', rng.randint(2, 5), rng.randint(0, 4)], ['il', rng.randint(2, 5), None], ['oll'],
                                ['and', ['pl', 2, 0], ['ig', 3, None]], ['F']])
        cbs = [dict(cond=['oll'], action=['spy']), dict(cond=stop_cond, action=['stop']), dict(cond=['ofl'], action=['spy']),
               dict(cond=['ofg'], action=['spy']), dict(cond=['mon', rng.choice([None, 2, 3])], action=['spy']),
               dict(cond=rand_tree(rng, 2), action=['spy']), dict(cond=None, action=['spy']),
               dict(cond=['xor', ['pl', 2, 0], ['pg', 2, 0]], action=['setloss', 1, 0]),
               dict(cond=rand_tree(rng, 2), action=['spy'])]
        if rng.random() < 0.15:
            cbs.insert(rng.randint(0, len(cbs)), dict(cond=None, action=['stop']))
        S.append(dict(family='fit-sequences', cbs=cbs, fits=fits,
                      solver=dict(n_train=0 if rng.random() < 0.04 else 1, n_valid=rng.choice([1, 1, 1, 0]))))
    # (f) repeated-metric predicates on scripted integer histories (top level, evaluated every epoch)
    def rep_cbs(specs):
        return [dict(cond=s, action=['spy'] if i % 5 else None) for i, s in enumerate(specs)]
    rep_all = [['rep', k, prm, ut, n] for k in KINDS for prm in (-1, 0, 1, 2) for ut in (True, False) for n in range(0, 4)]
    if not quick:
        for h in itertools.product(range(3), repeat=6):
            S.append(dict(family='repeated-exhaustive', cbs=rep_cbs([s for s in rep_all if s[3]]), fits=[6], train=list(h), valid=[]))
    for _ in range(60 if quick else 400):
        fits = rand_fits(rng, 1)
        n = sum(fits)
        mode = rng.random()
        mk = (lambda: rng.randint(-2, 2)) if mode < 0.5 else (lambda: rng.randint(-30, 30))
        tr, va = [mk() for _ in range(n)], [mk() for _ in range(n)]
        if mode > 0.8:
            tr = sorted(tr, reverse=rng.random() < 0.5)
        specs = rng.sample(rep_all, 40) + [rand_rep(rng, -20, 20) for _ in range(10)]
        S.append(dict(family='repeated', cbs=rep_cbs(specs) + [dict(cond=rand_rep(rng), action=['stop'])], fits=fits, train=tr, valid=va,
                      solver=dict(n_valid=rng.choice([1, 1, 1, 0]))))
    # (g) set-once / reset actions, optimizer instances and classes, one or two unknowns, shared or separate networks
    for i in range(60 if quick else 300):
        nets = rng.choice([[0], [0, 0], [0, 1], [0, 0], [0, 1, 0]])
        cbs = []
        for _ in range(rng.randint(2, 6)):
            act = rng.choice([['setloss', rng.randint(1, 3), rng.random() < 0.5], ['setoptcls', rng.random() < 0.5],
                              ['setoptinst', rng.randint(1, 9), rng.random() < 0.5], ['setoptcls', False], ['spy'], ['stop']])
            if act[0] == 'setoptinst':
                act[1] = 10 + len(cbs)
            cbs.append(dict(cond=rng.choice([None, ['T'], rand_tree(rng, 2), rand_leaf(rng), ['pl', 2, rng.randint(0, 1)]]), action=act))
        if i == 0:
            nets, cbs = [0, 0], [dict(cond=['ofg'], action=['setoptcls', False])]
        n = 30
        S.append(dict(family='set-actions', cbs=cbs, fits=rand_fits(rng, 2), solver=dict(nets=nets), train=[rng.randint(1, 9) for _ in range(n)],
                      valid=[rng.randint(1, 9) for _ in range(n)]))
    # (h) the batch-count rule on scripted metric values (dyadic rationals m / 2^16), inside fit()
    den = 2 ** 16
    for _ in range(30 if quick else 200):
        v0, p = rng.choice([1.0, 0.5, 2.0, 0.3, 1.0]), rng.choice([0.1, 0.5, 0.25, 0.9, 0.01, 0.1, 2.0, 1.5, 3.0])
        n0, nmax, ut = rng.choice([1, 1, 2, 3]), rng.choice([None, None, 4, 8, 5, 1]), rng.random() < 0.7
        a = ['eve', v0, p, n0, nmax, ut]
        n = 24
        vals = []
        while len(vals) < 2 * n:
            kmax = 4 if nmax is None else 7
            L = rng.uniform(-2.0, kmax + 0.999 if p < 1 else min(kmax + 0.999, math.log(200 / v0) / math.log(p)))
            if rng.random() < 0.3:
                L = round(L) + rng.choice([-1, 1]) * rng.choice([2e-4, 1e-3, 5e-3, 0.02])     # close to, not inside, the boundary zone
            m = int(round(v0 * p ** L * den))
            if not 1 <= m < 2 ** 24 - LOSS_OFFSET * 4:
                continue
            if eve_away(eve_expected(a, m, den)[1]):
                vals.append(m)
        cbs = [dict(cond=rng.choice([None, ['T'], ['pl', 2, 0]]), action=a), dict(cond=['ig', 3, None], action=['spy'])]
        S.append(dict(family='eve', cbs=cbs, fits=[rng.randint(3, 6) for _ in range(4)], den=den, train=vals[:n], valid=vals[n:]))
    # (i) malformed stream: constructions the real classes reject
    return S


MALFORMED = [
    ('PeriodLocal(0)', 'cb cond spy : pl 0 0', lambda C: C.PeriodLocal(0), ZeroDivisionError),
    ('PeriodGlobal(0, 1)', 'cb cond spy : pg 0 1', lambda C: C.PeriodGlobal(0, 1), ZeroDivisionError),
    ('spy.conditioned_on(spy)', 'cb cond spy : spy', lambda C: C.StopCallback().conditioned_on(C.StopCallback()), TypeError),
    ('cond.set_action_callback(cond)', 'cb cond T : T', lambda C: C.TrueCallback().set_action_callback(C.TrueCallback()), TypeError),
]


def eve_boundary_note(rng):
    """documented boundary claim ('when v/v0 = p^k the number of batches will be n0*2^k'), outside the property's
    quantifier: evaluated on the real class, reported as a number only"""
    import numpy as np
    from neurodiffeq.callbacks import EveCallback

    class S:
        pass
    ok = tot = 0
    for v0, p in itertools.product([1.0, 0.5, 2.0], [0.1, 0.5, 0.25]):
        for k in range(0, 6):
            s = S()
            s.metrics_history = dict(train_loss=[float(np.float32(v0 * p ** k))])
            s.n_batches = dict(train=1)
            EveCallback(base_value=v0, double_at=p, n_0=1)(s)
            tot += 1
            ok += s.n_batches['train'] == 2 ** k
    return ok, tot


# ----------------------------------------------------------------------------------------------------------------------

def eve_large_k_checks():
    """the batch-count rule for LARGE k (a metric many orders of magnitude below its base value, e.g. a loss that has reached round-off):
    min(n_0 * 2^k, n_max) in exact integer arithmetic - evaluated on the real class with values half-way between two boundaries"""
    from neurodiffeq.callbacks import EveCallback

    class S:
        pass
    bad = []
    for p, v0 in ((0.5, 1.0), (0.1, 1.0), (0.5, 2.0 ** 30), (0.25, 3.0), (2.0, 1.0), (10.0, 1.0e-3)):
        for k in (20, 31, 32, 40, 62, 63, 64, 65, 70, 100, 200, 300):
            v = v0 * p ** (k + 0.5)
            if not (0.0 < v < float('inf')):
                continue
            for n0, nmax in ((1, 1000), (3, 2 ** 66), (1, None), (5, 7)):
                s = S()
                s.metrics_history = dict(train_loss=[v])
                s.n_batches = dict(train=1, valid=1)
                try:
                    EveCallback(base_value=v0, double_at=p, n_0=n0, n_max=nmax)(s)
                    got = s.n_batches['train']
                except Exception as e:
                    got = f'{type(e).__name__}: {e}'
                want = n0 * 2 ** k if nmax is None else min(n0 * 2 ** k, nmax)
                if not (isinstance(got, (int,)) or hasattr(got, '__index__')) or int(got) != want:
                    bad.append(dict(script=dict(family='eve, large k', base_value=v0, double_at=p, n_0=n0, n_max=nmax, metric_value=v, k=k),
                                    violated=[f'n_batches = {got}, rule gives min({n0} * 2^{k}, {nmax}) = {want}']))
    return bad[:6]


def truthy_condition_checks():
    """&, |, ~, ^ combine PREDICATES: a user condition may answer with any truthy / falsy value (a count, a remainder, a numpy integer);
    the combination fires according to the Boolean table of the truth values"""
    import itertools as it
    import numpy as np
    from neurodiffeq import callbacks as CB

    class Returns(CB.ConditionCallback):
        def __init__(self, value):
            super().__init__()
            self.value = value

        def condition(self, solver):
            return self.value

    class S:
        local_epoch = global_epoch = 1
        _max_local_epoch = 3
    bad = []
    vals = [0, 1, 2, 3, np.int64(2), np.int64(0), True, False, 0.5, '', 'x', None, [0]]
    for a, b in it.product(vals, repeat=2):
        for opn, build, table in (('a ^ b', lambda x, y: x ^ y, lambda p, q: p != q), ('a & b', lambda x, y: x & y, lambda p, q: p and q),
                                  ('a | b', lambda x, y: x | y, lambda p, q: p or q), ('~a', lambda x, y: ~x, lambda p, q: not p),
                                  ('(a ^ b) ^ a', lambda x, y: (x ^ y) ^ Returns(a), lambda p, q: q)):
            fired = []

            class Act(CB.ActionCallback):
                def __call__(self, solver):
                    fired.append(1)
            cb = build(Returns(a), Returns(b)).set_action_callback(Act())
            try:
                cb(S())
            except Exception as e:
                bad.append(dict(script=dict(family='conditions returning truthy / falsy non-bool values', expression=opn, a=repr(a), b=repr(b)),
                                violated=[f'{type(e).__name__}: {e}']))
                continue
            want = bool(table(bool(a), bool(b)))
            if bool(fired) != want:
                bad.append(dict(script=dict(family='conditions returning truthy / falsy non-bool values', expression=opn, a=repr(a), b=repr(b)),
                                violated=[f'action {"ran" if fired else "did not run"}; the Boolean table says it {"runs" if want else "does not run"}']))
    return bad[:6]


def nested_fit_check():
    """a callback that runs a nested fit() on the same solver: the documented predicates over the LOCAL epoch keep referring to the call they
    belong to (the outer call's epochs 1..n), before and after the nested call"""
    import warnings
    import torch
    from neurodiffeq import callbacks as CB, diff
    from neurodiffeq.solvers import Solver1D
    from neurodiffeq.conditions import IVP
    from neurodiffeq.networks import FCNN
    from neurodiffeq.generators import Generator1D
    bad = []
    with warnings.catch_warnings():
        warnings.simplefilter('ignore')
        torch.manual_seed(0)
        s = Solver1D(lambda u, t: [diff(u, t) + u], [IVP(0., 1.)], t_min=0., t_max=1., nets=[FCNN(1, 1, hidden_units=(3,))], n_batches_valid=1,
                     train_generator=Generator1D(4, 0., 1.), valid_generator=Generator1D(4, 0., 1.))
        fired, state = [], dict(done=False, epoch=0)

        class Count(CB.ActionCallback):
            def __call__(self, solver):
                state['epoch'] += 1          # the outer call's own epoch counter (this callback is first in the outer list only)

        class Mark(CB.ActionCallback):
            def __call__(self, solver):
                fired.append(state['epoch'])

        class Nested(CB.ActionCallback):
            def __call__(self, solver):
                if state['epoch'] == 2 and not state['done']:
                    state['done'] = True
                    solver.fit(3, tqdm_file=None)
        try:
            # (the nested call is started by the LAST callback of the epoch: what the other callbacks of that epoch see is not affected by it)
            s.fit(6, callbacks=[Count(), Mark().conditioned_on(CB.PeriodLocal(period=2)), Nested()], tqdm_file=None)
            if fired != [2, 4, 6]:
                bad.append(dict(script=dict(family='nested fit(3) started by a callback in epoch 2 of fit(6)', predicate='PeriodLocal(period=2)'),
                                violated=[f'action ran in outer epochs {fired}; the predicate holds in epochs [2, 4, 6]']))
        except Exception as e:
            bad.append(dict(script=dict(family='nested fit started by a callback'), violated=[f'{type(e).__name__}: {e}']))
    return bad


def frozen_parameter_checks():
    """set-once optimiser actions "leave the solver training every distinct parameter once per step": also parameters that are frozen
    (requires_grad=False) at the moment of the switch and unfrozen later - they must be registered with the new optimiser"""
    import warnings
    import torch
    from neurodiffeq import callbacks as CB
    from neurodiffeq.solvers import Solver1D
    from neurodiffeq.conditions import IVP
    from neurodiffeq.networks import FCNN
    from neurodiffeq.generators import Generator1D
    from neurodiffeq import diff
    bad = []
    with warnings.catch_warnings():
        warnings.simplefilter('ignore')
        for how in ('class', 'class+reset'):
            torch.manual_seed(2)
            net = FCNN(1, 1, hidden_units=(4, 4))
            first = list(net.NN[0].parameters())
            for p in first:
                p.requires_grad_(False)
            g = Generator1D(8, 0.0, 1.0, method='equally-spaced')
            s = Solver1D(lambda u, t: [diff(u, t) + u], [IVP(0.0, 1.0)], t_min=0.0, t_max=1.0, nets=[net], train_generator=g, valid_generator=g,
                         n_batches_valid=1)
            cb = CB.SetOptimizer(torch.optim.SGD, optimizer_kwargs=dict(lr=0.05), reset=(how == 'class+reset'))
            s.fit(2, callbacks=[cb.conditioned_on(CB.OnFirstLocal())] if hasattr(CB, 'OnFirstLocal') else [cb], tqdm_file=None)
            registered = {id(p) for grp in s.optimizer.param_groups for p in grp['params']}
            missing = [n_ for n_, p in net.named_parameters() if id(p) not in registered]
            if missing:
                bad.append(dict(script=dict(family='set-optimizer with frozen parameters', how=how),
                                violated=[f'parameters never handed to the new optimiser (frozen at the switch): {missing}']))
                continue
            for p in first:
                p.requires_grad_(True)
            before = [p.detach().clone() for p in first]
            s.fit(3, tqdm_file=None)
            if all(torch.equal(a, b.detach()) for a, b in zip(before, first)):
                bad.append(dict(script=dict(family='set-optimizer with frozen parameters', how=how),
                                violated=['parameters unfrozen after the switch are not trained by the set-once optimiser']))
    return bad


def check(tier, seed):
    rep = Report(PID, tier, seed)
    ok, hits = kernel_phase(rep, 'NdeVerif.Proofs.C16', 'NdeVerif.C16', THEOREMS)
    if hits:
        print('forbidden tokens:', hits)
        rep.finish()
        return 2
    broken = [] if ok else [dict(kind='proof', failed=rep.failed)]
    import logging
    from neurodiffeq import callbacks as C
    logging.getLogger('root').setLevel(logging.ERROR)      # the callbacks log 'condition met, but no action' warnings
    scr = gen_scripts(tier, seed)
    stats = dict(pure_evals=0, pure_true=0, rep_evals=0, rep_true=0, stops=0, loss_sets=0, opt_sets=0, distinct_checks=0,
                 eve_checked=0, eve_boundary=0, threshold_doc_deviation=0)
    fam = {}
    failing, mismatches = [], []
    epochs = 0
    t_real = time.time()
    pending = []          # (script, real lines)
    blocks = []

    def flush():
        nonlocal pending, blocks
        if not pending:
            return 0.0
        lines, dt = run_driver('C16', '\n'.join(blocks) + '\n')
        mb = split_blocks(lines)
        if len(mb) != len(pending):
            mismatches.append(dict(error='driver returned a different number of blocks', got=len(mb), want=len(pending)))
        for (s, want), got in zip(pending, mb):
            if want != got:
                first = next((i for i, (a, b) in enumerate(zip(want, got)) if a != b), min(len(want), len(got)))
                mismatches.append(dict(script=slim(s), first_difference=first, real=[x[:400] for x in want[first:first + 2]],
                                       model=[x[:400] for x in got[first:first + 2]]))
        pending, blocks = [], []
        return dt

    driver_s = 0.0
    validated = 0
    for s in scr:
        fam[s['family']] = fam.get(s['family'], 0) + 1
        try:
            rec, hist, info = real_run(s)
        except Exception as e:
            failing.append(dict(script=slim(s), error=f'{type(e).__name__}: {e}'))
            continue
        epochs += len(rec.epochs)
        bad = property_failures(s, rec, hist, info, stats)
        if bad:
            failing.append(dict(script=slim(s), violated=bad[:4]))
        pending.append((s, real_lines(s, rec, hist, info)))
        blocks.append(driver_block(s))
        validated += 1
        if len(pending) >= 800:
            driver_s += flush()
    t_real = time.time() - t_real - driver_s
    driver_s += flush()
    failing += frozen_parameter_checks()
    failing += eve_large_k_checks()
    failing += truthy_condition_checks()
    failing += nested_fit_check()
    # malformed stream
    mal_blocks, mal_real = [], []
    for name, line, ctor, exc in MALFORMED:
        try:
            ctor(C)
            mal_real.append('accepted')
        except exc:
            mal_real.append('reject 0')
        except Exception as e:
            mal_real.append(f'other {type(e).__name__}')
        mal_blocks.append('solver 1 1 4 0\n' + line + '\n---')
    lines, dt = run_driver('C16', '\n'.join(mal_blocks) + '\n')
    for (name, *_), want, got in zip(MALFORMED, mal_real, split_blocks(lines)):
        if [want] != got[:1]:
            mismatches.append(dict(malformed=name, real=want, model=got[:1]))
    if mismatches:
        broken.append(dict(kind='correspondence', stream='real fit() with neurodiffeq.callbacks vs NdeVerif.Callbacks',
                           mismatches=mismatches[:3], count=len(mismatches)))
    bok, btot = eve_boundary_note(random.Random(seed))
    rep.notes.append(f'Eve at exact documented boundaries v = float32(v0*p^k) (outside the quantifier): {bok}/{btot} give n0*2^k')
    rep.notes.append(f'RepeatedMetricBelow/Above: code needs n+1 recorded epochs (len(history) >= 2 guard), docstring reads "latest n epochs"; '
                     f'{stats["threshold_doc_deviation"]} observed epochs differ from the docstring reading (not part of the property: '
                     f'its quantifier names the repeated-change predicates)')
    rep.coverage.update(
        programs=len(scr), traces_validated_against_impl=validated - len([m for m in mismatches if 'script' in m]),
        evaluations=epochs, distinct_nontrivial=len({json.dumps(slim(s), sort_keys=True) for s in scr if sum(s['fits']) >= 2}),
        rule='a script = (solver shape, scripted train/valid loss values, list of callbacks = real condition terms + logging actions, '
             'sequence of fit(max_epochs) calls); non-trivial = at least two epochs requested; per epoch that ran the real run and the Lean '
             'model are compared on: fit index, local/global/max epoch, which actions ran (in order), stop flag, n_batches, loss_fn identity, '
             '#_set_loss_fn calls, optimizer identity, #optimizer assignments, registered parameter list, so_far counters and called flags; '
             'per fit() call: final local/global epoch, stop flag, number of epochs run; finally both metric histories',
        input_distribution=dict(families=fam, real_epochs=epochs, **stats, real_seconds=round(t_real, 1)),
        driver_seconds=round(driver_s, 1))
    rep.samples = [slim(s) for s in scr if s['family'] in ('random-terms', 'fit-sequences', 'repeated', 'set-actions', 'eve')][:3] + \
                  [slim(s) for s in scr if s['family'] in ('set-actions', 'eve')][:3]
    rep.assumptions = [
        'Boolean composition WITH stateful repeated-metric predicates is outside the property (short-circuiting skips their counters); '
        'only top-level repeated-metric conditions, evaluated every epoch, are checked (the model does cover composition)',
        'metric values are scripted integers / dyadic rationals, so float comparisons in the repeated-metric family are exact',
        'Eve: the code evaluates int(1e-4 + (log v - log v0)/log p) in float64; eve_formula is stated over the reals and needs the '
        'fractional part of log_p(v/v0) outside [1-1e-4, 1); the correspondence samples v with that fractional part in (1e-9, 1-1.01e-4)',
        'period > 0 (PeriodLocal/PeriodGlobal reject 0; negative periods are outside the quantifier)',
        'callbacks do not themselves modify local_epoch / metrics_history (true of every action modelled)',
    ]
    for f in failing[:3]:
        rep.violation(dict(kind='failing-input', input=f, broken=broken))
    if broken and not failing:
        rep.violation(dict(kind='unproved', broken=broken), found_input=False, name='unproved')
    return rep.finish(checker_cmd='cd lean && lake build NdeVerif.Proofs.C16 && lake env lean --run drivers/C16.lean < scripts')


def slim(s):
    if s.get('kind') == 'table':
        return s
    d = dict(s)
    if d.get('cbs_ref') == 'all_leaf_specs':
        d = dict(d, n_cbs=len(d['cbs']))      # one spy per leaf predicate of all_leaf_specs(); rebuilt by replay()
        d.pop('cbs')
    return d


def replay(path):
    d = json.load(open(path))
    s = d.get('input', {}).get('script')
    if not s:
        print('replay file names no script:', json.dumps(d.get('broken'))[:2000])
        return 1
    if 'cbs' not in s and s.get('kind') != 'table':
        s = dict(s, cbs=[dict(cond=l, action=['spy']) for l in all_leaf_specs()])
    stats = dict(pure_evals=0, pure_true=0, rep_evals=0, rep_true=0, stops=0, loss_sets=0, opt_sets=0, distinct_checks=0,
                 eve_checked=0, eve_boundary=0, threshold_doc_deviation=0)
    try:
        rec, hist, info = real_run(s)
    except Exception as e:
        print('script', json.dumps(s)[:1500], '->', f'{type(e).__name__}: {e}')
        return 1
    bad = property_failures(s, rec, hist, info, stats)
    print('script', json.dumps(s)[:1500], '->', bad[:4] or 'property holds')
    return 1 if bad else 0
