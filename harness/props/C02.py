"""C02 — PDE box (DirichletBVP2D) and space-time (IBVP1D) conditions hold on the whole boundary."""
import sys
from ..world import tie_check
from ..leangen import GenFile

PID = 'C02'


def scenarios():
    from neurodiffeq.conditions import DirichletBVP2D, IBVP1D
    S = {}

    def bvp2d(w):
        x = w.coord('x'); y = w.coord('y')
        x0 = w.param('x0'); x1 = w.param('x1'); y0 = w.param('y0'); y1 = w.param('y1')
        F = w.fn('F')
        cond = DirichletBVP2D(
            x_min=x0, x_min_val=lambda yy: F(w.lift(x0, yy), yy),
            x_max=x1, x_max_val=lambda yy: F(w.lift(x1, yy), yy),
            y_min=y0, y_min_val=lambda xx: F(xx, w.lift(y0, xx)),
            y_max=y1, y_max_val=lambda xx: F(xx, w.lift(y1, xx)))
        return cond.enforce(w.net('N', 2), x, y)
    S['bvp2d'] = bvp2d

    def ibvp(mode):
        def f(w):
            x = w.coord('x'); t = w.coord('t')
            x0 = w.param('x0'); x1 = w.param('x1'); tm = w.param('tm')
            F = w.fn('F'); Fx = w.fn('F', mi=(1, 0))
            kw = {}
            if mode[0] == 'd':
                kw['x_min_val'] = lambda tt: F(w.lift(x0, tt), tt)
            else:
                kw['x_min_prime'] = lambda tt: Fx(w.lift(x0, tt), tt)
            if mode[1] == 'd':
                kw['x_max_val'] = lambda tt: F(w.lift(x1, tt), tt)
            else:
                kw['x_max_prime'] = lambda tt: Fx(w.lift(x1, tt), tt)
            cond = IBVP1D(x_min=x0, x_max=x1, t_min=tm, t_min_val=lambda xx: F(xx, w.lift(tm, xx)), **kw)
            return cond.enforce(w.net('N', 2), x, t)
        return f
    for m in ('dd', 'dn', 'nd', 'nn'):
        S['ibvp_' + m] = ibvp(m)

    # single-network / ith-output-unit mode (a shared 2-output network, both unit indices)
    def unit(base, k, j):
        def f(w):
            class W:
                symbolic = w.symbolic
                def __getattr__(s, a): return getattr(w, a)
                def net(s, name, n_in, n_out=1): return w.net(name + f'_{k}', n_in, k)
            import neurodiffeq.conditions as C
            orig = C.BaseCondition.__init__
            def init(self):
                orig(self); self.ith_unit = j
            C.BaseCondition.__init__ = init
            try:
                return S[base](W())
            finally:
                C.BaseCondition.__init__ = orig
        return f
    for base in ['bvp2d'] + ['ibvp_' + m for m in ('dd', 'dn', 'nd', 'nn')]:
        for j in range(2):
            S[f'{base}_u{j}'] = unit(base, 2, j)
    return S


def generate(seeds=(1, 2, 3), tier='quick'):
    g = GenFile(PID)
    stats, trees, ctxs, fnodes = {}, {}, {}, {}
    for name, scen in scenarios().items():
        sw, outs, st = tie_check(scen, seeds)
        stats[name] = st
        trees[name] = sw.tree(outs[0])
        ctxs[name] = sw.ctx
        fnodes[name] = outs[0].cols[0]
        g.add_def(name, trees[name], f'traced from /repo: scenario {name}; variables {sw.ctx.vars}; symbols {sw.ctx.syms}')

    def F(name, a, b, mi=(0, 0)):
        c = ctxs[name]
        return ('app', c.syms.index('F'), mi, (('var', c.vars.index(a)), ('var', c.vars.index(b))))

    for sfx in ['', '_u0', '_u1']:
        n = 'bvp2d' + sfx
        rv = ['x', 'y', 'x0', 'x1', 'y0', 'y1']
        hy = [('hx', 'x0 ≠ x1'), ('hy', 'y0 ≠ y1')]
        g.thm_eq(f'{n}_edge_x0', rv, ['x0', 'y', 'x0', 'x1', 'y0', 'y1'], n, trees[n], F(n, 'x0', 'y'), hyps=hy,
                 what='DirichletBVP2D: u(x0, y) = F(x0, y) for every y on the edge')
        g.thm_eq(f'{n}_edge_x1', rv, ['x1', 'y', 'x0', 'x1', 'y0', 'y1'], n, trees[n], F(n, 'x1', 'y'), hyps=hy,
                 what='DirichletBVP2D: u(x1, y) = F(x1, y) for every y')
        g.thm_eq(f'{n}_edge_y0', rv, ['x', 'y0', 'x0', 'x1', 'y0', 'y1'], n, trees[n], F(n, 'x', 'y0'), hyps=hy,
                 what='DirichletBVP2D: u(x, y0) = F(x, y0) for every x')
        g.thm_eq(f'{n}_edge_y1', rv, ['x', 'y1', 'x0', 'x1', 'y0', 'y1'], n, trees[n], F(n, 'x', 'y1'), hyps=hy,
                 what='DirichletBVP2D: u(x, y1) = F(x, y1) for every x')

        rv = ['x', 't', 'x0', 'x1', 'tm']
        hy = [('hx', 'x0 ≠ x1')]
        for m in ('dd', 'dn', 'nd', 'nn'):
            n = 'ibvp_' + m + sfx
            g.thm_eq(f'{n}_initial', rv, ['x', 'tm', 'x0', 'x1', 'tm'], n, trees[n], F(n, 'x', 'tm'), hyps=hy,
                     what=f'IBVP1D {m.upper()}{sfx}: u(x, t_min) = u0(x) for all x')
            for side, pt, kind in (('left', 'x0', m[0]), ('right', 'x1', m[1])):
                envt = [pt, 't', 'x0', 'x1', 'tm']
                if kind == 'd':
                    g.thm_eq(f'{n}_{side}', rv, envt, n, trees[n], F(n, pt, 't'), hyps=hy,
                             what=f'IBVP1D {m.upper()}{sfx}: u({pt}, t) = prescribed boundary value for all t')
                else:
                    g.thm_deriv(f'{n}_{side}', rv, envt, 0, 'x', n, trees[n], F(n, pt, 't', (1, 0)), hyps=hy,
                                what=f'IBVP1D {m.upper()}{sfx}: du/dx({pt}, t) = prescribed boundary derivative for all t, every smooth network')
    # operation-order model: the clauses whose value is reproduced EXACTLY in every arithmetic with the IEEE-754 identities - the two
    # x-edges of the rectangle and the initial profile of the space-time condition (the y-edges and the Dirichlet ends in time are of the
    # form a + (F - a): exact over the reals, one rounding away in floating point, and not claimed here)
    from .. import fex as FX
    specs = []
    for sfx in ['', '_u0', '_u1']:
        specs += [(f'bvp2d{sfx}_edge_x0_exact', 'bvp2d' + sfx, [('x', 'x0')], FX.app_of('F', 'x0', 'y'), 'DirichletBVP2D: u(x0, y) is exactly F(x0, y)'),
                  (f'bvp2d{sfx}_edge_x1_exact', 'bvp2d' + sfx, [('x', 'x1')], FX.app_of('F', 'x1', 'y'), 'DirichletBVP2D: u(x1, y) is exactly F(x1, y)')]
        for m in ('dd', 'dn', 'nd', 'nn'):
            specs.append((f'ibvp_{m}{sfx}_initial_exact', f'ibvp_{m}{sfx}', [('t', 'tm')], FX.app_of('F', 'x', 'tm'), f'IBVP1D {m.upper()}: u(x, t_min) is exactly u0(x)'))
    # ... and for the remaining Dirichlet clauses the NETWORK is eliminated exactly: the value at the boundary point is the same for
    # every network ("independent of the network", without rounding)
    for sfx in ['', '_u0', '_u1']:
        specs += [(f'bvp2d{sfx}_edge_y0_network_free', 'bvp2d' + sfx, [('y', 'y0')], 'network-free', 'DirichletBVP2D: u(x, y0) is exactly the same for every network'),
                  (f'bvp2d{sfx}_edge_y1_network_free', 'bvp2d' + sfx, [('y', 'y1')], 'network-free', 'DirichletBVP2D: u(x, y1) is exactly the same for every network')]
        for m, sides in (('dd', ('x0', 'x1')), ('dn', ('x0',)), ('nd', ('x1',))):
            for pt in sides:
                specs.append((f'ibvp_{m}{sfx}_{pt}_network_free', f'ibvp_{m}{sfx}', [('x', pt)], 'network-free',
                              f'IBVP1D {m.upper()}: u({pt}, t) is exactly the same for every network'))
    FX.exact_part(g, PID, fnodes, ctxs, specs)
    return g, stats


STATIC = [('NdeVerif.Proofs.C02', 'NdeVerif.C02', ['riSq_symm', 'basis_symm', 'interp_at_control', 'enforce_at_control',
                                                   'circular_target_on_circle'])]


def _bits(x):
    import struct
    return str(struct.unpack('<Q', struct.pack('<d', float(x)))[0])


def _unbits(s):
    import struct
    return struct.unpack('<d', struct.pack('<Q', int(s)))[0]


def irregular_cases(rng, tier):
    import math
    cases = []
    for it in range(6 if tier == 'quick' else 40):
        m = rng.randint(4, 16)
        cx, cy = rng.uniform(-1, 1), rng.uniform(-1, 1)
        ang = sorted(rng.uniform(0, 2 * math.pi) for _ in range(m))
        # keep the angular gaps away from zero
        ang = [2 * math.pi * (i + rng.uniform(0.2, 0.8)) / m for i in range(m)]
        pts = [(cx + (1 + 0.4 * rng.uniform(-1, 1)) * math.cos(a), cy + (1 + 0.4 * rng.uniform(-1, 1)) * math.sin(a)) for a in ang]
        rng.shuffle(pts)
        cases.append(dict(kind='star', center=(cx, cy), pts=pts, vals=[rng.uniform(-2, 2) for _ in pts]))
    # non-star-shaped sets: several control points on one ray from the centre (U- and L-shaped domains)
    u = [(0., 0.), (3., 0.), (3., 3.), (2., 3.), (2., 1.), (1., 1.), (1., 3.), (0., 3.)]
    cases.append(dict(kind='U-shape', center=(1.5, 1.5), pts=u, vals=[float(i) for i in range(len(u))]))
    l_ = [(0., 0.), (2., 0.), (2., 1.), (1., 1.), (1., 2.), (0., 2.)]
    cases.append(dict(kind='L-shape', center=(0.5, 0.5), pts=l_, vals=[1.5 * i - 2 for i in range(len(l_))]))
    sq = [(1., 0.), (2., 0.), (0., 1.), (0., 2.), (-1., 0.), (0., -1.)]
    cases.append(dict(kind='same-ray', center=(0., 0.), pts=sq, vals=[0.5 * i for i in range(len(sq))]))
    # domains far from the origin (map coordinates): the spline depends on differences of coordinates only
    for ox, oy in ((3.0e4, -2.0e4), (5.0e6, 1.0e6)):
        m = 9
        pts = [(ox + (1 + 0.3 * math.sin(3 * a)) * math.cos(a), oy + (1 + 0.3 * math.sin(3 * a)) * math.sin(a))
               for a in [2 * math.pi * (i + 0.37) / m for i in range(m)]]
        cases.append(dict(kind=f'far-from-origin {ox:g}', center=(ox, oy), pts=pts, vals=[math.cos(2.0 * i) for i in range(m)], property_only=True))
    # prescribed values of small magnitude (perturbation amplitudes, concentrations) and domains that are large in coordinate units
    # (metres over a few km): the spline weights are tiny absolute numbers that still carry the whole interpolant
    m = 9
    ring = [((1 + 0.3 * math.sin(3 * a)) * math.cos(a), (1 + 0.3 * math.sin(3 * a)) * math.sin(a)) for a in [2 * math.pi * (i + 0.37) / m for i in range(m)]]
    for amp in (1.0e-7, 3.0e-9, 1.0e-12):
        cases.append(dict(kind=f'prescribed values of magnitude {amp:g}', center=(0.05, -0.03), pts=ring, vals=[amp * (math.cos(2.0 * i) + 0.3) for i in range(m)],
                          property_only=True, relative=True))
    for size in (2.0e3, 4.0e4):
        cases.append(dict(kind=f'domain of size {size:g} in coordinate units', center=(0.05 * size, -0.03 * size), pts=[(size * x, size * y) for x, y in ring],
                          vals=[math.cos(2.0 * i) + 0.3 for i in range(m)], property_only=True, relative=True))
    # control-point coordinates given as something other than Python floats: single-precision numpy scalars, and 0-d views of a tensor
    # that the caller recycles after the condition has been built (the coordinates are data of the condition from then on)
    ring2 = [(round(x * 16) / 16.0, round(y * 16) / 16.0) for x, y in ring]          # representable in single precision
    cases.append(dict(kind='coordinates given as numpy float32 scalars', center=(0.0625, -0.03125), pts=ring2, vals=[math.cos(2.0 * i) + 0.3 for i in range(m)],
                      property_only=True, loc_type='np32'))
    cases.append(dict(kind='coordinates given as rows of a tensor that is overwritten afterwards', center=(0.0625, -0.03125), pts=ring2,
                      vals=[math.sin(1.0 + i) for i in range(m)], property_only=True, loc_type='tensor-rows'))
    # closed curves sampled with the closing point included: the last control point is a round-off copy of the first one (documented
    # to be dropped), sitting on the 0 / 2 pi seam of the angular order
    for n_, rx, ry in ((36, 1.0, 1.0), (20, 1.5, 0.8)):
        ths = [-2 * math.pi * i / n_ for i in range(n_)] + [-2 * math.pi]
        pts = [(rx * math.cos(t), ry * math.sin(t)) for t in ths]
        cases.append(dict(kind=f'closed curve with the closing sample ({n_}+1 points)', center=(0.0, 0.0), pts=pts,
                          vals=[math.cos(p[0]) * math.exp(0.3 * p[1]) + p[0] * p[1] for p in pts], property_only=True))
    # the same control point OBJECTS moved to a deformed domain and given new values, then a new condition built from them
    m = 12
    base = [(math.cos(2 * math.pi * (i + 0.3) / m), math.sin(2 * math.pi * (i + 0.3) / m)) for i in range(m)]
    moved = [(1.6 * x, 0.7 * y + 0.15 * math.sin(3 * math.atan2(y, x))) for x, y in base]
    cases.append(dict(kind='control point objects moved after a first condition was built', center=(0.0, 0.0), pts=moved,
                      vals=[math.sin(2 * p[0]) + 0.5 * p[1] ** 2 + 1 for p in moved], first_pts=base, property_only=True))
    # a dense boundary: several hundred distinct control points less than 0.01 apart
    m = 240 if tier == 'quick' else 400
    pts = [(0.3 * math.cos(2 * math.pi * i / m), 0.3 * math.sin(2 * math.pi * i / m)) for i in range(m)]
    cases.append(dict(kind=f'dense ({m} points, spacing {2 * math.pi * 0.3 / m:.4f})', center=(0.01, -0.02), pts=pts,
                      vals=[math.sin(7 * 2 * math.pi * i / m) for i in range(m)], property_only=True))
    return cases


def extra_phase(rep, tier, seed):
    """irregular domain (pde.CustomBoundaryCondition, Dirichlet control points): correspondence of the real code with
    NdeVerif.Tps on captured linear systems and random query points + the property itself at every INPUT control point"""
    import random
    import numpy as np
    import torch
    from neurodiffeq import pde
    from neurodiffeq.networks import FCNN
    from ..runner import run_driver, split_blocks
    rng = random.Random(seed + 17)
    broken, failing = [], []
    blocks, expect = [], []
    stats = dict(cases=0, control_points=0, queries=0, max_solve_residual=0.0, max_control_error=0.0)
    for case in irregular_cases(rng, tier):
        captured = []
        orig = np.linalg.solve

        def spy(W, b):
            c = orig(W, b)
            captured.append((np.array(W), np.array(b), np.array(c)))
            return c
        np.linalg.solve = spy
        try:
            if case.get('first_pts'):
                dcps = [pde.DirichletControlPoint(loc=p, val=1.0 + i) for i, p in enumerate(case['first_pts'])]
                pde.CustomBoundaryCondition(center_point=pde.Point(case['center']), dirichlet_control_points=list(dcps))
                for cp, p, v in zip(dcps, case['pts'], case['vals']):
                    cp.loc, cp.val = p, v
            else:
                if case.get('loc_type') == 'np32':
                    dcps = [pde.DirichletControlPoint(loc=(np.float32(p[0]), np.float32(p[1])), val=v) for p, v in zip(case['pts'], case['vals'])]
                elif case.get('loc_type') == 'tensor-rows':
                    table = torch.tensor(case['pts'], dtype=torch.float64)
                    dcps = [pde.DirichletControlPoint(loc=table[i], val=v) for i, v in enumerate(case['vals'])]
                else:
                    dcps = [pde.DirichletControlPoint(loc=p, val=v) for p, v in zip(case['pts'], case['vals'])]
            shared = list(dcps)      # the caller's list: reused below for a second condition, as a user comparing centres would
            cond = pde.CustomBoundaryCondition(center_point=pde.Point(case['center']), dirichlet_control_points=shared)
        except Exception as e:
            failing.append(dict(case=case, error=f'{type(e).__name__}: {e}'))
            continue
        finally:
            np.linalg.solve = orig
        if case.get('loc_type') == 'tensor-rows':
            table.zero_()           # the caller recycles its table
        # a second condition built from the SAME list with another (valid) centre, before the first one is used:
        # each condition must honour all control points whatever else has been built from that list
        try:
            pde.CustomBoundaryCondition(center_point=pde.Point((case['center'][0] + 0.07, case['center'][1] - 0.05)),
                                        dirichlet_control_points=shared)
            stats['second_condition_from_same_list'] = stats.get('second_condition_from_same_list', 0) + 1
        except Exception:
            pass
        stats['cases'] += 1
        stats['control_points'] += len(case['pts'])
        cleaned = [tuple(cp.loc) for cp in cond.dirichlet_control_points]
        ctx = dict(kind=case['kind'], center=case['center'], control_points=case['pts'], values=case['vals'])
        # the property itself: prescribed value at EVERY control point that was passed in, for any network
        torch.manual_seed(rng.randrange(1 << 30))
        nets_ = (FCNN(2, 1, hidden_units=(6,)), (lambda xy: 50.0 + 10 * xy[:, :1] * xy[:, 1:2]))
        if case.get('relative'):      # errors are measured against the size of the data: networks whose output is of that size (and zero)
            vs_ = max(abs(v) for v in case['vals'])
            nets_ = ((lambda xy: xy[:, :1] * 0), (lambda xy, k=vs_: k * torch.tanh(xy[:, :1] * 1e-3 + xy[:, 1:2] * 2e-3) + k))
        for net in nets_:
            xs = torch.tensor([[p[0]] for p in case['pts']], requires_grad=True)
            ys = torch.tensor([[p[1]] for p in case['pts']], requires_grad=True)
            try:
                got = cond.enforce(net, xs, ys).detach().reshape(-1).tolist()
            except Exception as e:
                failing.append(dict(ctx, error=f'{type(e).__name__}: {e}'))
                break
            # rounding of L_D (exactly 0 at the control points over the reals) is amplified by the size of the raw network output
            nmag = float(net(torch.cat([xs, ys], 1)).detach().abs().max())
            unit = max(abs(v) for v in case['vals']) if case.get('relative') else 1
            err = max(abs(g - v) / (unit + abs(v) + 1e-2 * nmag) for g, v in zip(got, case['vals']))
            stats['max_control_error'] = max(stats['max_control_error'], err)
            if not err <= 1e-6:
                failing.append(dict(ctx, violated='enforced function differs from the prescribed value at a Dirichlet control point',
                                    got=got, surviving_control_points=len(cleaned)))
                break
        # preallocated coordinate buffers without autograd (chunked evaluation, plotting) that are refilled in place between calls:
        # each call is about the coordinates the buffers hold THEN
        if len(case['pts']) >= 4 and not case.get('relative'):
            try:
                half = len(case['pts']) // 2
                bx, by = torch.zeros(half, 1), torch.zeros(half, 1)
                net0 = lambda xy: xy[:, :1] * 0 + 1.0
                worst = 0.0
                for chunk in (0, 1, 0):
                    sel = list(range(chunk * half, chunk * half + half))
                    bx.copy_(torch.tensor([[case['pts'][i][0]] for i in sel]))
                    by.copy_(torch.tensor([[case['pts'][i][1]] for i in sel]))
                    got = cond.enforce(net0, bx, by).detach().reshape(-1).tolist()
                    worst = max(worst, max(abs(g - case['vals'][i]) / (1 + abs(case['vals'][i]) + 1e-2) for g, i in zip(got, sel)))
                stats['refilled_buffer_cases'] = stats.get('refilled_buffer_cases', 0) + 1
                if not worst <= 1e-6:
                    failing.append(dict(ctx, violated='coordinate buffers (no autograd) refilled in place between calls: the enforced function at the '
                                        'control points now in the buffers is not their prescribed value', relative_error=worst))
            except Exception as e:
                failing.append(dict(ctx, violated='enforce on plain (no autograd) coordinate buffers raised', error=f'{type(e).__name__}: {e}'))
        if case.get('property_only'):
            continue        # the property was evaluated above; the exact correspondence is run on the small, well-scaled systems
        if len(captured) != 3:
            broken.append(dict(kind='correspondence', stream='TPS', detail=f'{len(captured)} linear solves instead of 3', case=case['kind']))
            continue
        M = len(cleaned)
        lines = [f'cfg {_bits(0.01)} {_bits(0.5)}', 'pts ' + ' '.join(_bits(v) for p in cleaned for v in p)]
        for tag, (W, b, c) in zip(('ca', 'cx', 'cy'), captured):
            lines.append(tag + ' ' + ' '.join(_bits(v) for v in c))
            res = float(np.abs(W @ c - b).max() / (1 + np.abs(b).max()))
            stats['max_solve_residual'] = max(stats['max_solve_residual'], res)
            if not res <= 1e-8:
                broken.append(dict(kind='correspondence', stream='TPS', detail='residual of the numerical solve', residual=res, case=case['kind']))
        # targets lie on the circle; right-hand sides are the values / targets
        bx, by = captured[1][1][:M], captured[2][1][:M]
        if not np.allclose(bx ** 2 + by ** 2, 0.25, rtol=0, atol=1e-12) or not np.allclose(captured[0][1][:M], [cp.val for cp in cond.dirichlet_control_points]):
            broken.append(dict(kind='correspondence', stream='TPS', detail='right-hand sides of the linear systems', case=case['kind']))
        exp = []
        for k in range(M):
            lines.append(f'row {k}')
            exp.append(('row', captured[0][0][k].tolist()))
        net = FCNN(2, 1, hidden_units=(5,))
        for _ in range(6):
            qx, qy = case['center'][0] + rng.uniform(-1.2, 1.2), case['center'][1] + rng.uniform(-1.2, 1.2)
            X, Y = torch.tensor([[qx]]), torch.tensor([[qy]])
            n = float(net(torch.cat([X, Y], 1)).detach())
            lines.append(f'q {_bits(qx)} {_bits(qy)} {_bits(n)}')
            exp.append(('q', (float(cond.a_d(X, Y)), float(cond.l_d(X, Y)), float(cond.enforce(net, X, Y).detach()))))
            stats['queries'] += 1
        blocks.append('\n'.join(lines) + '\n---')
        expect.append((case['kind'], exp))
    if blocks:
        out, dt = run_driver('Tps', '\n'.join(blocks) + '\n')
        for (kind, exp), mb in zip(expect, split_blocks(out)):
            for (tag, want), line in zip(exp, mb):
                toks = line.split()
                if tag == 'row':
                    got = [_unbits(t) for t in toks[1:]]
                    ok = len(got) == len(want) and all(abs(g - w) <= 1e-12 * (1 + abs(w)) for g, w in zip(got, want))
                else:
                    got = [_unbits(toks[1]), _unbits(toks[3]), _unbits(toks[5])]
                    ok = all(abs(g - w) <= 1e-9 * (1 + abs(w)) for g, w in zip(got, want))
                if not ok:
                    broken.append(dict(kind='correspondence', stream='TPS model vs CustomBoundaryCondition', case=kind, what=tag,
                                       model=got[:6], real=list(want)[:6]))
                    break
    rep.coverage['irregular_domain'] = stats
    return broken, failing


ASSUMPTIONS = [
    'theorems are over the reals; boundary data are derived from one arbitrary smooth field symbol F (hence compatible)',
    'irregular domain: the theorem assumes the coefficient vectors solve their linear systems exactly; the numerical solve (np.linalg.solve) and the conditioning of the system are runtime (residual observed and bounded by 1e-8 per run); Neumann control points are not covered',
]


def search(seed, tier):
    import random, torch
    from neurodiffeq.conditions import DirichletBVP2D, IBVP1D
    from neurodiffeq.neurodiffeq import diff
    from neurodiffeq.networks import FCNN
    rng = random.Random(seed)
    found = []

    def draw():
        return rng.uniform(-4, 4) * rng.choice([1, 1, 0.01, 30])

    for it in range(40 if tier == 'quick' else 300):
        a, b, c, d = (rng.uniform(-1.5, 1.5) for _ in range(4))
        F = lambda x, y: torch.sin(a * x + b * y) + c * x * y + d * torch.exp(-0.1 * (x - y) ** 2)
        def Fx(x, y):
            x = x.clone().requires_grad_(True) if not x.requires_grad else x
            u = F(x, y)
            return torch.autograd.grad(u, x, torch.ones_like(u), create_graph=True)[0]
        x0, x1, y0, y1 = draw(), draw(), draw(), draw()
        if min(abs(x1 - x0), abs(y1 - y0)) < 1e-3 * (1 + abs(x0) + abs(y0)):
            continue
        torch.manual_seed(rng.randrange(1 << 30))
        unit = rng.choice([None, None, 0, 1])
        net = FCNN(2, 1 if unit is None else 2, hidden_units=(8, 8))
        n = 4
        full = lambda v: torch.full((n, 1), v, requires_grad=True)
        s = torch.tensor([[rng.uniform(0, 1)] for _ in range(n)])
        # boundary data are stateful Python callables (here: a continuation amplitude the user changes between evaluations);
        # each evaluation must use the data as they are at that time
        amp = [1.0]
        like = lambda z, v: torch.full_like(z, v)
        cond = DirichletBVP2D(x0, lambda y: amp[0] * F(like(y, x0), y), x1, lambda y: amp[0] * F(like(y, x1), y),
                              y0, lambda x: amp[0] * F(x, like(x, y0)), y1, lambda x: amp[0] * F(x, like(x, y1)))
        cond.ith_unit = unit
        ys = (y0 + s * (y1 - y0)).requires_grad_(True); xs = (x0 + s * (x1 - x0)).requires_grad_(True)
        for amplitude in (1.0, 2.5):
            amp[0] = amplitude
            for nm, X, Y in (('x0', full(x0), ys), ('x1', full(x1), ys), ('y0', xs, full(y0)), ('y1', xs, full(y1))):
                got = cond.enforce(net, X, Y).detach(); want = amplitude * F(X, Y).detach()
                if not torch.allclose(got, want, rtol=1e-10, atol=1e-10 * (1 + float(want.abs().max()) + float(got.abs().max()))):
                    found.append(dict(case='bvp2d', unit=unit, edge=nm, x0=x0, x1=x1, y0=y0, y1=y1, F=[a, b, c, d], s=s.reshape(-1).tolist(),
                                      boundary_data_amplitude=amplitude, evaluation='first' if amplitude == 1.0 else 'second (data changed in between)',
                                      got=got.reshape(-1).tolist(), want=want.reshape(-1).tolist()))
        tm = draw()
        ts = (tm + 3 * s).requires_grad_(True)
        for m in ('dd', 'dn', 'nd', 'nn'):
            kw = {}
            kw['x_min_val' if m[0] == 'd' else 'x_min_prime'] = (lambda t: F(full(x0), t)) if m[0] == 'd' else (lambda t: Fx(full(x0), t))
            kw['x_max_val' if m[1] == 'd' else 'x_max_prime'] = (lambda t: F(full(x1), t)) if m[1] == 'd' else (lambda t: Fx(full(x1), t))
            cond = IBVP1D(x0, x1, tm, lambda x: F(x, full(tm)), **kw)
            cond.ith_unit = unit
            # a user who precomputes the boundary data: the callables hand back the same stored tensors for the same batch;
            # an earlier evaluation (other times) must not change what the condition yields at t_min
            store = {}

            def stored(fn):
                def g_(z, fn=fn):
                    k = (id(fn), z.detach().numpy().tobytes())
                    if k not in store:
                        store[k] = fn(z).detach()
                    return store[k]
                return g_
            cond_s = IBVP1D(x0, x1, tm, stored(lambda x: F(x, full(tm))), **{k_: stored(v_) for k_, v_ in kw.items()})
            cond_s.ith_unit = unit
            try:
                cond_s.enforce(net, xs, ts)
                cond_s.enforce(net, xs, ts)
                got = cond_s.enforce(net, xs, full(tm)).detach(); want = F(xs, full(tm)).detach()
                if got.shape == want.shape and not torch.allclose(got, want, rtol=1e-10, atol=1e-10 * (1 + float(want.abs().max()) + float(got.abs().max()))):
                    found.append(dict(case='ibvp_' + m, where='initial profile after earlier evaluations with precomputed (stored) boundary data',
                                      x0=x0, x1=x1, tm=tm, F=[a, b, c, d], got=got.reshape(-1).tolist(), want=want.reshape(-1).tolist()))
            except Exception as e:
                found.append(dict(case='ibvp_' + m, unit=unit, error=f'{type(e).__name__}: {e}', stored_data=True, x0=x0, x1=x1, tm=tm))
            try:
                got = cond.enforce(net, xs, full(tm)).detach(); want = F(xs, full(tm)).detach()
            except Exception as e:
                found.append(dict(case='ibvp_' + m, unit=unit, error=f'{type(e).__name__}: {e}', x0=x0, x1=x1, tm=tm))
                continue
            if got.shape != want.shape:
                found.append(dict(case='ibvp_' + m, unit=unit, violated='output is not a single column', shape=list(got.shape)))
                continue
            if not torch.allclose(got, want, rtol=1e-10, atol=1e-10 * (1 + float(want.abs().max()) + float(got.abs().max()))):
                found.append(dict(case='ibvp_' + m, where='initial', x0=x0, x1=x1, tm=tm, F=[a, b, c, d],
                                  got=got.reshape(-1).tolist(), want=want.reshape(-1).tolist()))
            for side, pt, kind in (('left', x0, m[0]), ('right', x1, m[1])):
                X = full(pt)
                u = cond.enforce(net, X, ts)
                got = (u if kind == 'd' else diff(u, X)).detach()
                want = (F(X, ts) if kind == 'd' else Fx(X, ts)).detach()
                tol = 1e-6 * (1 + float(want.abs().max()) + float(got.abs().max())) * (1 if kind == 'd' else max(1.0, 1 / abs(x1 - x0)))
                if not float((got - want).abs().max()) <= tol:
                    found.append(dict(case='ibvp_' + m, where=side, kind=kind, x0=x0, x1=x1, tm=tm, F=[a, b, c, d],
                                      t=ts.reshape(-1).tolist(), got=got.reshape(-1).tolist(), want=want.reshape(-1).tolist()))
        if len(found) >= 3:
            break
    return found


def runtime_checks():
    """exact observations, every run: the last output unit selected as -1 (Python indexing) on a shared multi-output network"""
    import torch
    from neurodiffeq.conditions import DirichletBVP2D, IBVP1D
    from neurodiffeq.networks import FCNN
    bad = []
    torch.manual_seed(9)
    f = lambda z: torch.sin(z) + 0.5
    zero = lambda z: z * 0
    n = 4
    xs, ys = torch.rand(n, 1, requires_grad=True), torch.rand(n, 1, requires_grad=True)
    for name, mk in (('DirichletBVP2D', lambda: DirichletBVP2D(0., f, 1., f, 0., zero, 1., zero)),
                     ('IBVP1D', lambda: IBVP1D(0., 1., 0., f, x_min_val=zero, x_max_prime=zero))):
        for n_out in (2, 3):
            net = FCNN(2, n_out, hidden_units=(5,))
            a, b = mk(), mk()
            a.ith_unit, b.ith_unit = -1, n_out - 1
            try:
                ua, ub = a.enforce(net, xs, ys), b.enforce(net, xs, ys)
                if tuple(ua.shape) != (n, 1) or not torch.equal(ua, ub):
                    bad.append(dict(case='output unit -1 on a shared network', condition=name, outputs=n_out, shape=list(ua.shape),
                                    violated='does not select the last output unit'))
            except Exception as e:
                bad.append(dict(case='output unit -1 on a shared network', condition=name, outputs=n_out, error=f'{type(e).__name__}: {e}'))
    # edge data of very different magnitudes (a large value on one edge, O(1) profiles on the others; corners compatible): each edge function is
    # reproduced to the rounding of ITS OWN size - the large edge does not swamp the small ones
    try:
        A = 1.0e9
        U = lambda x, y: A * (1 - x) + (1 + y) * x
        cond = DirichletBVP2D(0., lambda y: U(0 * y, y), 1., lambda y: U(0 * y + 1, y), 0., lambda x: U(x, 0 * x), 1., lambda x: U(x, 0 * x + 1))
        netb = FCNN(2, 1, hidden_units=(5,)).double()
        yy = torch.linspace(0., 1., 6, dtype=torch.float64).reshape(-1, 1)
        got = cond.enforce(netb, torch.ones_like(yy).requires_grad_(), yy.clone().requires_grad_()).detach()
        want = 1 + yy
        if not torch.allclose(got, want, rtol=0, atol=1e-11):
            bad.append(dict(case='edge data of very different magnitudes (1e9 on x = 0, O(1) on x = 1)', edge='x = 1', violated='edge function not reproduced to rounding',
                            max_abs_error=float((got - want).abs().max()), got=got.reshape(-1).tolist(), want=want.reshape(-1).tolist()))
    except Exception as e:
        bad.append(dict(case='edge data of very different magnitudes', error=f'{type(e).__name__}: {e}'))
    # the initial profile is reproduced EXACTLY at t_min (theorems ibvp_*_initial_exact: the boundary lift cancels to an exact zero there), also
    # when the end data are many orders of magnitude larger than the profile in the interior
    for dt_ in (torch.float32, torch.float64):
        A = 1.0e4
        prof = lambda x: A * (2 * x - 1) ** 8                      # = A at both ends, ~0 in the middle
        dprof0, dprof1 = -16 * A, 16 * A
        for mode, kw in (('DD', dict(x_min_val=lambda t: A + 0 * t, x_max_val=lambda t: A * torch.cos(0 * t))),
                         ('DN', dict(x_min_val=lambda t: A + 0 * t, x_max_prime=lambda t: dprof1 + 0 * t)),
                         ('ND', dict(x_min_prime=lambda t: dprof0 + 0 * t, x_max_val=lambda t: A + 0 * t)),
                         ('NN', dict(x_min_prime=lambda t: dprof0 + 0 * t, x_max_prime=lambda t: dprof1 + 0 * t))):
            try:
                cond = IBVP1D(0., 1., 0., prof, **kw)
                netq = FCNN(2, 1, hidden_units=(5,)).to(dt_)
                xs_ = torch.linspace(0.0, 1.0, 9, dtype=dt_).reshape(-1, 1).requires_grad_()
                got = cond.enforce(netq, xs_, torch.zeros(9, 1, dtype=dt_, requires_grad=True)).detach()
                want = prof(xs_).detach()
                if not torch.equal(got, want):
                    bad.append(dict(case='IBVP1D with end data of size 1e4 and a profile that is ~0 in the interior', mode=mode, dtype=str(dt_),
                                    violated='u(x, t_min) is not exactly the initial profile', max_abs_error=float((got - want).abs().max()),
                                    where_profile_is=float(want.abs().min())))
            except Exception as e:
                bad.append(dict(case='IBVP1D with large end data', mode=mode, error=f'{type(e).__name__}: {e}'))
    # the initial time is a public attribute: a condition that has been evaluated and is then moved to a later initial time (time marching)
    # takes its initial profile - and the compatibility terms built from it - at the NEW initial time
    for mode, kw in (('DD', dict(x_min_val=lambda t: torch.sin(t), x_max_val=lambda t: torch.cos(t))),
                     ('DN', dict(x_min_val=lambda t: torch.sin(t), x_max_prime=lambda t: 0.3 * t))):
        try:
            u0 = lambda x: torch.sin(0.0 * x + 0.4) * (1 - x) + torch.cos(0.0 * x + 0.4) * x if mode == 'DD' else torch.sin(0.0 * x + 0.4) + 0.3 * 0.4 * x
            cond = IBVP1D(0., 1., 0.0, u0, **kw)
            netq = FCNN(2, 1, hidden_units=(5,))
            xs_ = torch.rand(n, 1, requires_grad=True)
            cond.enforce(netq, xs_, torch.zeros(n, 1, requires_grad=True))
            cond.t_min = 0.4
            got = cond.enforce(netq, xs_, torch.full((n, 1), 0.4, requires_grad=True)).detach()
            want = u0(xs_).detach()
            if not torch.allclose(got, want, rtol=0, atol=1e-6):
                bad.append(dict(case='IBVP1D evaluated, then t_min re-assigned (time marching)', mode=mode, violated='u(x, t_min) is not the initial profile at the '
                                'new initial time', max_abs_error=float((got - want).abs().max())))
        except Exception as e:
            bad.append(dict(case='IBVP1D evaluated, then t_min re-assigned', mode=mode, error=f'{type(e).__name__}: {e}'))
    # double-precision coordinates and network in a session whose default precision is single (the usual GPU set-up, checked in double):
    # the edges are reproduced to DOUBLE rounding, on boxes whose bounds are not single-precision numbers
    import math
    prev = torch.get_default_dtype()
    try:
        for default in (torch.float32, torch.float64):
            torch.set_default_dtype(default)
            for dt in (torch.float64, torch.float32):
                eps = torch.finfo(dt).eps
                x0, x1, y0, y1 = 0.1, math.pi, -0.3, 1.7
                g0, g1 = (lambda x: torch.sin(3 * x) + 0.2 * x), (lambda x: torch.exp(0.5 * x))
                # compatible corner data: f0(y), f1(y) interpolate the corner values of g0, g1 linearly in y and add a bubble
                c = lambda g, xv: float(g(torch.tensor(xv, dtype=torch.float64)))
                mkf = lambda xv: (lambda y: c(g0, xv) + (c(g1, xv) - c(g0, xv)) * (y - y0) / (y1 - y0) + (y - y0) * (y1 - y) * torch.cos(y))
                cond = DirichletBVP2D(x0, mkf(x0), x1, mkf(x1), y0, g0, y1, g1)
                net = FCNN(2, 1, hidden_units=(5,)).to(dt)
                s_ = torch.linspace(0.0, 1.0, 7, dtype=dt).reshape(-1, 1)
                xs_, ys_ = x0 + (x1 - x0) * s_, y0 + (y1 - y0) * s_
                for edge, xx, yy, want in (('y = y0', xs_, torch.full_like(xs_, y0), g0(xs_)), ('y = y1', xs_, torch.full_like(xs_, y1), g1(xs_)),
                                           ('x = x0', torch.full_like(ys_, x0), ys_, mkf(x0)(ys_)), ('x = x1', torch.full_like(ys_, x1), ys_, mkf(x1)(ys_))):
                    try:
                        got = cond.enforce(net, xx.clone().requires_grad_(), yy.clone().requires_grad_()).detach()
                        err = float((got.double() - want.double()).abs().max())
                        if got.dtype != dt or not err <= 400 * eps:
                            bad.append(dict(case='precision of the coordinates differs from the session default', default_dtype=str(default), coordinates=str(dt),
                                            edge=edge, box=[x0, x1, y0, y1], max_abs_error=err, result_dtype=str(got.dtype),
                                            violated='edge function not reproduced to the rounding of the coordinates\' precision'))
                    except Exception as e:
                        bad.append(dict(case='precision of the coordinates differs from the session default', default_dtype=str(default), coordinates=str(dt),
                                        edge=edge, error=f'{type(e).__name__}: {e}'))
    finally:
        torch.set_default_dtype(prev)
    return bad


def check(tier, seed):
    from ..calcprop import check_calc
    return check_calc(sys.modules[__name__], tier, seed)
