"""C04 — a training epoch optimises exactly the user's residual loss on its batches. Engine B: model
NdeVerif.Model.Solver + NdeVerif.Model.Routing, theorems NdeVerif.Proofs.C04, correspondence in the scripted world."""
import random
import warnings

from ..runner import Report, kernel_phase
from ..solverprop import Campaign, loss_of
from ..solverworld import VALID_BASE, grad_formula, addl_grad_formula, MODES

PID = 'C04'
GRAD_THEOREMS = ['loss_is_user_plus_additional', 'plain_step_sees_sum_of_batch_gradients', 'gradTrace_closureEvals',
                 'closure_step_sees_last_evaluation_gradient', 'validEpoch_leaves_gradients']
THEOREMS = ['trainEpoch_draws', 'validEpoch_draws', 'train_epoch_plain', 'mean_exact', 'train_epoch_closure_steps',
            'validEpoch_params_unchanged', 'valid_epoch_loss', 'tview_trainEpoch', 'tview_validEpoch', 'tview_epoch',
            'params_trajectory_independent_of_validation', 'bundle_selects', 'bundle_rejects_out_of_range',
            'auto_enforce_truncates', 'setLossFn_dispatch']


def evaluate(camp):
    bad = []
    for lines, kw, fits, theta0, run in camp.observations():
        L = loss_of(lines)
        p0 = lines[0].split()
        n_train, n_valid = int(p0[3]), int(p0[4])
        opt = p0[2]
        theta = theta0
        with_addl = any(l.strip() == 'addl 1' for l in lines)
        for call, f in enumerate(fits):
            # the gradient present at every optimiser step: plain = SUM over the epoch's batches of the batch gradients (one
            # zero_grad before them, no rescaling); closure = gradient of the last closure evaluation of that batch alone
            want_grads, acc = [], 0
            for e in [e for evs in f['events'] for e in evs] + f['trailing']:
                if e == 'Z':
                    acc = 0
                elif e.startswith('L') and e.split(':')[2] == '1':
                    lid, th, tr, idx = e[1:].split(':')
                    acc += grad_formula(int(lid), int(th), True, int(idx)) + (addl_grad_formula(int(th), True, int(idx)) if with_addl else 0)
                elif e.startswith('S'):
                    want_grads.append(acc)
            if f.get('grads') is not None and f['grads'] != want_grads:
                bad.append(dict(script=lines, kw=kw, fit_call=call, violated='gradient seen by optimizer.step() is not the gradient accumulated '
                                'over the batches since the last zero_grad', seen=f['grads'], accumulated=want_grads))
            for j, (d, evs) in enumerate(zip(f['epochs'], f['events'])):
                c = dict(script=lines, kw=kw, fit_call=call, epoch=j + 1)
                d1 = [e for e in evs if e.startswith('D1')]
                d0 = [e for e in evs if e.startswith('D0')]
                if len(d1) != n_train or len(d0) != n_valid:
                    bad.append(dict(c, violated='number of batches drawn in the epoch', train_draws=len(d1), want_train=n_train,
                                    valid_draws=len(d0), want_valid=n_valid))
                # split the epoch's events into the training and the validation phase
                first_valid = next((i for i, e in enumerate(evs) if e.startswith('D0')), len(evs) - 1)
                tr_evs, va_evs = evs[:first_valid], evs[first_valid:-1]
                steps = [e for e in tr_evs if e.startswith('S')]
                if opt == 'plain':
                    if len(steps) != 1 or not tr_evs[-1].startswith('S'):
                        bad.append(dict(c, violated='plain optimiser: not exactly one step after all training batches', events=tr_evs))
                    if sum(e == 'Z' for e in tr_evs) != 1 or tr_evs[0] != 'Z':
                        bad.append(dict(c, violated='plain optimiser: zero_grad not exactly once before the batches', events=tr_evs))
                else:
                    if len(steps) != n_train:
                        bad.append(dict(c, violated='closure optimiser: not one step per batch', steps=len(steps), batches=n_train))
                if any(e.startswith('S') or e == 'Z' for e in va_evs):
                    bad.append(dict(c, violated='validation phase touched the optimiser', events=va_evs))
                # recorded losses = mean over batches of the (last) loss evaluation of each batch
                for phase_evs, t, key, n in ((tr_evs, '1', 'train', n_train), (va_evs, '0', 'valid', n_valid)):
                    last = {}
                    for e in phase_evs:
                        if e.startswith('L'):
                            lid, th, tr, idx = e[1:].split(':')
                            last[int(idx)] = (int(lid), int(th))
                            if t == '0' and int(th) != d['theta']:
                                bad.append(dict(c, violated='validation evaluated with parameters other than the post-training ones', event=e, theta=d['theta']))
                            if t == '1' and opt == 'plain' and int(th) != theta:
                                bad.append(dict(c, violated='plain optimiser: parameters moved between batches of one epoch', event=e, theta_before=theta))
                    if n and last:
                        s = sum(L(lid, th, t == '1', idx) for idx, (lid, th) in last.items())
                        if d[key][-1] * len(last) != s:
                            bad.append(dict(c, violated=f'{key} loss is not the mean of the batch losses', got=d[key][-1], sum=s, n=len(last)))
                theta = d['theta']
                # callbacks of this epoch may change the configuration for the next one
                n_train, opt = d['nT'], d['opt']
        # every forward pass of a fit() - training and validation alike - runs the networks in the mode they were given (training mode):
        # "a validation epoch performs the same evaluation"
        if run is not None and getattr(run, 'eval_mode_forwards', 0):
            bad.append(dict(script=lines, kw=kw, violated='networks were switched to eval() mode during fit(): mode-dependent layers make the '
                            'validation evaluation differ from the training evaluation', forwards_in_eval_mode=run.eval_mode_forwards))
        # "without changing any parameter": a parameter the user froze stays frozen and is moved by nobody
        for rg, val, want, call, ep in (getattr(run, 'frozen_obs', []) if run is not None else []):
            if rg or val != want:
                bad.append(dict(script=lines, kw=kw, violated='a frozen parameter (requires_grad=False) of the networks was un-frozen or moved '
                                'during fit()', requires_grad=rg, value=val, value_given_by_user=want, call=call, epoch=ep))
                break
        # routing: what the user's equations received on the last call
        if run is not None and run.eq_calls:
            rec = run.eq_calls[-1]
            nf = kw.get('n_funcs', 1)
            kind = kw['kind']
            want_tail = [0] + [1 + i for i in kw.get('eq_param_index', ())] if kind == 'bundle' else list(range(run.n_dims))
            tail = rec[nf:]
            got_dims = [int(round((v - int(v)) * 16)) for _, v in tail]
            if len(rec) != nf + len(want_tail) or got_dims != want_tail:
                bad.append(dict(script=lines, kw=kw, violated='arguments handed to the user\'s equations', received_coordinate_columns=got_dims,
                                expected=want_tail, n_args=len(rec)))
            if any(abs(v - run.nets[0].theta()) > 0 and False for _, v in rec[:nf]):
                pass
    return bad


def routing_checks(seed):
    """exact observations on the real code outside the scripted campaign: loss dispatch, spherical truncation, bundle errors"""
    import torch
    from torch import nn
    from neurodiffeq import solvers as S
    from neurodiffeq.conditions import BaseCondition, NoCondition
    from neurodiffeq.generators import Generator1D, Generator3D, GeneratorSpherical
    from neurodiffeq.losses import _losses
    from ..solverworld import ScriptNet
    bad = []
    with warnings.catch_warnings():
        warnings.simplefilter('ignore')
        g = Generator1D(4, 0., 1.)
        mk = lambda lf: S.Solver1D(lambda u, t: [u * 0], [NoCondition()], t_min=0., t_max=1., nets=[ScriptNet(1)],
                                   train_generator=g, valid_generator=g, loss_fn=lf)
        r = torch.tensor([[1., -2.], [3., 4.]])
        s = mk(None)
        if abs(s.loss_fn(r, None, None).item() - 7.5) > 1e-12:
            bad.append(dict(case='loss_fn=None is not the mean squared residual'))
        for name, fn in _losses.items():
            for variant in (name, name.upper()):
                if mk(variant).loss_fn is not fn:
                    bad.append(dict(case='named loss dispatch', name=variant))
        s = mk(nn.L1Loss())
        if abs(s.loss_fn(r, None, None).item() - 2.5) > 1e-12:
            bad.append(dict(case='torch loss object is not applied against zeros'))
        # a torch loss object is used as the user configured it (reduction, weights): applied against zeros, nothing else
        for obj, want in ((nn.L1Loss(reduction='sum'), 10.0), (nn.MSELoss(reduction='sum'), 30.0), (nn.MSELoss(), 7.5),
                          (nn.SmoothL1Loss(reduction='sum'), 8.0), (nn.HuberLoss(reduction='mean', delta=0.5), 1.125)):
            got = mk(obj).loss_fn(r, None, None).item()
            if abs(got - want) > 1e-12:
                bad.append(dict(case='torch loss object is not applied as configured', loss=repr(obj), got=got, want=want))
        f = lambda rr, ff, xx: (rr ** 2).sum()
        if mk(f).loss_fn is not f:
            bad.append(dict(case='callable loss is not used as is'))
        for junk in (3, 2.5, [1]):
            try:
                mk(junk)
                bad.append(dict(case='non-callable loss accepted', arg=repr(junk)))
            except TypeError:
                pass
        try:
            mk('no-such-loss')
            bad.append(dict(case='unknown loss name accepted'))
        except KeyError:
            pass
        # named losses: textbook values on a fixed matrix
        if abs(_losses['l1'](r, None, None).item() - 2.5) > 1e-12 or abs(_losses['l2'](r, None, None).item() - 7.5) > 1e-12 \
                or abs(_losses['infinity'](r, None, None).item() - 3.0) > 1e-12:
            bad.append(dict(case='named loss value'))

        # default optimiser: every distinct parameter of all networks exactly once (one network shared by two unknowns)
        shared = ScriptNet(1)
        sd = S.Solver1D(lambda u, v, t: [u * 0, v * 0], [NoCondition(), NoCondition()], t_min=0., t_max=1., nets=[shared, shared],
                        train_generator=g, valid_generator=g)
        plist = [p for grp in sd.optimizer.param_groups for p in grp['params']]
        if len(plist) != len({id(p) for p in plist}) or {id(p) for p in plist} != {id(p) for p in shared.parameters()}:
            bad.append(dict(case='default optimiser over a network shared by two unknowns', parameters_registered=len(plist),
                            distinct_parameters=len(list(shared.parameters()))))
        # h1 norms: mean square of the residual together with / of its gradient w.r.t. the coordinates
        xs_ = torch.tensor([[0.5], [1.5]], requires_grad=True)
        ys_ = torch.tensor([[2.0], [-1.0]], requires_grad=True)
        res_ = xs_ ** 2 * ys_
        rv = [0.5 ** 2 * 2.0, 1.5 ** 2 * -1.0]
        gx = [2 * 0.5 * 2.0, 2 * 1.5 * -1.0]
        gy = [0.5 ** 2, 1.5 ** 2]
        want_h1 = sum(v * v for v in rv + gx + gy) / 6
        want_semi = sum(v * v for v in gx + gy) / 4
        got_h1 = _losses['h1'](res_, None, (xs_, ys_)).item()
        got_semi = _losses['h1 semi'](xs_ ** 2 * ys_, None, (xs_, ys_)).item()
        if abs(got_h1 - want_h1) > 1e-12 or abs(got_semi - want_semi) > 1e-12:
            bad.append(dict(case='named loss value (h1 / h1 semi)', got=[got_h1, got_semi], want=[want_h1, want_semi]))
        # spherical solver: fixed-arity condition gets the leading coordinates only
        seen = []

        class OnlyR(BaseCondition):
            def parameterize(self, out, r):
                seen.append(('OnlyR', float(r.detach().reshape(-1)[0])))
                return out

        class RTheta(BaseCondition):
            def parameterize(self, out, r, th):
                seen.append(('RTheta', float(r.detach().reshape(-1)[0]), float(th.detach().reshape(-1)[0])))
                return out
        from ..solverworld import make_spy_gen, World
        w = World()
        sp = S.SolverSpherical(lambda u, v, x, r, th, ph: [u * 0, v * 0, x * 0], [OnlyR(), RTheta(), NoCondition()],
                               r_min=0., r_max=1., nets=[ScriptNet(1), ScriptNet(1), ScriptNet(1)],
                               train_generator=make_spy_gen(w, True, 2, 3), valid_generator=make_spy_gen(w, False, 2, 3),
                               n_batches_valid=0)
        sp.fit(1, tqdm_file=None)
        if [x[0] for x in seen[:2]] != ['OnlyR', 'RTheta'] or seen[0][1:] != (0.0,) or seen[1][1:] != (0.0, 1 / 16):
            bad.append(dict(case='SolverSpherical._auto_enforce truncation', seen=seen[:3]))
        # bundle: the equations receive funcs, t, then the parameters named by eq_param_index IN THAT ORDER
        for n_theta, idx in ((3, (2, 1)), (3, (2, 0, 1)), (3, (0,)), (2, (1, 0)), (3, ()), (3, (1, 2))):
            seen_args = []

            def beq(*args):
                seen_args.append([round((a.detach().reshape(-1)[0].item() % 1) * 16) for a in args[1:]])
                return [args[0] * 0]
            b = S.BundleSolver1D(beq, [NoCondition()], t_min=0., t_max=1., theta_min=(0.,) * n_theta, theta_max=(1.,) * n_theta,
                                 eq_param_index=idx, nets=[ScriptNet(1)], train_generator=make_spy_gen(w, True, 2, 1 + n_theta),
                                 valid_generator=make_spy_gen(w, False, 2, 1 + n_theta), n_batches_valid=0)
            try:
                b.fit(1, tqdm_file=None)
            except Exception as e:
                bad.append(dict(case='bundle eq_param_index routing', eq_param_index=idx, error=f'{type(e).__name__}: {e}'))
                continue
            want = [0] + [1 + i for i in idx]
            if not seen_args or seen_args[-1] != want:
                bad.append(dict(case='bundle eq_param_index routing', eq_param_index=idx, equations_received_columns=seen_args[-1:] , expected=want))
        # bundle: index outside the sampled parameters must raise, not default
        try:
            b = S.BundleSolver1D(lambda u, t, p: [u * 0], [NoCondition()], t_min=0., t_max=1., theta_min=(0.,), theta_max=(1.,),
                                 eq_param_index=(3,), nets=[ScriptNet(1)], train_generator=make_spy_gen(w, True, 2, 2),
                                 valid_generator=make_spy_gen(w, False, 2, 2))
            b.fit(1, tqdm_file=None)
            bad.append(dict(case='bundle eq_param_index out of range accepted'))
        except IndexError:
            pass
        except Exception as e:
            bad.append(dict(case='bundle eq_param_index out of range: not rejected with IndexError', error=f'{type(e).__name__}: {e}'))
    return bad


def twin_checks():
    """"a training epoch ... takes an optimiser step on the gradient accumulated over all those batches": observations on real solvers
    with real optimisers, as twin runs that must coincide exactly (every run):
    * an optimiser with several parameter groups trains like the same optimiser with one group;
    * a batch whose loss VALUE is not finite (a flag value added to the loss) but whose gradient is, counts in the accumulated gradient;
    * networks frozen after some training (requires_grad_(False)) are no longer moved, whatever state the optimiser holds for them."""
    import warnings
    import torch
    from neurodiffeq import diff
    from neurodiffeq.solvers import Solver1D
    from neurodiffeq.conditions import IVP
    from neurodiffeq.networks import FCNN
    from neurodiffeq.generators import Generator1D
    bad = []
    ode = lambda u, v, t: [diff(u, t) - v, diff(v, t) + u]

    def make(opt_of, loss_fn=None, seed=3):
        torch.manual_seed(seed)
        nets = [FCNN(1, 1, hidden_units=(4,)) for _ in range(2)]
        kw = dict(loss_fn=loss_fn) if loss_fn is not None else {}
        return Solver1D(ode, [IVP(0., 0.), IVP(0., 1.)], t_min=0., t_max=1., nets=nets, optimizer=opt_of(nets), n_batches_train=3, n_batches_valid=1,
                        train_generator=Generator1D(6, 0., 1., method='equally-spaced'), valid_generator=Generator1D(6, 0., 1., method='equally-spaced'), **kw)
    params = lambda s: [p.detach().clone() for n in s.nets for p in n.parameters()]
    same = lambda a, b: all(torch.equal(x, y) for x, y in zip(a, b))
    with warnings.catch_warnings():
        warnings.simplefilter('ignore')
        for oname, one, two in (('SGD', lambda ns: torch.optim.SGD([p for n in ns for p in n.parameters()], lr=0.05),
                                 lambda ns: torch.optim.SGD([dict(params=list(ns[0].parameters())), dict(params=list(ns[1].parameters()))], lr=0.05)),
                                ('Adam', lambda ns: torch.optim.Adam([p for n in ns for p in n.parameters()], lr=0.01),
                                 lambda ns: torch.optim.Adam([dict(params=list(ns[0].parameters())), dict(params=list(ns[1].parameters()))], lr=0.01))):
            a, b = make(one), make(two)
            start = params(b)
            a.fit(2, tqdm_file=None)
            b.fit(2, tqdm_file=None)
            if not same(params(a), params(b)):
                moved = [not torch.equal(x, y) for x, y in zip(start, params(b))]
                bad.append(dict(case=f'{oname} with one parameter group per network vs one group for all', violated='the two trainings differ: not every '
                                'parameter is stepped on the accumulated gradient', parameters_that_moved=moved,
                                train_loss_one_group=a.metrics_history['train_loss'], train_loss_two_groups=b.metrics_history['train_loss']))
        # a non-finite loss VALUE with a finite gradient
        calls = []

        def flagged(r, f, x, calls=calls):
            calls.append(1)
            base = sum((ri ** 2).mean() for ri in r)
            return base + (float('inf') if len(calls) % 4 == 2 else 0.0)       # batch 2 of the 3 training batches (+1 validation batch per epoch)
        plain = lambda r, f, x: sum((ri ** 2).mean() for ri in r)
        sgd = lambda ns: torch.optim.SGD([p for n in ns for p in n.parameters()], lr=0.05)
        a, b = make(sgd, loss_fn=plain), make(sgd, loss_fn=flagged)
        a.fit(2, tqdm_file=None)
        b.fit(2, tqdm_file=None)
        if not same(params(a), params(b)):
            bad.append(dict(case='one training batch per epoch has loss value +inf (finite gradient)', violated='the optimiser step is not on the gradient '
                            'accumulated over ALL training batches (the trajectories with and without the flag value differ)',
                            train_loss_with_flag=[float(v) for v in b.metrics_history['train_loss']]))
        # trainable tensors that live OUTSIDE the networks (a learnable equation coefficient) and are handed to the optimiser: they are stepped
        # on the accumulated gradient like every other parameter
        kcoef = torch.nn.Parameter(torch.tensor(0.5))
        torch.manual_seed(4)
        nets_ = [FCNN(1, 1, hidden_units=(4,))]
        sk = Solver1D(lambda u, t: [diff(u, t) + kcoef * u], [IVP(0., 1.)], t_min=0., t_max=1., nets=nets_, n_batches_train=2, n_batches_valid=1,
                      optimizer=torch.optim.SGD(list(nets_[0].parameters()) + [kcoef], lr=0.05),
                      train_generator=Generator1D(6, 0., 1., method='equally-spaced'), valid_generator=Generator1D(6, 0., 1., method='equally-spaced'))
        sk.fit(2, tqdm_file=None)
        if kcoef.grad is None or float(kcoef.detach()) == 0.5:
            bad.append(dict(case='a learnable equation coefficient outside the networks, registered with the optimiser', violated='it receives no gradient / is never stepped',
                            value_after_two_epochs=float(kcoef.detach()), has_gradient=kcoef.grad is not None))
        # a user condition whose trailing coordinate has a default value: the spherical solver still hands it all three coordinates
        from neurodiffeq.solvers import SolverSpherical
        from neurodiffeq.conditions import BaseCondition
        from neurodiffeq.generators import GeneratorSpherical
        seen_args = []

        class Cond(BaseCondition):
            def enforce(self, net, r, theta, phi=None):
                seen_args.append(phi is not None)
                xs = [r, theta] + ([phi] if phi is not None else [theta * 0])
                return net(torch.cat(xs, dim=1)) * (r - 0.1)
        try:
            ss_ = SolverSpherical(lambda u, r, th, ph: [diff(u, r) + u], [Cond()], r_min=0.1, r_max=1., nets=[FCNN(3, 1, hidden_units=(4,))],
                                  train_generator=GeneratorSpherical(6, 0.1, 1.), valid_generator=GeneratorSpherical(6, 0.1, 1.), n_batches_valid=1)
            ss_.fit(1, tqdm_file=None)
            if not seen_args or not all(seen_args):
                bad.append(dict(case='SolverSpherical with a user condition enforce(self, net, r, theta, phi=None)', violated='the condition was enforced without '
                                'the third coordinate during training / validation', calls_with_phi=sum(seen_args), calls=len(seen_args)))
        except Exception as e:
            bad.append(dict(case='SolverSpherical with a user condition whose last coordinate has a default', error=f'{type(e).__name__}: {e}'))
        # frozen after some training
        for oname, opt in (('Adam', lambda ns: torch.optim.Adam([p for n in ns for p in n.parameters()], lr=0.01)),
                           ('SGD+momentum', lambda ns: torch.optim.SGD([p for n in ns for p in n.parameters()], lr=0.05, momentum=0.9))):
            s_ = make(opt)
            s_.fit(2, tqdm_file=None)
            for p_ in s_.nets[1].parameters():
                p_.requires_grad_(False)
            before = [p_.detach().clone() for p_ in s_.nets[1].parameters()]
            live = [p_.detach().clone() for p_ in s_.nets[0].parameters()]
            s_.fit(3, tqdm_file=None)
            drift = max(float((x - y).abs().max()) for x, y in zip(before, s_.nets[1].parameters()))
            if drift != 0.0 or all(torch.equal(x, y) for x, y in zip(live, s_.nets[0].parameters())):
                bad.append(dict(case=f'{oname}: second network frozen (requires_grad_(False)) after two epochs', violated='a frozen network keeps moving '
                                '(or the trainable one stopped)', drift_of_frozen_parameters=drift))
    return bad


def check(tier, seed):
    rep = Report(PID, tier, seed)
    ok, hits = kernel_phase(rep, 'NdeVerif.Proofs.C04', 'NdeVerif.C04', THEOREMS)
    ok2, _ = kernel_phase(rep, 'NdeVerif.Proofs.C04Grad', 'NdeVerif.C04', GRAD_THEOREMS, tag='C04grad')
    ok3, _ = kernel_phase(rep, 'NdeVerif.Proofs.AnyHistory', 'NdeVerif.AnyHistory', ['manual_validation_changes_nothing'], tag='C04any')
    ok = ok and ok2 and ok3
    if hits:
        print('forbidden tokens:', hits)
        rep.finish()
        return 2
    broken = [] if ok else [dict(kind='proof', failed=rep.failed)]
    camp = Campaign(tier, seed + 2).run()
    if camp.mismatches:
        broken.append(dict(kind='correspondence', stream='real solver vs NdeVerif.Solver', count=len(camp.mismatches), first=camp.mismatches[:2]))
    bad = evaluate(camp) + [dict(routing=b) for b in routing_checks(seed)] + twin_checks()
    rep.coverage.update(camp.coverage())
    rep.samples = [dict(script=l, solver=kw) for l, kw in camp.scripts[:3]]
    rep.assumptions = ['optimiser arithmetic is an oracle: scripted integer optimisers stand in for SGD/Adam/LBFGS; the gradient they are handed is '
                       'modelled (gradTrace over the event log: zero_grad clears, each training closure evaluation adds the batch gradient, '
                       'validation adds nothing) and compared with the .grad the scripted optimisers actually see at step(); that loss.backward() '
                       'adds d loss/d theta to .grad is torch behaviour',
                       'additional_loss is modelled (Cfg.addl, added to loss_fn in both phases) and scripted in half of the campaign',
                       'conditions are NoCondition in the campaign (the enforce formulas themselves are C01/C02/C10-C12); fixed-arity '
                       'truncation, loss dispatch and bundle routing are observed on the real code every run']
    for b in bad[:3]:
        rep.violation(dict(kind='failing-input', input=b, broken=broken))
    if broken and not bad:
        rep.violation(dict(kind='unproved', broken=broken), found_input=False, name='unproved')
    return rep.finish(checker_cmd='cd lean && lake build NdeVerif.Proofs.C04 && lake env lean --run drivers/Solver.lean < scripts')


def replay(path):
    from .C05 import replay as r
    return r(path)
