"""C18 — saving never alters a solver; loading restores an equal, resumable one.
Engine B: model NdeVerif.Model.Persist (+ Solver), theorems NdeVerif.Proofs.C18.
Streams: (A) scripted world, save/load/fit cycles compared exactly with the Lean model; (B) real networks, dill as
installed (save() raises PicklingError for stock optimisers here): the solver must be untouched and usable;
(C) real networks with dill.settings['byref']=True (a setting of the third-party library): round trip observed."""
import contextlib
import io
import os
import random
import tempfile
import warnings

from ..runner import Report, kernel_phase, run_driver, split_blocks
from ..solverprop import parse_dump
from ..solverworld import run_script

PID = 'C18'
THEOREMS = ['save_preserves', 'save_preserves_obs', 'save_writes_iff', 'load_save_obs', 'load_restores_lowest', 'bestInv_load',
            'resume_tracks_global_min', 'cycles_track_global_min', 'loadOld_breaks_tracking']


def gen_script(rng):
    theta0 = rng.randint(-30, 30)
    opt = rng.choice(['plain', 'closure'])
    n_valid = rng.choice([0, 1, 2, 3, 4])
    lines = [f'init {theta0} {opt} {rng.randint(1, 3)} {n_valid} {rng.randint(0, 2)}']
    for _ in range(rng.randint(2, 6)):
        r = rng.random()
        if r < 0.45:
            lines.append(f'fit {rng.randint(0, 4)}')
        elif r < 0.65:
            lines.append(f'save {rng.randint(0, 1)}')
        else:
            lines.append('saveload')
    lines.append(f'fit {rng.randint(1, 3)}')
    return lines, dict(kind=rng.choice(['1d', '2d']), n_funcs=rng.randint(1, 2), shared=rng.random() < 0.3, n_points=2)


def stream_a(rng, n):
    scripts = [gen_script(rng) for _ in range(n)]
    bad, blocks, reals = [], [], []
    for lines, kw in scripts:
        try:
            with warnings.catch_warnings():
                warnings.simplefilter('ignore')
                out, run = run_script(lines, **kw)
        except Exception as e:
            bad.append(dict(script=lines, kw=kw, error=f'{type(e).__name__}: {e}'))
            continue
        # the model is told whether pickling succeeded (an input of `save`), as observed
        # ... and how many sample batches it drew from the training generator (0 for 1-D solvers, 1 for Solver2D)
        mlines = []
        prev_td, k = 0, 0
        save_draws = []
        for o in out:
            tag = o.split()[0]
            if tag in ('F', 'SAVE', 'SL', 'E'):
                dd = parse_dump(o.split(' ', 2)[2] if tag in ('F', 'SAVE') else o[len(tag) + 1:])
                if tag == 'SAVE':
                    save_draws.append(('1' if 'wrote=true' in o else '0', dd['td'] - prev_td))
                if tag == 'SL':
                    save_draws.append(('sl', dd['td'] - prev_td))
                prev_td = dd['td']
        it = iter(save_draws)
        for l in lines:
            if l.startswith('save '):
                w_, k_ = next(it)
                mlines.append(f'save {w_} {k_}')
            elif l == 'saveload':
                _, k_ = next(it)
                mlines.append(f'saveload {k_}')
            else:
                mlines.append(l)
        if getattr(run, 'save_touched_best', False):
            bad.append(dict(script=lines, kw=kw, violated='save() changed the state (parameters or buffers) of the stored best networks'))
        reals.append((lines, kw, out))
        blocks.append('\n'.join(mlines) + '\n---')
        # the property itself on the real observations
        prev = None
        for o in out:
            tag = o.split()[0]
            if tag in ('F', 'SAVE', 'SL', 'E'):
                d = parse_dump(o.split(' ', 2)[2] if tag in ('F', 'SAVE') else o[len(tag) + 1:])
                if tag == 'SAVE' and prev is not None:
                    keys = ('theta', 'opt', 'loss', 'nT', 'nV', 'train', 'valid', 'tm', 'vm', 'lowest', 'best', 'vd', 'steps')
                    if any(prev[k] != d[k] for k in keys):
                        bad.append(dict(script=lines, kw=kw, violated='save() changed the solver', before=prev, after=d))
                if tag == 'SL' and prev is not None:
                    for k in ('theta', 'train', 'valid', 'lowest', 'best', 'opt', 'loss'):
                        if prev[k] != d[k]:
                            bad.append(dict(script=lines, kw=kw, violated=f'load() did not restore {k}', saved=prev[k], loaded=d[k]))
                if tag == 'E' and d['valid'] and lines[0].split()[4] != '0' and d['lowest'] != min(d['valid']):
                    bad.append(dict(script=lines, kw=kw, violated='after resuming, lowest_loss is not the minimum of the whole validation history',
                                    lowest=d['lowest'], history=d['valid']))
                prev = d
    mlines, dt = run_driver('Solver', '\n'.join(blocks) + '\n')
    mism = []
    for (lines, kw, out), mb in zip(reals, split_blocks(mlines)):
        if out != mb:
            first = next((i for i, (a, b) in enumerate(zip(out, mb)) if a != b), min(len(out), len(mb)))
            mism.append(dict(script=lines, kw=kw, first_difference=first, real=out[first:first + 1], model=mb[first:first + 1]))
    return scripts, bad, mism, dt


def snapshot(solver):
    import torch
    conds = []

    def describe(c):
        d = {k: (id(v), type(v).__name__, v if isinstance(v, (int, float, str, type(None))) else None) for k, v in c.__dict__.items()}
        # sub-conditions of an ensemble are part of the solver's conditions too
        subs = c.__dict__.get('conditions')
        if isinstance(subs, (list, tuple)):
            d['__sub__'] = [describe(x) for x in subs]
        return d
    for c in solver.conditions:
        conds.append(describe(c))
    return dict(conds=conds, nets=[{k: v.clone() for k, v in n.state_dict().items()} for n in solver.nets],
                best=None if solver.best_nets is None else [{k: v.clone() for k, v in n.state_dict().items()} for n in solver.best_nets],
                hist={k: list(v) for k, v in solver.metrics_history.items()}, opt_id=id(solver.optimizer),
                opt_state=repr(solver.optimizer.state_dict()['param_groups']) if hasattr(solver.optimizer, 'state_dict') else repr(solver.optimizer),
                lowest=solver.lowest_loss, ge=solver.global_epoch)


def same_snapshot(a, b):
    import torch
    if a['conds'] != b['conds'] or a['hist'] != b['hist'] or a['opt_id'] != b['opt_id'] or a['opt_state'] != b['opt_state'] \
            or a['lowest'] != b['lowest'] or a['ge'] != b['ge']:
        return False
    for x, y in zip(a['nets'] + (a['best'] or []), b['nets'] + (b['best'] or [])):
        if any(not torch.equal(x[k], y[k]) for k in x):
            return False
    return (a['best'] is None) == (b['best'] is None)


def make_real(kind, rng, opt_name, n_valid=4):
    import torch
    from neurodiffeq.solvers import Solver1D, Solver2D, BundleSolver1D
    from neurodiffeq.conditions import IVP, DirichletBVP2D, BundleIVP
    from neurodiffeq.networks import FCNN
    from neurodiffeq.generators import Generator1D, Generator2D
    from ..fixtures import c18_eqs as E
    torch.manual_seed(rng.randrange(1 << 30))
    lr = rng.choice([1e-2, 3e-3, 5e-2])
    mk_opt = lambda nets: (torch.optim.SGD([p for n in nets for p in n.parameters()], lr=lr, momentum=rng.choice([0.0, 0.0, 0.9])) if opt_name == 'SGD'
                           else E.ClipSGD([p for n in nets for p in n.parameters()], lr=lr) if opt_name == 'ClipSGD'
                           else torch.optim.Adam([p for n in nets for p in n.parameters()], lr=lr))
    if kind == 'Solver1D':
        nets = [FCNN(1, 1, hidden_units=(4,))]
        s = Solver1D(E.ode, [IVP(0., 1.)], t_min=0., t_max=1., nets=nets, optimizer=mk_opt(nets), n_batches_valid=n_valid,
                     train_generator=Generator1D(8, 0., 1.), valid_generator=Generator1D(8, 0., 1., method='equally-spaced'))
        coords = [torch.linspace(0, 1, 5)]
    elif kind == 'Solver1D-zero-loss':
        nets = [FCNN(1, 1, hidden_units=(4,))]
        s = Solver1D(E.zero_ode, [IVP(0., 1.)], t_min=0., t_max=1., nets=nets, optimizer=mk_opt(nets), n_batches_valid=n_valid,
                     train_generator=Generator1D(8, 0., 1.), valid_generator=Generator1D(8, 0., 1., method='equally-spaced'))
        coords = [torch.linspace(0, 1, 5)]
    elif kind == 'Solver1D-inf-valid':
        nets = [FCNN(1, 1, hidden_units=(4,))]
        s = Solver1D(E.ode_singular, [IVP(0., 1.)], t_min=0., t_max=1., nets=nets, optimizer=mk_opt(nets), n_batches_valid=max(n_valid, 1),
                     train_generator=Generator1D(8, 0.1, 1.), valid_generator=Generator1D(8, 0., 1., method='equally-spaced'))
        coords = [torch.linspace(0.1, 1, 5)]
    elif kind == 'Solver1D-ensemble':
        from neurodiffeq.conditions import EnsembleCondition
        nets = [FCNN(1, 2, hidden_units=(4,))]
        s = Solver1D(E.ode_ens, [EnsembleCondition(IVP(0., 0.), IVP(0., 1.))], t_min=0., t_max=1., nets=nets, optimizer=mk_opt(nets),
                     n_batches_valid=n_valid, train_generator=Generator1D(8, 0., 1.), valid_generator=Generator1D(8, 0., 1., method='equally-spaced'))
        coords = [torch.linspace(0, 1, 5)]
    elif kind == 'Solver1D-2eq':
        nets = [FCNN(1, 1, hidden_units=(4,)) for _ in range(2)]
        s = Solver1D(E.ode2, [IVP(0., 0.), IVP(0., 1.)], t_min=0., t_max=1., nets=nets, optimizer=mk_opt(nets), n_batches_valid=n_valid)
        coords = [torch.linspace(0, 1, 5)]
    elif kind == 'Solver2D':
        nets = [FCNN(2, 1, hidden_units=(4,))]
        lam = rng.random() < 0.5
        top = (lambda x: torch.sin(x)) if lam else E.sinx
        s = Solver2D(E.pde, [DirichletBVP2D(0., E.zero, 1., E.zero, 0., E.zero, 1., top)], xy_min=(0., 0.), xy_max=(1., 1.), nets=nets,
                     optimizer=mk_opt(nets), train_generator=Generator2D((3, 3)), valid_generator=Generator2D((3, 3), method='equally-spaced'))
        coords = [torch.rand(4), torch.rand(4)]
    else:
        nets = [FCNN(2, 1, hidden_units=(4,))]
        idx = (0,) if kind == 'Bundle-param' else ()
        eq = E.bode if idx else (lambda u, t, a=None: E.ode(u, t)) if False else (E.bode if idx else E.ode)
        s = BundleSolver1D(eq, [BundleIVP(0., 1.)], t_min=0., t_max=1., theta_min=(0.,), theta_max=(1.,), eq_param_index=idx,
                           nets=nets, optimizer=mk_opt(nets))
        coords = [torch.linspace(0, 1, 5), torch.linspace(0, 1, 5)]
    return s, coords


def stream_real(rng, n, shim):
    """B (shim False) / C (shim True)"""
    import dill
    import torch
    bad, runs = [], 0
    stats = dict(save_ok=0, save_failed=0, loads=0)
    for i in range(n):
        kind = rng.choice(['Solver1D', 'Solver1D-2eq', 'Solver2D', 'Bundle', 'Bundle-param', 'Solver1D-ensemble', 'Solver1D-zero-loss', 'Solver1D-inf-valid']) if i >= 4 \
            else ['Solver1D-ensemble', 'Solver1D', 'Solver1D-zero-loss', 'Solver1D-inf-valid'][i]
        opt = rng.choice(['SGD', 'Adam', 'ClipSGD']) if i >= 4 else ['SGD', 'ClipSGD', 'SGD', 'SGD'][i]
        ctx = dict(kind=kind, optimizer=opt, shim=shim)
        with warnings.catch_warnings():
            warnings.simplefilter('ignore')
            nv = rng.choice([4, 4, 1, 0])
            ctx['n_batches_valid'] = nv
            s, coords = make_real(kind, rng, opt, n_valid=nv)
            s.fit(rng.randint(0, 4) if kind not in ('Solver1D-zero-loss', 'Solver1D-inf-valid') else rng.randint(1, 3), tqdm_file=None)
            if rng.random() < 0.5:      # a learning-rate schedule / manual decay after construction: part of the optimiser that is saved
                for grp in s.optimizer.param_groups:
                    grp['lr'] = grp['lr'] * 0.37
                ctx['lr_changed_after_construction'] = True
            if rng.random() < 0.4:        # networks put into evaluation mode by the user before saving (the mode is part of the module's state)
                for n_ in s.nets:
                    n_.eval()
                ctx['nets_in_eval_mode'] = True
            cur = s
            for cyc in range(rng.randint(1, 2) if shim else 1):
                before = snapshot(cur)
                path = tempfile.mktemp(prefix='verif-c18-')
                dill.settings['byref'] = shim
                try:
                    cur.save(path=path)
                    wrote = True
                    stats['save_ok'] += 1
                except Exception as e:
                    wrote = False
                    stats['save_failed'] += 1
                    err = type(e).__name__
                finally:
                    dill.settings['byref'] = False
                runs += 1
                if not same_snapshot(before, snapshot(cur)):
                    bad.append(dict(ctx, violated='save() altered the solver (conditions / networks / histories / optimiser)', wrote=wrote))
                try:
                    cur.fit(1, tqdm_file=None)
                except Exception as e:
                    bad.append(dict(ctx, violated='solver unusable after save()', error=f'{type(e).__name__}: {e}', wrote=wrote))
                    break
                if not wrote:
                    continue
                # what was saved is the state BEFORE the extra epoch: save again to compare the round trip exactly
                dill.settings['byref'] = True
                try:
                    cur.save(path=path)
                    with contextlib.redirect_stdout(io.StringIO()):
                        loaded = type(cur).load(path=path)
                except Exception as e:
                    bad.append(dict(ctx, violated='load() failed', error=f'{type(e).__name__}: {e}'))
                    break
                finally:
                    dill.settings['byref'] = False
                    if os.path.exists(path):
                        os.remove(path)
                stats['loads'] += 1
                # the documented way of resuming with another optimiser: class + parameters in a SolverConfig; networks, best
                # networks, histories and the lowest loss must be restored exactly as with the default configuration
                try:
                    from neurodiffeq.solvers_utils import SolverConfig
                    dill.settings['byref'] = True
                    cur.save(path=path)
                    cfg = SolverConfig()
                    empty_params = rng.random() < 0.5          # `optimizer_params={}`: the optimiser's own defaults
                    cfg.optimizer, cfg.optimizer_params = torch.optim.SGD, ({} if empty_params else dict(lr=0.0125))
                    with contextlib.redirect_stdout(io.StringIO()):
                        l2 = type(cur).load(path=path, config=cfg)
                    if l2.global_epoch != cur.global_epoch:
                        bad.append(dict(ctx, violated='global epoch differs after load() with an optimiser class and parameters', got=l2.global_epoch,
                                        want=cur.global_epoch, optimizer_params={} if empty_params else dict(lr=0.0125)))
                    stats['loads_with_optimizer_config'] = stats.get('loads_with_optimizer_config', 0) + 1
                    if l2.lowest_loss != cur.lowest_loss:
                        bad.append(dict(ctx, violated='lowest_loss not restored when load() is given an optimiser class and parameters',
                                        got=l2.lowest_loss, want=cur.lowest_loss))
                    for k in ('train_loss', 'valid_loss'):
                        if list(l2.metrics_history[k]) != list(cur.metrics_history[k]):
                            bad.append(dict(ctx, violated=f'{k} history differs after load() with an optimiser class and parameters'))
                    if type(l2.optimizer) is not torch.optim.SGD or (not empty_params and l2.optimizer.param_groups[0]['lr'] != 0.0125):
                        bad.append(dict(ctx, violated='load() did not build the requested optimiser', got=str(l2.optimizer)[:100]))
                except Exception as e:
                    bad.append(dict(ctx, violated='load() with an optimiser class and parameters failed', error=f'{type(e).__name__}: {e}'))
                finally:
                    dill.settings['byref'] = False
                    if os.path.exists(path):
                        os.remove(path)
                # "can continue training": the optimiser that came back trains the networks that came back (and nothing else)
                opt_ids = {id(p_) for g_ in loaded.optimizer.param_groups for p_ in g_['params']}
                net_ids = {id(p_) for n_ in loaded.nets for p_ in n_.parameters()}
                if opt_ids != net_ids:
                    bad.append(dict(ctx, violated='the optimiser of the loaded solver does not hold exactly the parameters of the loaded networks '
                                    '(training it would move other tensors)', parameters_of_networks=len(net_ids), held_by_optimiser=len(opt_ids & net_ids),
                                    foreign_tensors=len(opt_ids - net_ids)))
                if [bool(n_.training) for n_ in loaded.nets] != [bool(n_.training) for n_ in cur.nets] or \
                        (cur.best_nets is not None and [bool(n_.training) for n_ in loaded.best_nets] != [bool(n_.training) for n_ in cur.best_nets]):
                    bad.append(dict(ctx, violated='training / evaluation mode of the loaded networks differs from the saved ones (mode-dependent layers would evaluate differently)',
                                    saved=[bool(n_.training) for n_ in cur.nets], loaded=[bool(n_.training) for n_ in loaded.nets]))
                if [str(p_.dtype) for n_ in loaded.nets for p_ in n_.parameters()] != [str(p_.dtype) for n_ in cur.nets for p_ in n_.parameters()]:
                    bad.append(dict(ctx, violated='precision of the loaded networks differs from the saved ones'))
                if type(loaded) is not type(cur):
                    bad.append(dict(ctx, violated='loaded solver is of a different kind', got=type(loaded).__name__))
                skw = dict(no_reshape=True) if 'ensemble' in kind else {}      # a 2-column unknown cannot take the shape of the coordinate
                for best in (False, True):
                    if best and cur.best_nets is None:
                        continue
                    a = cur.get_solution(best=best)(*coords, **skw)
                    try:
                        b = loaded.get_solution(best=best)(*coords, **skw)
                    except Exception as e:
                        bad.append(dict(ctx, violated=f'loaded {"best" if best else "latest"} solution cannot be evaluated (it is not the saved one)',
                                        error=f'{type(e).__name__}: {e}'))
                        continue
                    a, b = (a if isinstance(a, list) else [a]), (b if isinstance(b, list) else [b])
                    if not all(torch.equal(x, y) for x, y in zip(a, b)):
                        bad.append(dict(ctx, violated=f'loaded {"best" if best else "latest"} solution evaluates differently'))
                for k in ('train_loss', 'valid_loss'):
                    if list(loaded.metrics_history[k]) != list(cur.metrics_history[k]):
                        bad.append(dict(ctx, violated=f'{k} history differs after load'))
                if loaded.global_epoch != cur.global_epoch:
                    bad.append(dict(ctx, violated='global epoch differs after load', got=loaded.global_epoch, want=cur.global_epoch))
                hp = lambda o: [(type(o).__name__, {k: v for k, v in g.items() if k != 'params'}, len(g['params'])) for g in o.param_groups]
                if hp(loaded.optimizer) != hp(cur.optimizer):
                    bad.append(dict(ctx, violated='optimiser kind / hyper-parameters / parameter count differ after load',
                                    saved=str(hp(cur.optimizer))[:300], loaded=str(hp(loaded.optimizer))[:300]))
                if loaded.lowest_loss != cur.lowest_loss:
                    bad.append(dict(ctx, violated='lowest_loss not restored', got=loaded.lowest_loss, want=cur.lowest_loss))
                # resume: tracking refers to the whole history
                try:
                    best_before = None if loaded.best_nets is None else [{k: v.clone() for k, v in n.state_dict().items()} for n in loaded.best_nets]
                    low_before = loaded.lowest_loss
                    loaded.fit(rng.randint(1, 3), tqdm_file=None)
                except Exception as e:
                    bad.append(dict(ctx, violated='loaded solver cannot continue training', error=f'{type(e).__name__}: {e}'))
                    break
                vl = loaded.metrics_history['valid_loss']
                if any(v is None for v in vl):
                    bad.append(dict(ctx, violated='the validation-loss history of the loaded solver contains entries that are not numbers', history=vl[:6]))
                    break
                if vl and nv > 0 and loaded.lowest_loss != min(vl):
                    bad.append(dict(ctx, violated='after resuming, lowest_loss is not the minimum of the whole validation history',
                                    lowest=loaded.lowest_loss, minimum=min(vl)))
                if best_before is not None and low_before is not None and loaded.lowest_loss == low_before:
                    now = [n.state_dict() for n in loaded.best_nets]
                    if any(not torch.equal(x[k], y[k]) for x, y in zip(best_before, now) for k in x):
                        bad.append(dict(ctx, violated='best_nets replaced after load although no lower loss occurred'))
                cur = loaded
    return bad, runs, stats


def overwrite_checks(rng):
    """"loading what was saved": a path that is written again holds the LATER solver - also when the two files have the same length,
    the same modification second, and the first one was loaded before"""
    import dill
    import torch
    bad, n = [], 0
    path = tempfile.mktemp(prefix='verif-c18-same-path-')
    dill.settings['byref'] = True
    try:
        with warnings.catch_warnings():
            warnings.simplefilter('ignore')
            for kind in ('Solver1D', 'Solver2D'):
                sizes, loaded_prev = [], None
                for gen in range(3):
                    s, coords = make_real(kind, rng, 'SGD', n_valid=1)
                    s.fit(1, tqdm_file=None)
                    s.save(path=path)
                    sizes.append(os.path.getsize(path))
                    with contextlib.redirect_stdout(io.StringIO()):
                        l = type(s).load(path=path)
                    n += 1
                    a, b = s.get_solution(best=False)(*coords), l.get_solution(best=False)(*coords)
                    if not torch.equal(a, b) or list(l.metrics_history['train_loss']) != list(s.metrics_history['train_loss']):
                        bad.append(dict(kind=kind, violated='a path written a second time loads as something other than what was saved last',
                                        generation=gen, file_sizes=sizes,
                                        loaded_equals_earlier_save=bool(loaded_prev is not None and torch.equal(b, loaded_prev))))
                        break
                    loaded_prev = b
    except Exception as e:
        bad.append(dict(violated='save / load on a re-used path failed', error=f'{type(e).__name__}: {e}'))
    finally:
        dill.settings['byref'] = False
        if os.path.exists(path):
            os.remove(path)
    return bad, n


def float32_session_check(rng):
    """a single-precision session (torch default dtype float32, several different batches per epoch): histories come back exactly"""
    import dill
    import torch
    from neurodiffeq.solvers import Solver1D
    from neurodiffeq.conditions import IVP
    from neurodiffeq.networks import FCNN
    from neurodiffeq.generators import Generator1D
    from ..fixtures import c18_eqs as E
    bad = []
    prev = torch.get_default_dtype()
    path = tempfile.mktemp(prefix='verif-c18-f32-')
    dill.settings['byref'] = True
    try:
        torch.set_default_dtype(torch.float32)
        torch.manual_seed(rng.randrange(1 << 30))
        with warnings.catch_warnings():
            warnings.simplefilter('ignore')
            nets = [FCNN(1, 1, hidden_units=(4,))]
            s = Solver1D(E.ode, [IVP(0., 1.)], t_min=0., t_max=1., nets=nets, optimizer=torch.optim.SGD(nets[0].parameters(), lr=0.01), n_batches_train=3,
                         n_batches_valid=3, train_generator=Generator1D(8, 0., 1.), valid_generator=Generator1D(8, 0., 1.))
            s.fit(3, tqdm_file=None)
            before = {k: list(v) for k, v in s.metrics_history.items()}
            s.save(path=path)
            with contextlib.redirect_stdout(io.StringIO()):
                l = Solver1D.load(path=path)
        for k in ('train_loss', 'valid_loss'):
            if list(l.metrics_history[k]) != before[k] or list(s.metrics_history[k]) != before[k]:
                bad.append(dict(kind='Solver1D in a float32 session', violated=f'{k} history differs after save / load',
                                saved=before[k], loaded=list(l.metrics_history[k])))
        vl = l.metrics_history['valid_loss']
        if vl and l.lowest_loss != min(vl):
            bad.append(dict(kind='Solver1D in a float32 session', violated='lowest_loss of the loaded solver is not the minimum of its validation history',
                            lowest=l.lowest_loss, minimum=min(vl)))
    except Exception as e:
        bad.append(dict(kind='Solver1D in a float32 session', violated='save / load raised', error=f'{type(e).__name__}: {e}'))
    finally:
        torch.set_default_dtype(prev)
        dill.settings['byref'] = False
        if os.path.exists(path):
            os.remove(path)
    # saved in a double-precision session, loaded while the session default is single precision: the solutions evaluate identically
    dill.settings['byref'] = True
    try:
        torch.set_default_dtype(torch.float64)
        with warnings.catch_warnings():
            warnings.simplefilter('ignore')
            s, coords = make_real('Solver1D', rng, 'SGD', n_valid=1)
            s.fit(2, tqdm_file=None)
            s.save(path=path)
            want = [s.get_solution(best=b)(*coords).clone() for b in (False, True)]
            torch.set_default_dtype(torch.float32)
            with contextlib.redirect_stdout(io.StringIO()):
                l = type(s).load(path=path)
            for b, w in zip((False, True), want):
                try:
                    got = l.get_solution(best=b)(*coords)
                    same = got.dtype == w.dtype and torch.equal(got, w)
                except Exception as e:
                    same, got = False, f'{type(e).__name__}: {e}'
                if not same:
                    bad.append(dict(kind='Solver1D saved in a float64 session, loaded in a float32 session', violated=f'loaded {"best" if b else "latest"} solution '
                                    'does not evaluate identically on the original (float64) coordinates', got=str(got)[:200]))
    except Exception as e:
        bad.append(dict(kind='Solver1D saved in a float64 session, loaded in a float32 session', violated='save / load raised', error=f'{type(e).__name__}: {e}'))
    finally:
        torch.set_default_dtype(prev)
        dill.settings['byref'] = False
        if os.path.exists(path):
            os.remove(path)
    return bad


def checkpoint_stream(rng, n):
    """CheckpointCallback (dumps get_internals('all') each time it fires): a twin solver trained without it must end in the
    same state (checkpointing does not alter the solver), and the last dump describes the solver at the time it was written"""
    import dill
    import glob
    import shutil
    import torch
    from neurodiffeq.callbacks import CheckpointCallback, PeriodLocal
    bad, stats = [], dict(runs=0, checkpoints_read=0, dump_failed=0)
    for i in range(n):
        kind = rng.choice(['Solver1D', 'Solver2D', 'Bundle'])
        opt = rng.choice(['SGD', 'Adam'])
        nv = rng.choice([4, 1, 0])
        epochs = rng.randint(1, 4)
        period = rng.randint(1, 2)
        ctx = dict(kind=kind, optimizer=opt, n_batches_valid=nv, epochs=epochs, checkpoint_every=period)
        with warnings.catch_warnings():
            warnings.simplefilter('ignore')
            seed_ = rng.randrange(1 << 30)
            twins = []
            for with_ckpt in (True, False):
                torch.manual_seed(seed_)
                r2 = random.Random(seed_)
                s, coords = make_real(kind, r2, opt, n_valid=nv)
                torch.manual_seed(seed_ + 1)
                d = tempfile.mkdtemp(prefix='verif-c18-ckpt-')
                dill.settings['byref'] = True
                try:
                    cbs = [CheckpointCallback(d).conditioned_on(PeriodLocal(period))] if with_ckpt else []
                    s.fit(epochs, callbacks=cbs, tqdm_file=None)
                except Exception as e:
                    bad.append(dict(ctx, violated='fit() with a CheckpointCallback raised', error=f'{type(e).__name__}: {e}'))
                    stats['dump_failed'] += 1
                    shutil.rmtree(d, ignore_errors=True)
                    twins = None
                    break
                finally:
                    dill.settings['byref'] = False
                files = sorted(glob.glob(os.path.join(d, '*.internals')))
                if with_ckpt and files and epochs % period == 0:
                    try:
                        obj = dill.load(open(files[-1], 'rb'))
                        stats['checkpoints_read'] += 1
                        if obj.get('global_epoch') != s.global_epoch or obj.get('lowest_loss') != s.lowest_loss:
                            bad.append(dict(ctx, violated='checkpoint written after the last epoch does not describe the solver',
                                            checkpoint=dict(global_epoch=obj.get('global_epoch'), lowest_loss=obj.get('lowest_loss')),
                                            solver=dict(global_epoch=s.global_epoch, lowest_loss=s.lowest_loss)))
                        for a, b in zip(obj.get('nets', []), s.nets):
                            if any(not torch.equal(x, y) for x, y in zip(a.state_dict().values(), b.state_dict().values())):
                                bad.append(dict(ctx, violated='networks in the last checkpoint differ from the solver\'s networks'))
                                break
                    except Exception as e:
                        bad.append(dict(ctx, violated='checkpoint file cannot be read back', error=f'{type(e).__name__}: {e}'))
                shutil.rmtree(d, ignore_errors=True)
                twins.append(s)
            if twins:
                a, b = twins
                same = (a.metrics_history == b.metrics_history and a.lowest_loss == b.lowest_loss and a.global_epoch == b.global_epoch
                        and all(torch.equal(x, y) for n1, n2 in zip(a.nets, b.nets) for x, y in zip(n1.state_dict().values(), n2.state_dict().values())))
                if not same:
                    bad.append(dict(ctx, violated='training with a CheckpointCallback ends in a different state than training without it'))
                stats['runs'] += 1
    return bad, stats


def check(tier, seed):
    rep = Report(PID, tier, seed)
    ok, hits = kernel_phase(rep, 'NdeVerif.Proofs.C18', 'NdeVerif.C18', THEOREMS)
    if hits:
        print('forbidden tokens:', hits)
        rep.finish()
        return 2
    broken = [] if ok else [dict(kind='proof', failed=rep.failed)]
    rng = random.Random(seed)
    scripts, bad, mism, dt = stream_a(rng, 20 if tier == 'quick' else 250)
    if mism:
        broken.append(dict(kind='correspondence', stream='scripted save/load/fit cycles vs NdeVerif.Persist', count=len(mism), first=mism[:2]))
    b_bad, b_runs, b_stats = stream_real(rng, 6 if tier == 'quick' else 40, shim=False)
    c_bad, c_runs, c_stats = stream_real(rng, 8 if tier == 'quick' else 60, shim=True)
    bad += [dict(stream='as-installed', **b) for b in b_bad] + [dict(stream='byref-shim', **c) for c in c_bad]
    k_bad, k_stats = checkpoint_stream(rng, 4 if tier == 'quick' else 30)
    bad += [dict(stream='checkpoint-callback', **b) for b in k_bad]
    o_bad, o_runs = overwrite_checks(rng)
    bad += [dict(stream='float32-session', **b) for b in float32_session_check(rng)]
    bad += [dict(stream='same-path', **b) for b in o_bad]
    n_ops = sum(len(l) for l, _ in scripts)
    rep.coverage.update(programs=len(scripts) + b_runs + c_runs, traces_validated_against_impl=len(scripts) - len(mism),
                        evaluations=n_ops + b_runs + c_runs, distinct_nontrivial=len({tuple(l) for l, _ in scripts if any(x == 'saveload' for x in l)}) + b_runs + c_runs,
                        rule='stream A: scripted solvers (Solver1D/Solver2D) through random fit / save / save+load sequences, every dump and event log '
                             'compared exactly with the Lean model; non-trivial = contains a load. Streams B/C: real networks, conditions with numbers '
                             'and with functions/lambdas, SGD/Adam, Solver1D/Solver2D/BundleSolver1D, dill as installed (save raises) and with byref=True',
                        input_distribution=dict(as_installed=b_stats, byref_shim=c_stats, checkpoint_callback=k_stats, same_path_overwrites=o_runs, driver_seconds=round(dt, 1),
                                                scripted_loads=sum(x == 'saveload' for l, _ in scripts for x in l)))
    rep.samples = [dict(script=scripts[0][0], solver=scripts[0][1])]
    rep.assumptions = ['dill byte fidelity, the file system and the hub upload path are outside the model (runtime)',
                       "stream C sets dill.settings['byref']=True: in this sandbox dill 0.4.1 cannot pickle torch 2.14 optimiser classes by value, "
                       'so save() with a stock optimiser always raises as installed (that is stream B)',
                       'load() rebuilds the solver with the class defaults n_batches_train=1, n_batches_valid=4 and empty custom-metric series; the '
                       'resume theorem assumes validation stays enabled/disabled as before',
                       'BundleSolver1D.load does not restore a custom loss_fn (the property does not name the loss function)']
    for b in bad[:3]:
        rep.violation(dict(kind='failing-input', input=b, broken=broken))
    if broken and not bad:
        rep.violation(dict(kind='unproved', broken=broken), found_input=False, name='unproved')
    return rep.finish(checker_cmd='cd lean && lake build NdeVerif.Proofs.C18 && lake env lean --run drivers/Solver.lean < scripts')


def replay(path):
    import json
    d = json.load(open(path))
    print(json.dumps(d.get('input'), indent=1)[:3000])
    return 0
