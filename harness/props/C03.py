"""C03 — `diff` returns the exact per-sample k-th partial derivative, differentiably; shape guards.

Engine B on top of the calc engine: Lean model NdeVerif.Model.DiffLoop (control flow of unsafe_diff over a gradient
oracle, guards of safe_diff, dispatch of diff, Float evaluator), theorems NdeVerif.Proofs.C03 (the model's output is
the k-th partial derivative, for every expression / order / nesting; zero clauses; guard characterisation).
Correspondence, checked on every run:
  1. autograd model vs REAL autograd: random typed programs, real `neurodiffeq.diff` (nested) on float64 (n,1)
     tensors versus `evalF (diffLoop ...)` from the Lean driver at the same points;
  2. the real `unsafe_diff` / `diff` loop traced symbolically (harness/sym.py) for k = 1..6 versus the model's
     syntactic output;
  3. all shape pairs of rank <= 3, dims 0..3: real `safe_diff` / `diff(shape_check=...)` accept/raise vs the model.
Independently the property itself is evaluated on the real observations (sympy derivative in 40-digit arithmetic,
zeros/shape/requires_grad/backward observations, textbook guard predicate) for the failing-input search.
"""
import itertools
import json
import math
import random
import struct
import time
from fractions import Fraction

from ..runner import Report, kernel_phase, run_driver, split_blocks, known_findings

PID = 'C03'
THEOREMS = ['diffLoop_eq_iterD', 'diff_is_kth_partial', 'diff_zero_of_independent', 'diff_zero_of_independent_eval',
            'deriv_zero_of_independent', 'diff_zero_above_degree', 'mixed_partial_sound', 'nested_diff_sound',
            'diffLoop_sound_of_admissible', 'autograd_admissible', 'diffLoop_syntactic', 'unsafeDiff_order_le_one',
            'guard_accepts_iff', 'guard_mismatch_iff', 'safeDiff_spec', 'diff_dispatch', 'diff_checked_rejects',
            'hasVar_D_false', 'hasVar_of_hasVar_D', 'loop_eq_iterD', 'poly_repr', 'total_diffLoop']

UNS = ('exp', 'sin', 'cos', 'tanh')
TOL = 1e-8
SIZE_LIMIT = 40000        # nodes of the model's result tree
GRAD_SIZE_LIMIT = 4000    # below this the gradients of the result w.r.t. every column are compared too
MAG_LIMIT = 30.0          # largest |intermediate value| of u allowed at the sample points (conditioning)


# ---- trees --------------------------------------------------------------------------------------
# source trees = harness/ex.py trees plus ('net', W1, b1, W2, b2, args): a real FCNN (1 hidden tanh layer) with
# dyadic weights, written out as an expression by `expand`.

def as_tuple(e):
    return tuple(as_tuple(a) for a in e) if isinstance(e, (list, tuple)) else e


def const(q):
    q = Fraction(q)
    if q < 0:
        return ('neg', const(-q))
    return ('nat', q.numerator) if q.denominator == 1 else ('rat', q.numerator, q.denominator)


def expand(e):
    """source tree -> pure `Ex` tree (the network written out: W2 . tanh(W1 . a + b1) + b2)"""
    op = e[0]
    if op == 'net':
        _, W1, b1, W2, b2, args = e
        args = [expand(a) for a in args]
        out = None
        for j in range(len(W1)):
            s = None
            for i, a in enumerate(args):
                term = ('mul', const(Fraction(*W1[j][i])), a)
                s = term if s is None else ('add', s, term)
            s = ('add', s, const(Fraction(*b1[j])))
            h = ('mul', const(Fraction(*W2[j])), ('un', 'tanh', s))
            out = h if out is None else ('add', out, h)
        return ('add', out, const(Fraction(*b2)))
    if op in ('var', 'nat', 'rat', 'pi'):
        return e
    if op in ('add', 'mul'):
        return (op, expand(e[1]), expand(e[2]))
    if op == 'neg':
        return ('neg', expand(e[1]))
    if op == 'pow':
        return ('pow', expand(e[1]), e[2])
    if op == 'un':
        return ('un', e[1], expand(e[2]))
    raise ValueError(e)


def toks(e):
    """prefix tokens understood by lean/drivers/C03.lean"""
    out = []
    stack = [e]
    while stack:
        e = stack.pop()
        if isinstance(e, str):
            out.append(e)
            continue
        op = e[0]
        if op == 'var':
            out += ['v', str(e[1])]
        elif op == 'nat':
            out += ['n', str(e[1])]
        elif op == 'rat':
            out += ['r', str(e[1]), str(e[2])]
        elif op == 'pi':
            out.append('pi')
        elif op in ('add', 'mul', 'atan2'):
            out.append(op)
            stack += [e[2], e[1]]
        elif op in ('neg', 'inv'):
            out.append(op)
            stack.append(e[1])
        elif op == 'pow':
            out += ['pow', str(e[2])]
            stack.append(e[1])
        elif op == 'un':
            out.append(e[1])
            stack.append(e[2])
        elif op == 'app':
            out += ['app', str(e[1]), str(len(e[3]))] + [str(m) for m in e[2]]
            stack += list(reversed(e[3]))
        else:
            raise ValueError(e)
    return out


def parse_toks(ts):
    pos = [0]

    def nxt():
        pos[0] += 1
        return ts[pos[0] - 1]

    def go():
        t = nxt()
        if t == 'v':
            return ('var', int(nxt()))
        if t == 'n':
            return ('nat', int(nxt()))
        if t == 'r':
            p = int(nxt())
            return ('rat', p, int(nxt()))
        if t == 'pi':
            return ('pi',)
        if t in ('add', 'mul', 'atan2'):
            a = go()
            return (t, a, go())
        if t in ('neg', 'inv'):
            return (t, go())
        if t == 'pow':
            k = int(nxt())
            return ('pow', go(), k)
        if t == 'app':
            f, n = int(nxt()), int(nxt())
            mi = tuple(int(nxt()) for _ in range(n))
            return ('app', f, mi, tuple(go() for _ in range(n)))
        return ('un', t, go())
    import sys
    old = sys.getrecursionlimit()
    sys.setrecursionlimit(100000)
    try:
        r = go()
    finally:
        sys.setrecursionlimit(old)
    assert pos[0] == len(ts), 'trailing tokens'
    return r


def size(e):
    n, stack = 0, [e]
    while stack:
        e = stack.pop()
        n += 1
        if e[0] == 'app':
            stack += list(e[3])
        else:
            stack += [a for a in e[1:] if isinstance(a, tuple)]
    return n


def vars_of(e, acc=None):
    acc = set() if acc is None else acc
    if e[0] == 'var':
        acc.add(e[1])
    elif e[0] == 'net':
        for a in e[5]:
            vars_of(a, acc)
    else:
        for a in e[1:]:
            if isinstance(a, tuple) and a and isinstance(a[0], str):
                vars_of(a, acc)
    return acc


def poly_degree(e, x):
    """degree in x of a polynomial tree (None outside the polynomial fragment) — mirrors `polyDeg`"""
    op = e[0]
    if op == 'var':
        return 1 if e[1] == x else 0
    if op in ('nat', 'rat', 'pi'):
        return 0
    if op in ('add', 'mul'):
        a, b = poly_degree(e[1], x), poly_degree(e[2], x)
        if a is None or b is None:
            return None
        return max(a, b) if op == 'add' else a + b
    if op == 'neg':
        return poly_degree(e[1], x)
    if op == 'pow':
        a = poly_degree(e[1], x)
        return None if a is None else a * e[2]
    return None if x in vars_of(e) else 0


# ---- generator-side estimate of the model's result (size / magnitude only; never used for a verdict) ---------

def py_model(u, diffs, limit):
    from ..ex import D, has_var
    for x, k in diffs:
        if not has_var(x, u):
            u = ('nat', 0)
            continue
        u = D(x, u)
        for _ in range(max(k - 1, 0)):
            if size(u) > limit:
                return None
            if not has_var(x, u):
                u = ('nat', 0)
                break
            u = D(x, u)
        if size(u) > limit:
            return None
    return u


def abs_bound(e, m):
    """upper bound of every intermediate |value| when all |coordinates| <= m (integer polynomial trees)"""
    op = e[0]
    if op == 'var':
        return m
    if op == 'nat':
        return e[1]
    if op == 'add':
        return abs_bound(e[1], m) + abs_bound(e[2], m)
    if op == 'mul':
        return abs_bound(e[1], m) * abs_bound(e[2], m)
    if op == 'neg':
        return abs_bound(e[1], m)
    if op == 'pow':
        return abs_bound(e[1], m) ** e[2]
    raise ValueError(e)


# ---- typed random programs ----------------------------------------------------------------------

def gen_poly(rng, depth, used):
    if depth <= 0 or rng.random() < 0.22:
        if rng.random() < 0.7:
            return ('var', rng.choice(used))
        return const(rng.randint(-3, 3))
    r = rng.random()
    if r < 0.30:
        return ('add', gen_poly(rng, depth - 1, used), gen_poly(rng, depth - 1, used))
    if r < 0.42:
        return ('add', gen_poly(rng, depth - 1, used), ('neg', gen_poly(rng, depth - 1, used)))
    if r < 0.75:
        return ('mul', gen_poly(rng, depth - 1, used), gen_poly(rng, depth - 1, used))
    if r < 0.80:
        return ('neg', gen_poly(rng, depth - 1, used))
    return ('pow', gen_poly(rng, depth - 1, used), rng.choice([0, 1, 2, 2, 2, 3, 3, 4]))


def gen_net(rng, used, leaf):
    m = rng.randint(1, min(3, max(1, len(used))))
    args = tuple(('var', v) for v in rng.sample(used, m)) if rng.random() < 0.8 else \
        tuple(leaf() for _ in range(m))
    H = rng.randint(1, 4)
    dy = lambda: (rng.randint(-12, 12), 8)
    W1 = tuple(tuple(dy() for _ in range(m)) for _ in range(H))
    return ('net', W1, tuple(dy() for _ in range(H)), tuple(dy() for _ in range(H)), dy(), args)


def gen_trans(rng, depth, used, net_p):
    if depth <= 0 or rng.random() < 0.15:
        r = rng.random()
        if r < 0.65:
            return ('var', rng.choice(used))
        if r < 0.85:
            return const(rng.randint(-3, 3))
        return const(Fraction(rng.randint(-9, 9), 4))
    if rng.random() < net_p:
        return gen_net(rng, used, lambda: gen_trans(rng, min(depth - 1, 1), used, 0.0))
    r = rng.random()
    sub = lambda: gen_trans(rng, depth - 1, used, net_p)
    if r < 0.22:
        return ('add', sub(), sub())
    if r < 0.30:
        return ('add', sub(), ('neg', sub()))
    if r < 0.55:
        return ('mul', sub(), sub())
    if r < 0.60:
        return ('neg', sub())
    if r < 0.68:
        return ('pow', sub(), rng.choice([2, 2, 3, 1, 0]))
    return ('un', rng.choice(UNS), sub())


def gen_diffs(rng, ncols, used):
    unused = [c for c in range(ncols) if c not in used]
    pick = lambda: rng.choice(unused) if unused and rng.random() < 0.12 else rng.choice(used if rng.random() < 0.95 else list(range(ncols)))
    r = rng.random()
    if r < 0.5:
        return [(pick(), rng.randint(1, 4))]
    if r < 0.85:
        a, b = rng.choice([(1, 1), (1, 1), (2, 1), (1, 2), (2, 2), (3, 1), (1, 3)])
        return [(pick(), a), (pick(), b)]
    return [(pick(), 1), (pick(), 1), (pick(), rng.choice([1, 2]))]


def float_bits(v):
    return struct.unpack('<Q', struct.pack('<d', float(v)))[0]


def bits_float(b):
    return struct.unpack('<d', struct.pack('<Q', int(b)))[0]


def gen_program(rng, idx):
    """one accepted program: dict(kind, ncols, src, diffs, pts, exact)"""
    while True:
        kind = rng.choices(['poly', 'trans', 'net', 'mixed'], [30, 35, 12, 23])[0]
        ncols = rng.randint(1, 4)
        nused = rng.randint(1, ncols) if rng.random() < 0.6 else ncols
        used = sorted(rng.sample(range(ncols), nused))
        depth = rng.randint(1, 6)
        if kind == 'poly':
            src = gen_poly(rng, min(depth, 5), used)
        elif kind == 'trans':
            src = gen_trans(rng, depth, used, 0.0)
        elif kind == 'net':
            src = gen_net(rng, used, lambda: gen_trans(rng, 1, used, 0.0))
            if rng.random() < 0.5:
                src = ('mul', src, gen_trans(rng, min(depth, 2), used, 0.0))
        else:
            src = gen_trans(rng, depth, used, 0.08)
        if not vars_of(src):
            continue
        used = sorted(vars_of(src))
        diffs = gen_diffs(rng, ncols, used)
        ex = expand(src)
        if size(ex) > 400:
            continue
        res = py_model(ex, diffs, SIZE_LIMIT)
        if res is None:
            continue
        n = rng.choice([1, 1, 2, 3, 3, 4, 5, 8]) if rng.random() < 0.98 else 0
        exact = False
        if kind == 'poly':
            pts = [[rng.randint(-2, 2) for _ in range(ncols)] for _ in range(n)]
            exact = abs_bound(ex, 2) <= 2 ** 26 and abs_bound(res, 2) <= 2 ** 50
        else:
            pts = [[round(rng.uniform(-1.5, 1.5), 6) for _ in range(ncols)] for _ in range(n)]
        mag = forward_magnitude(src, ncols, pts)
        if mag is None or mag > (2.0 ** 26 if kind == 'poly' else MAG_LIMIT):
            continue
        return dict(id=idx, kind=kind, ncols=ncols, src=src, diffs=diffs, pts=pts, exact=exact, model_size_est=size(res))


# ---- the real side --------------------------------------------------------------------------------

def torch_eval(e, cols, n, track=None):
    import torch
    op = e[0]
    rec = lambda a: torch_eval(a, cols, n, track)
    if op == 'var':
        r = cols[e[1]]
    elif op == 'nat':
        r = torch.tensor(float(e[1]), dtype=torch.float64)
    elif op == 'rat':
        r = torch.tensor(e[1] / e[2], dtype=torch.float64)
    elif op == 'pi':
        r = torch.tensor(math.pi, dtype=torch.float64)
    elif op == 'add':
        r = rec(e[1]) + rec(e[2])
    elif op == 'mul':
        r = rec(e[1]) * rec(e[2])
    elif op == 'neg':
        r = -rec(e[1])
    elif op == 'pow':
        r = rec(e[1]) ** e[2]
    elif op == 'un':
        r = getattr(torch, e[1])(rec(e[2]))
    elif op == 'net':
        from neurodiffeq.networks import FCNN
        _, W1, b1, W2, b2, args = e
        net = FCNN(n_input_units=len(args), n_output_units=1, hidden_units=(len(W1),), actv=torch.nn.Tanh).double()
        lin1, lin2 = net.NN[0], net.NN[2]
        with torch.no_grad():
            lin1.weight.copy_(torch.tensor([[p / q for p, q in row] for row in W1], dtype=torch.float64))
            lin1.bias.copy_(torch.tensor([p / q for p, q in b1], dtype=torch.float64))
            lin2.weight.copy_(torch.tensor([[p / q for p, q in W2]], dtype=torch.float64))
            lin2.bias.copy_(torch.tensor([b2[0] / b2[1]], dtype=torch.float64))
        xs = [rec(a) for a in args]
        xs = [x if x.dim() == 2 else x.reshape(1, 1).expand(n, 1) for x in xs]
        r = net(torch.cat(xs, dim=1))
    else:
        raise ValueError(e)
    if track is not None and r.numel():
        track[0] = max(track[0], float(r.detach().abs().max()))
    return r


def make_cols(ncols, pts):
    import torch
    n = len(pts)
    return [torch.tensor([float(p[c]) for p in pts], dtype=torch.float64).reshape(n, 1).requires_grad_(True)
            for c in range(ncols)]


def forward_magnitude(src, ncols, pts):
    import torch
    tr = [0.0]
    try:
        with torch.no_grad():
            torch_eval(src, make_cols(ncols, pts), len(pts), tr)
    except Exception:
        return None
    return tr[0] if math.isfinite(tr[0]) else None


class GradSpy:
    """stands in for the name `autograd` inside neurodiffeq.neurodiffeq: records which grad call returned None"""

    def __init__(self, real):
        self.real = real
        self.calls = 0
        self.none_at = 0

    def reset(self):
        self.calls, self.none_at = 0, 0

    def grad(self, *a, **k):
        self.calls += 1
        r = self.real.grad(*a, **k)
        if r[0] is None and not self.none_at:
            self.none_at = self.calls
        return r


def real_run(prog, entry='diff'):
    """run the REAL neurodiffeq.diff (nested) on the program; returns observations"""
    import torch
    import neurodiffeq
    import neurodiffeq.neurodiffeq as nd
    n, ncols = len(prog['pts']), prog['ncols']
    cols = make_cols(ncols, prog['pts'])
    u = torch_eval(prog['src'], cols, n)
    spy = GradSpy(torch.autograd)
    old = nd.autograd
    nd.autograd = spy
    obs = dict(steps=[], calls=[], shapes=[], requires_grad=[], u_shape=list(u.shape))
    try:
        cur = u
        for x, k in prog['diffs']:
            spy.reset()
            cur = neurodiffeq.diff(cur, cols[x], order=k)
            obs['steps'].append(spy.none_at)
            obs['calls'].append(spy.calls)
            obs['shapes'].append(list(cur.shape))
            obs['requires_grad'].append(bool(cur.requires_grad))
    finally:
        nd.autograd = old
    obs['vals'] = cur.detach().reshape(-1).tolist()
    try:
        cur.sum().backward()
        obs['backward'] = 'ok'
        obs['grads'] = [(c.grad.reshape(-1).tolist() if c.grad is not None else [0.0] * n) for c in cols]
        obs['grad_none'] = [c.grad is None for c in cols]
    except Exception as e:  # the 'differentiably' clause, observed at run time
        obs['backward'] = f'{type(e).__name__}: {e}'
        obs['grads'] = None
    return obs


# ---- independent evaluation of the property (sympy, 40 digits) ----------------------------------------

def sympy_truth(prog, with_grads):
    import sympy
    import mpmath
    X = sympy.symbols(f'x0:{prog["ncols"]}', real=True)

    def conv(e):
        op = e[0]
        if op == 'var':
            return X[e[1]]
        if op == 'nat':
            return sympy.Integer(e[1])
        if op == 'rat':
            return sympy.Rational(e[1], e[2])
        if op == 'pi':
            return sympy.pi
        if op == 'add':
            return conv(e[1]) + conv(e[2])
        if op == 'mul':
            return conv(e[1]) * conv(e[2])
        if op == 'neg':
            return -conv(e[1])
        if op == 'pow':
            return conv(e[1]) ** e[2]
        if op == 'un':
            return getattr(sympy, e[1])(conv(e[2]))
        raise ValueError(e)
    f = conv(expand(prog['src']))
    for x, k in prog['diffs']:
        f = sympy.diff(f, X[x], k)
    targets = [f] + ([sympy.diff(f, X[c]) for c in range(prog['ncols'])] if with_grads else [])
    out = []
    if prog['kind'] == 'poly':
        for t in targets:
            out.append([t.subs({X[c]: sympy.Rational(str(p[c])) for c in range(prog['ncols'])}) for p in prog['pts']])
        return [[(int(v) if v == int(v) else float(v)) for v in col] for col in out]
    old = mpmath.mp.dps
    mpmath.mp.dps = 40
    try:
        for t in targets:
            fn = sympy.lambdify(X, t, modules='mpmath')
            out.append([float(fn(*[mpmath.mpf(repr(float(v))) for v in p])) for p in prog['pts']])
    finally:
        mpmath.mp.dps = old
    return out


def close(a, b, exact=False):
    if exact:
        return a == b
    if not (math.isfinite(a) and math.isfinite(b)):
        return False
    return abs(a - b) <= TOL * max(1.0, abs(a), abs(b))


def relerr(a, b):
    if not (math.isfinite(a) and math.isfinite(b)):
        return float('inf')
    return abs(a - b) / max(1.0, abs(a), abs(b))


def property_failures(prog, obs, truth, with_grads):
    """the property evaluated on real observations only (no Lean model involved)"""
    bad = []
    n = len(prog['pts'])
    ex = expand(prog['src'])
    # row-by-row k-th partial derivative
    for i, (a, b) in enumerate(zip(obs['vals'], truth[0])):
        if not close(a, float(b), prog['exact']):
            bad.append(f'row {i}: diff returned {a!r}, the partial derivative is {b!r}')
            break
    if len(obs['vals']) != n:
        bad.append(f'result has {len(obs["vals"])} entries for {n} samples')
    # zero clauses: identically zero (exactly) when u does not depend on one of the differentiation columns; above
    # the polynomial degree the sympy value is 0 and integer polynomials are compared exactly above
    indep = [x for x, _ in prog['diffs'] if x not in vars_of(ex)]
    if indep and any(v != 0.0 for v in obs['vals']):
        bad.append(f'u does not depend on column(s) {indep} but the result is not identically zero: {obs["vals"][:3]}')
    x0, k0 = prog['diffs'][0]
    d0 = poly_degree(ex, x0)
    if d0 is not None and k0 > d0 and prog['exact'] and any(v != 0.0 for v in obs['vals']):
        bad.append(f'order {k0} exceeds the degree {d0} in column {x0} but the result is not zero: {obs["vals"][:3]}')
    for j, s in enumerate(obs['shapes']):
        if s != [n, 1]:
            bad.append(f'call {j}: result shape {s} != {[n, 1]}')
    # differentiably (runtime observations; partial)
    if not all(obs['requires_grad']):
        bad.append(f'a result does not require grad: {obs["requires_grad"]}')
    if obs['backward'] != 'ok':
        bad.append(f'backward through the result failed: {obs["backward"]}')
    elif with_grads:
        for c in range(prog['ncols']):
            for i, (a, b) in enumerate(zip(obs['grads'][c], truth[1 + c])):
                if not close(a, float(b), prog['exact']):
                    bad.append(f'row {i}: back-propagated d(result)/d(col {c}) = {a!r}, true value {b!r}')
                    break
    return bad


# ---- symbolic traces of the real loop ------------------------------------------------------------------

def trace_cases():
    """(name, builder(cols…) -> u, ncols, diffs, entry) — u built from SymFn symbols or closed-form ops"""
    from ..sym import SymFn
    cs = []
    for k in range(1, 7):
        cs.append((f'f(x) d/dx^{k}', lambda x: SymFn('f')(x), 1, [(0, k)], 'unsafe_diff'))
        cs.append((f'f(x,y) d/dx^{k}', lambda x, y: SymFn('f')(x, y), 2, [(0, k)], 'diff'))
        cs.append((f'f(x,y) d/dy^{k}', lambda x, y: SymFn('f')(x, y), 2, [(1, k)], 'unsafe_diff'))
    cs.append(('f(x,y) d/dx^2 d/dy', lambda x, y: SymFn('f')(x, y), 2, [(0, 2), (1, 1)], 'diff'))
    cs.append(('f(x,y) d/dy d/dx d/dy', lambda x, y: SymFn('f')(x, y), 2, [(1, 1), (0, 1), (1, 1)], 'diff'))
    cs.append(('f(y) d/dx (unused)', lambda x, y: SymFn('f')(y), 2, [(0, 1)], 'diff'))
    cs.append(('f(y) d/dx^3 (unused)', lambda x, y: SymFn('f')(y), 2, [(0, 3)], 'unsafe_diff'))
    cs.append(('f(y) d/dx d/dy (zeros then unused)', lambda x, y: SymFn('f')(y), 2, [(0, 1), (1, 2)], 'diff'))
    cs.append(('order 0', lambda x, y: SymFn('f')(x, y), 2, [(0, 0)], 'unsafe_diff'))
    cs.append(('order -2', lambda x, y: SymFn('f')(x, y), 2, [(1, -2)], 'diff'))
    cs.append(('x*f(x,y)*sin(y) d/dx^3', lambda x, y: x * SymFn('f')(x, y) * y.sin(), 2, [(0, 3)], 'diff'))
    cs.append(('tanh(x*y)+exp(x) d/dx^2 d/dy', lambda x, y: (x * y).tanh() + x.exp(), 2, [(0, 2), (1, 1)], 'diff'))
    cs.append(('x**3*y d/dx^2', lambda x, y: x ** 3 * y, 2, [(0, 2)], 'unsafe_diff'))
    return cs


def run_traces():
    """trace the real code on symbolic tensors; returns [(name, diffs, u tree, traced result tree)]"""
    import neurodiffeq
    from neurodiffeq.neurodiffeq import unsafe_diff
    from ..sym import var
    from ..ex import Ctx, to_tree, resolve
    out = []
    for name, build, ncols, diffs, entry in trace_cases():
        ctx = Ctx()
        cols = [var(f'x{c}') for c in range(ncols)]
        for c in range(ncols):
            ctx.var(f'x{c}')
        u = build(*cols)
        utree = resolve(to_tree(u.cols[0], ctx))
        cur = u
        fn = unsafe_diff if entry == 'unsafe_diff' else neurodiffeq.diff
        for x, k in diffs:
            cur = fn(cur, cols[x], order=k)
        out.append((name, diffs, utree, resolve(to_tree(cur.cols[0], ctx))))
    return out


# ---- shape guards ------------------------------------------------------------------------------------

def all_shapes():
    s = [()]
    for r in (1, 2, 3):
        s += list(itertools.product(range(4), repeat=r))
    return s


def real_shape_outcome(su, st, entry):
    import torch
    import neurodiffeq
    from neurodiffeq.neurodiffeq import safe_diff
    t = torch.ones(st, dtype=torch.float64).requires_grad_(True)
    u = t * t if su == st else t.sum() + torch.zeros(su, dtype=torch.float64)
    try:
        if entry == 'safe_diff':
            r = safe_diff(u, t)
        elif entry == 'diff_check':
            r = neurodiffeq.diff(u, t, shape_check=True)
        elif entry == 'diff_default':
            r = neurodiffeq.diff(u, t)
        else:
            r = neurodiffeq.diff(u, t, shape_check=False)
    except ValueError as e:
        msg = str(e)
        if msg.startswith('Input shapes must both be (n_samples, 1)'):
            return 'raised notColumn'
        if msg.startswith('Input shapes must be the same shape'):
            return 'raised mismatch'
        return 'other ValueError'
    except Exception as e:
        return f'other {type(e).__name__}'
    if tuple(r.shape) != tuple(st):
        return f'returned shape {tuple(r.shape)}'
    return 'returned'


def shape_spec(su, st, check):
    """the property's guard clause, stated directly"""
    if not check:
        return 'returned'
    if len(su) == 2 and len(st) == 2 and su[1] == 1 and st[1] == 1 and su == st:
        return 'returned'
    return 'raised'


def fmt_shape(s):
    return ','.join(str(d) for d in s) if s else '-'


# ---- the check -------------------------------------------------------------------------------------------

def prog_block(prog, with_grads):
    lines = [f'eval {1 if with_grads else 0}', f'cols {prog["ncols"]}',
             'prog ' + ' '.join(toks(expand(prog['src']))),
             'diffs ' + ' '.join(f'{x} {k}' for x, k in prog['diffs'])]
    for p in prog['pts']:
        lines.append('pt ' + ' '.join(str(float_bits(v)) for v in p))
    lines.append('---')
    return '\n'.join(lines)


def check(tier, seed):
    rep = Report(PID, tier, seed)
    ok, hits = kernel_phase(rep, 'NdeVerif.Proofs.C03', 'NdeVerif.C03', THEOREMS)
    if hits:
        print('forbidden tokens:', hits)
        rep.finish()
        return 2
    broken = [] if ok else [dict(kind='proof', failed=rep.failed)]
    failing = []
    rng = random.Random(seed)
    t0 = time.time()

    # ---- 1. programs -----------------------------------------------------------------------------
    nprog = 200 if tier == 'quick' else 5000
    progs = [gen_program(rng, i) for i in range(nprog)]
    # fixed corner programs (order 0 / negative order, u = t itself, batch size 0)
    corner = [
        dict(kind='poly', ncols=2, src=('pow', ('var', 0), 3), diffs=[(0, 0)], pts=[[2, 1], [-1, 0]], exact=True),
        dict(kind='poly', ncols=2, src=('pow', ('var', 0), 3), diffs=[(0, -1)], pts=[[2, 1], [-1, 0]], exact=True),
        dict(kind='poly', ncols=1, src=('mul', ('var', 0), ('nat', 1)), diffs=[(0, 1)], pts=[[2], [0]], exact=True),
        dict(kind='poly', ncols=1, src=('mul', ('var', 0), ('nat', 1)), diffs=[(0, 2)], pts=[[2], [0]], exact=True),
        dict(kind='poly', ncols=2, src=('mul', ('var', 0), ('var', 1)), diffs=[(0, 1), (1, 1), (0, 1)], pts=[[2, 1]], exact=True),
        dict(kind='trans', ncols=2, src=('un', 'sin', ('var', 1)), diffs=[(0, 4)], pts=[], exact=False),
        dict(kind='trans', ncols=3, src=('mul', ('un', 'exp', ('var', 2)), ('var', 0)), diffs=[(1, 2), (0, 1)],
             pts=[[0.5, 0.25, -1.0]] * 3, exact=False),
    ]
    for i, c in enumerate(corner):
        c['id'] = nprog + i
        c['model_size_est'] = 1
    progs += corner
    t_gen = time.time() - t0

    reals, blocks = [], []
    t1 = time.time()
    for p in progs:
        p['with_grads'] = p['model_size_est'] <= GRAD_SIZE_LIMIT
        try:
            obs = real_run(p)
        except Exception as e:
            failing.append(dict(program=p, violated=[f'real diff raised {type(e).__name__}: {e}']))
            continue
        reals.append((p, obs))
        blocks.append(prog_block(p, p['with_grads']))
    t_real = time.time() - t1

    # ---- 2. traces of the real loop ------------------------------------------------------------------
    traces = []
    try:
        traces = run_traces()
    except Exception as e:
        broken.append(dict(kind='correspondence', stream='symbolic trace of unsafe_diff', error=f'{type(e).__name__}: {e}'))
    tblocks = []
    for name, diffs, utree, traced in traces:
        tblocks.append('\n'.join(['sym', 'prog ' + ' '.join(toks(utree)),
                                  'diffs ' + ' '.join(f'{x} {k}' for x, k in diffs), '---']))
    # closed-form traces are also compared by value (the tracer's reachability is coarser than the model's hasVar)
    tpts = [[0.37, -0.81], [1.2, 0.45]]
    teval = []
    for name, diffs, utree, traced in traces:
        if 'app' in toks(utree):
            continue
        for tree, ds in ((traced, []), (utree, diffs)):
            teval.append((name, '\n'.join(['eval 0', 'cols 2', 'prog ' + ' '.join(toks(tree)),
                                           'diffs ' + ' '.join(f'{x} {k}' for x, k in ds)] +
                                          ['pt ' + ' '.join(str(float_bits(v)) for v in p) for p in tpts] + ['---'])))

    # ---- 3. shape guards ---------------------------------------------------------------------------
    shapes = all_shapes()
    pairs = list(itertools.product(shapes, shapes))
    entries = [('safe_diff', 1), ('diff_check', 1), ('diff_default', 1), ('diff_nocheck', 0)]
    sreal, slines = [], []
    t2 = time.time()
    for su, st in pairs:
        for entry, chk in entries:
            sreal.append((su, st, entry, chk, real_shape_outcome(su, st, entry)))
            slines.append(f'{chk} {fmt_shape(su)} {fmt_shape(st)}')
    t_shapes = time.time() - t2

    # ---- run the model --------------------------------------------------------------------------------
    text = '\n'.join(blocks + tblocks + [b for _, b in teval] + ['shapes'] + slines + ['---']) + '\n'
    try:
        lines, dt = run_driver('C03', text, timeout=3000)
    except Exception as e:
        print('driver failure:', e)
        rep.finish()
        return 2
    mb = split_blocks(lines)
    want_blocks = len(blocks) + len(tblocks) + len(teval) + 1
    if len(mb) != want_blocks:
        print(f'driver returned {len(mb)} blocks, expected {want_blocks}')
        rep.finish()
        return 2
    m_prog, m_tr = mb[:len(blocks)], mb[len(blocks):len(blocks) + len(tblocks)]
    m_te, m_sh = mb[len(blocks) + len(tblocks):-1], mb[-1]

    # ---- compare: programs ------------------------------------------------------------------------------
    mism = []
    hist = dict(kind={}, ncols={}, rows={}, orders={}, nestings={}, depth_nodes_max=0, model_result_nodes_max=0,
                first_grad_none_real=0, loop_none_real=0, first_grad_none_model=0, loop_none_model=0,
                none_exit_same_step=0, exact_compared=0, with_backward_grads=0, independent_case=0,
                above_degree_case=0, unused_columns_present=0)
    worst_model, worst_truth, evals = 0.0, 0.0, 0
    t3 = time.time()
    t_sym = 0.0
    validated = 0
    nontrivial = set()
    for (p, obs), blk in zip(reals, m_prog):
        ex = expand(p['src'])
        hist['kind'][p['kind']] = hist['kind'].get(p['kind'], 0) + 1
        hist['ncols'][p['ncols']] = hist['ncols'].get(p['ncols'], 0) + 1
        hist['rows'][len(p['pts'])] = hist['rows'].get(len(p['pts']), 0) + 1
        key = '/'.join(str(k) for _, k in p['diffs'])
        hist['orders'][key] = hist['orders'].get(key, 0) + 1
        nv = len({x for x, _ in p['diffs']})
        nest = 'single' if len(p['diffs']) == 1 else ('same-variable' if nv == 1 else 'mixed')
        hist['nestings'][nest] = hist['nestings'].get(nest, 0) + 1
        hist['depth_nodes_max'] = max(hist['depth_nodes_max'], size(ex))
        hist['unused_columns_present'] += len(vars_of(ex)) < p['ncols']
        this = []
        if not blk or not blk[0].startswith('info'):
            mism.append(dict(program=p, error='model rejected the block', model=blk[:2]))
            continue
        info = blk[0].split()
        msize, msteps = int(info[1]), [int(s) for s in info[2:]]
        hist['model_result_nodes_max'] = max(hist['model_result_nodes_max'], msize)
        rows = [l.split()[1:] for l in blk[1:]]
        if len(rows) != len(obs['vals']):
            this.append(f'model has {len(rows)} rows, real result {len(obs["vals"])} entries')
        for i, (r, a) in enumerate(zip(rows, obs['vals'])):
            mv = bits_float(r[0])
            evals += 1
            worst_model = max(worst_model, relerr(a, mv))
            if not close(a, mv, p['exact']):
                this.append(f'row {i}: real {a!r} vs model {mv!r}')
                break
        if p['with_grads'] and obs['grads'] is not None:
            hist['with_backward_grads'] += 1
            for i, r in enumerate(rows):
                for c in range(p['ncols']):
                    mv = bits_float(r[1 + c])
                    a = obs['grads'][c][i]
                    evals += 1
                    worst_model = max(worst_model, relerr(a, mv))
                    if not close(a, mv, p['exact']):
                        this.append(f'row {i}: real back-propagated grad col {c} {a!r} vs model D {mv!r}')
                        break
        # which gradient call returned None (real reachability vs syntactic occurrence): statistics + sanity
        for rs, ms, (x, k) in zip(obs['steps'], msteps, p['diffs']):
            hist['first_grad_none_real'] += rs == 1
            hist['loop_none_real'] += rs > 1
            hist['first_grad_none_model'] += ms == 1
            hist['loop_none_model'] += ms > 1
            hist['none_exit_same_step'] += (rs == ms and rs > 0)
        if (obs['steps'][0] == 1) != (msteps[0] == 1):
            this.append(f'first gradient None: real {obs["steps"][0] == 1}, model {msteps[0] == 1}')
        hist['exact_compared'] += bool(p['exact'])
        if this:
            mism.append(dict(program=p, differences=this[:3]))
        else:
            validated += 1
        # the property itself (independent of the model)
        ts = time.time()
        try:
            truth = sympy_truth(p, p['with_grads']) if all(k >= 1 for _, k in p['diffs']) else None
        except Exception as e:
            rep.notes.append(f'sympy could not evaluate program {p["id"]}: {type(e).__name__}: {e}')
            truth = None
        t_sym += time.time() - ts
        if not all(k >= 1 for _, k in p['diffs']):
            truth = None     # orders < 1 are outside the property's quantifier: correspondence only
        if truth is not None:
            for a, b in zip(obs['vals'], truth[0]):
                worst_truth = max(worst_truth, relerr(a, float(b)))
            bad = property_failures(p, obs, truth, p['with_grads'])
            if bad:
                failing.append(dict(program=p, violated=bad[:4], real=dict(vals=obs['vals'][:4], steps=obs['steps'])))
        x0 = p['diffs'][0][0]
        hist['independent_case'] += x0 not in vars_of(ex)
        d0 = poly_degree(ex, x0)
        hist['above_degree_case'] += (d0 is not None and x0 in vars_of(ex) and p['diffs'][0][1] > d0)
        if size(ex) >= 5:
            nontrivial.add((repr(p['src']), repr(p['diffs'])))
    t_cmp = time.time() - t3
    if mism:
        broken.append(dict(kind='correspondence', stream='real autograd (neurodiffeq.diff) vs evalF(diffLoop)',
                           mismatches=mism[:3], count=len(mism)))
        # while the proofs check, the model is the true derivative: a disagreement of the real code with it is a failing input
        for m in (mism[:3] if ok else []):
            if 'differences' in m and not any(f['program']['id'] == m['program']['id'] for f in failing):
                failing.append(dict(program=m['program'], violated=m['differences']))

    # ---- compare: traces -----------------------------------------------------------------------------------
    tmis = []
    t_ok = 0
    for (name, diffs, utree, traced), blk in zip(traces, m_tr):
        if not blk or not blk[0].startswith('tree'):
            tmis.append(dict(trace=name, error='model rejected the block'))
            continue
        mtree = parse_toks(blk[0].split()[1:])
        if 'app' in toks(utree):
            if mtree != traced:
                tmis.append(dict(trace=name, traced=' '.join(toks(traced))[:300], model=' '.join(toks(mtree))[:300]))
            else:
                t_ok += 1
    for j in range(0, len(teval), 2):
        name = teval[j][0]
        a = [bits_float(l.split()[1]) for l in m_te[j][1:]]
        b = [bits_float(l.split()[1]) for l in m_te[j + 1][1:]]
        if len(a) != len(tpts) or len(b) != len(tpts) or not all(close(x, y) for x, y in zip(a, b)):
            tmis.append(dict(trace=name, traced_values=a, model_values=b))
        else:
            t_ok += 1
    if tmis:
        broken.append(dict(kind='correspondence', stream='symbolic trace of the real unsafe_diff loop vs diffLoop',
                           mismatches=tmis[:3], count=len(tmis)))

    # ---- compare: shapes -------------------------------------------------------------------------------------
    smis = []
    s_hist = dict(returned=0, notColumn=0, mismatch=0)
    if len(m_sh) != len(sreal):
        smis.append(dict(error='driver returned a different number of shape lines', got=len(m_sh), want=len(sreal)))
    for (su, st, entry, chk, real), model in zip(sreal, m_sh):
        s_hist[real.split()[-1] if real.split()[-1] in s_hist else 'returned'] += 1
        if real != model:
            smis.append(dict(u_shape=list(su), t_shape=list(st), entry=entry, real=real, model=model))
        spec = shape_spec(su, st, chk)
        if real.split()[0] != spec:
            failing.append(dict(shape_pair=dict(u=list(su), t=list(st), entry=entry), violated=[f'guard clause: expected {spec}, real code: {real}']))
    if smis:
        broken.append(dict(kind='correspondence', stream='safe_diff / diff guards vs Shapes model', mismatches=smis[:3], count=len(smis)))

    rep.coverage.update(
        programs=len(progs), traces_validated_against_impl=validated, evaluations=evals,
        distinct_nontrivial=len(nontrivial),
        rule='a program = (typed random expression over 1..4 columns incl. real FCNN tanh networks written out as Ex, nested '
             'diff calls [(column, order)…], sample rows); non-trivial = expression of at least 5 nodes; real neurodiffeq.diff '
             'on float64 (n,1) tensors vs evalF of the Lean model at the same points (rel. tol 1e-8; integer polynomials exactly), '
             'back-propagated gradients of the result vs one more model derivative; every program also checked against a '
             'sympy derivative evaluated in 40-digit arithmetic',
        input_distribution=hist, worst_rel_err_real_vs_model=worst_model, worst_rel_err_real_vs_sympy=worst_truth,
        loop_traces=len(traces), loop_traces_agreeing=t_ok, loop_trace_orders='1..6 (+ order 0, -2, nested, unused column)',
        shape_pairs=len(pairs), shape_calls=len(sreal), shape_outcomes=s_hist,
        seconds=dict(generate=round(t_gen, 1), real=round(t_real, 1), shapes=round(t_shapes, 1), driver=round(dt, 1),
                     sympy=round(t_sym, 1), compare=round(t_cmp, 1)))
    rep.samples = [dict(program=' '.join(toks(expand(p['src'])))[:200], diffs=p['diffs'], rows=len(p['pts']),
                        real=obs['vals'][:2], none_steps_real=obs['steps']) for p, obs in reals[:6]]
    rep.assumptions = [
        'floating point: real autograd and the model agree up to rel. 1e-8 (exactly on integer polynomials); rounding itself is not modelled',
        'the "differentiably" clause is observed at run time only (requires_grad, successful backward, back-propagated '
        'gradients equal one more derivative) — partial: no theorem about torch\'s graph bookkeeping',
        'torch.autograd.grad(allow_unused=True) returns None by graph reachability, which is finer than syntactic occurrence; '
        'diffLoop_sound_of_admissible shows the result is the same for every semantically correct oracle',
        'programs are kept well-conditioned (|intermediate values of u| <= 30 at the sample points)',
    ]
    sp_bad = special_checks()
    rep.coverage['special_point_batches_failed'] = len(sp_bad)
    failing += sp_bad
    for f in failing[:3]:
        rep.violation(dict(kind='failing-input', input=f, broken=broken))
    if broken and not failing:
        rep.violation(dict(kind='unproved', broken=broken), found_input=False, name='unproved')
    return rep.finish(checker_cmd='cd lean && lake build NdeVerif.Proofs.C03 && lake env lean --run drivers/C03.lean < scripts')


def special_checks():
    """batches in which EVERY row sits on a stationary slice (a lower-order derivative vanishes in all rows), and derivatives that
    are constants: the random programs never produce them, and the value at a row must not depend on the other rows"""
    import torch
    from neurodiffeq import diff
    bad = []
    col = lambda *v: torch.tensor([[float(a)] for a in v], requires_grad=True)
    cases = [
        ('x*cos(t), every row at t = 0, order 2', lambda x, t: x * torch.cos(t), (0.5, -1.0, 2.0), (0.0, 0.0, 0.0), 2, lambda x, t: -x),
        ('(t-1)^2, every row at t = 1, order 2', lambda x, t: (t - 1) ** 2 + 0 * x, (0.5, -1.0, 2.0), (1.0, 1.0, 1.0), 2, lambda x, t: 0 * x + 2),
        ('t^3 + x, every row at t = 0, order 3', lambda x, t: t ** 3 + x, (0.5, -1.0, 2.0), (0.0, 0.0, 0.0), 3, lambda x, t: 0 * x + 6),
        ('sin(t)^2 * x, every row at t = 0, order 2', lambda x, t: torch.sin(t) ** 2 * x, (0.5, -1.0, 2.0), (0.0, 0.0, 0.0), 2, lambda x, t: 2 * x),
        ('cos(t), every row at t = 0, order 4', lambda x, t: torch.cos(t) + 0 * x, (0.5, -1.0, 2.0), (0.0, 0.0, 0.0), 4, lambda x, t: 0 * x + 1),
    ]
    for name, f, xs, ts, k, want in cases:
        try:
            x, t = col(*xs), col(*ts)
            got = diff(f(x, t), t, order=k)
            w = want(x.detach(), t.detach())
            if got.shape != w.shape or not torch.allclose(got.detach(), w, rtol=0, atol=1e-12):
                bad.append(dict(case='every row on a stationary slice', expression=name, order=k, got=got.detach().reshape(-1).tolist(),
                                want=w.reshape(-1).tolist(), violated=['diff differs from the k-th partial derivative']))
        except Exception as e:
            bad.append(dict(case='every row on a stationary slice', expression=name, violated=[f'diff raised {type(e).__name__}: {e}']))
    # identically-zero results are zeros, also where the last surviving derivative is not finite (t*log(x) at x = 0, order 2 in t)
    for name, f, xs, ts, k in (('t*log(x) at x = 0, order 2 in t', lambda x, t: t * torch.log(x), (0.0, 1.0, 2.0), (0.3, 0.6, -0.9), 2),
                               ('t/x at x = 0, order 3 in t', lambda x, t: t / x, (0.0, 1.0, 0.0), (0.3, 0.6, -0.9), 3)):
        try:
            x, t = col(*xs), col(*ts)
            got = diff(f(x, t), t, order=k).detach().reshape(-1).tolist()
            if any(v != 0.0 for v in got):
                bad.append(dict(case='order above the degree in t, non-finite lower derivative', expression=name, got=got, want=[0.0] * 3,
                                violated=['diff is not identically zero']))
        except Exception as e:
            bad.append(dict(case='order above the degree in t', expression=name, violated=[f'{type(e).__name__}: {e}']))
    # the field IS the coordinate: d t / d t = 1
    try:
        t = col(0.3, 0.6, -0.9)
        got = diff(t, t).detach().reshape(-1).tolist()
        if got != [1.0, 1.0, 1.0]:
            bad.append(dict(case='diff(t, t)', got=got, want=[1.0, 1.0, 1.0], violated=['the derivative of a coordinate with respect to itself is not 1']))
    except Exception as e:
        bad.append(dict(case='diff(t, t)', violated=[f'{type(e).__name__}: {e}']))
    # a graph that has been freed by backward(): diff must raise or be right, never invent a value
    try:
        x, t = col(0.5, -1.0, 2.0), col(0.3, 0.6, -0.9)
        u = torch.sin(x * t)
        u.sum().backward()
        try:
            got = diff(u, t)
            want = (x * torch.cos(x * t)).detach()
            if not torch.allclose(got.detach(), want, rtol=0, atol=1e-12):
                bad.append(dict(case='diff on a graph already freed by backward()', got=got.detach().reshape(-1).tolist(), want=want.reshape(-1).tolist(),
                                violated=['returned a value that is not the derivative (instead of raising)']))
        except RuntimeError:
            pass
    except Exception as e:
        bad.append(dict(case='diff on a freed graph', violated=[f'{type(e).__name__}: {e}']))
    # a derivative that is a constant can itself be differentiated (zeros) and back-propagated
    for name, f, k in (('3t + sin(x)', lambda x, t: 3 * t + torch.sin(x), 1), ('t^2 + x/2', lambda x, t: t * t + x / 2, 2), ('t', lambda x, t: t, 1)):
        try:
            x, t = col(0.5, -1.0, 2.0), col(0.3, 0.6, -0.9)
            d = diff(f(x, t), t, order=k)
            for nm, v in (('x', x), ('t', t)):
                dd = diff(d, v)
                if float(dd.detach().abs().max()) != 0.0:
                    bad.append(dict(case='derivative of a constant derivative', expression=name, wrt=nm, got=dd.detach().reshape(-1).tolist(),
                                    violated=['not zero']))
            d.sum().backward()
        except Exception as e:
            bad.append(dict(case='a constant derivative cannot be differentiated / back-propagated', expression=name,
                            violated=[f'{type(e).__name__}: {e}']))
    # every call answers for the expression as it is NOW: a result the caller accumulated into in place, or an expression updated in
    # place, must not leak into later answers for the same (u, t) pair
    try:
        x, t = col(0.5, -1.0, 2.0), col(0.3, 0.6, -0.9)
        u = torch.sin(x * t) + t ** 3 * x
        want = dict(ut=x * torch.cos(x * t) + 3 * t ** 2 * x, utt=-x ** 2 * torch.sin(x * t) + 6 * t * x, uttt=-x ** 3 * torch.cos(x * t) + 6 * x,
                    uxx=-t ** 2 * torch.sin(x * t))
        close = lambda a, b: torch.allclose(a.detach(), b.detach(), rtol=1e-12, atol=1e-12)
        lap = diff(u, t, order=2)
        lap += diff(u, x, order=2)                 # the usual way of summing second derivatives
        flux = diff(u, t)
        flux *= -0.5
        obs = [('d2u/dt2 after an earlier result was accumulated into in place', diff(u, t, order=2), want['utt']),
               ('d3u/dt3 after an earlier second derivative was accumulated into', diff(u, t, order=3), want['uttt']),
               ('du/dt after an earlier result was scaled in place', diff(u, t), want['ut']),
               ('d2u/dx2', diff(u, x, order=2), want['uxx']),
               ('the accumulated sum itself', lap, want['utt'] + want['uxx'])]
        w = t ** 2 * x
        d1 = diff(w, t).detach().clone()
        w += torch.sin(t)                          # the expression is updated in place
        obs += [('dw/dt after w += sin(t)', diff(w, t), 2 * t * x + torch.cos(t)), ('d2w/dt2 after w += sin(t)', diff(w, t, order=2), 2 * x - torch.sin(t))]
        for nm, got, wnt in obs:
            if not close(got, wnt):
                bad.append(dict(case='in-place use of an earlier result / of the expression between two queries', derivative=nm,
                                got=got.detach().reshape(-1).tolist(), want=wnt.detach().reshape(-1).tolist(), violated=['differs from the derivative']))
    except Exception as e:
        bad.append(dict(case='in-place use of an earlier result between two queries', violated=[f'{type(e).__name__}: {e}']))
    # the unchecked entry point on operands of different shapes: "identically zero when u does not depend on t" - one zero per row of t
    try:
        from neurodiffeq.neurodiffeq import unsafe_diff
        t = col(0.3, 0.6, -0.9)
        x = col(0.5, -1.0, 2.0)
        offset = torch.tensor([[0.7]], requires_grad=True)          # a learnable quantity shared by all samples
        for nm, u in (('flat u of shape (n,) independent of t', (x * 2).reshape(-1)), ('(1, 1) parameter', offset * 3), ('(n, 2) block independent of t', torch.cat([x, x * x], 1))):
            for k in (1, 2):
                for call, fn in (('unsafe_diff', lambda: unsafe_diff(u, t, order=k)), ('diff(shape_check=False)', lambda: diff(u, t, order=k, shape_check=False))):
                    got = fn()
                    if tuple(got.shape) != tuple(t.shape) or float(got.detach().abs().max()) != 0.0:
                        bad.append(dict(case=f'{call} of an expression that does not depend on t', expression=nm, order=k, shape=list(got.shape),
                                        want_shape=list(t.shape), violated=['the zero derivative does not have one row per row of t']))
                    elif float((got + t).shape[0]) != 3 or (got + t).shape != t.shape:
                        bad.append(dict(case=f'{call} of an expression that does not depend on t', expression=nm, order=k, violated=['broadcasts against t']))
    except Exception as e:
        bad.append(dict(case='unchecked entry point on an expression that does not depend on t', violated=[f'{type(e).__name__}: {e}']))
    # mixed precision: coordinates of one precision, expression evaluated in the other (a float64 accuracy check of a float32 run, or
    # the reverse) - the derivative is the derivative, in the precision of the coordinate
    try:
        for dt_t, dt_u in ((torch.float32, torch.float64), (torch.float64, torch.float32)):
            t = torch.tensor([[0.5], [-1.25], [2.0]], dtype=dt_t, requires_grad=True)
            x = torch.tensor([[1.5], [0.25], [-0.75]], dtype=dt_t, requires_grad=True)
            u = (t.to(dt_u) ** 3) * x.to(dt_u) + torch.sin(x.to(dt_u))
            for nm, got, want in (('du/dt', diff(u, t), 3 * t ** 2 * x), ('d2u/dt2', diff(u, t, order=2), 6 * t * x), ('d2u/dtdx', diff(diff(u, t), x), 3 * t ** 2),
                                  ('du/dx', diff(u, x), t ** 3 + torch.cos(x))):
                if tuple(got.shape) != (3, 1) or not torch.allclose(got.detach().double(), want.detach().double(), rtol=1e-5, atol=1e-6):
                    bad.append(dict(case='coordinates and expression of different precision', coordinate_dtype=str(dt_t), expression_dtype=str(dt_u), derivative=nm,
                                    got=got.detach().reshape(-1).tolist(), want=want.detach().reshape(-1).tolist(), violated=['differs from the derivative']))
    except Exception as e:
        bad.append(dict(case='coordinates and expression of different precision', violated=[f'{type(e).__name__}: {e}']))
    # the shape-checked entry points reject ill-shaped operands at EVERY order (not only for first derivatives)
    try:
        from neurodiffeq.neurodiffeq import safe_diff
        tcol = col(0.3, 0.6, -0.9)
        shapes = {'(n,)': lambda: (tcol ** 2).reshape(-1), '(n, 2)': lambda: torch.cat([tcol, tcol ** 2], 1), '(1, 1)': lambda: (tcol[:1] * 2), '(n, 1, 1)': lambda: (tcol ** 2).reshape(3, 1, 1),
                  '(n, 0)': lambda: (tcol ** 2)[:, 1:1]}
        for sname, mk in shapes.items():
            for k in (1, 2, 3):
                for call, fn in (('safe_diff', lambda u_: safe_diff(u_, tcol, order=k)), ('diff', lambda u_: diff(u_, tcol, order=k)),
                                 ('diff(shape_check=True)', lambda u_: diff(u_, tcol, order=k, shape_check=True))):
                    try:
                        r_ = fn(mk())
                        bad.append(dict(case='shape-checked entry point on an ill-shaped dependent variable', entry_point=call, order=k, u_shape=sname, t_shape='(n, 1)',
                                        violated=['accepted (returned a tensor of shape %s) instead of rejecting' % (tuple(r_.shape),)]))
                    except ValueError:
                        pass
        # ... and accept well-shaped ones whatever their memory layout: a non-contiguous (n, 1) column of a wider tensor is a column
        xy = torch.tensor([[0.3, 1.0], [0.6, -2.0], [-0.9, 0.5]], requires_grad=True)
        tv = xy[:, 0:1]
        wide = torch.tensor([[0.3], [9.0], [0.6], [9.0], [-0.9], [9.0]], requires_grad=True)
        ts = wide[::2]
        for nm, tt_ in (('column view xy[:, 0:1]', tv), ('strided rows table[::2]', ts)):
            u_ = tt_ ** 3 + 2 * tt_
            for k, want in ((1, 3 * tt_ ** 2 + 2), (2, 6 * tt_), (3, torch.full_like(tt_, 6.0))):
                for call, fn in (('diff', lambda: diff(u_, tt_, order=k)), ('safe_diff', lambda: safe_diff(u_, tt_, order=k))):
                    got = fn()
                    if not torch.allclose(got.detach(), want.detach(), rtol=1e-12, atol=1e-12):
                        bad.append(dict(case='non-contiguous (n, 1) coordinate', coordinate=nm, entry_point=call, order=k, got=got.detach().reshape(-1).tolist(),
                                        want=want.detach().reshape(-1).tolist(), violated=['differs from the derivative']))
            g_ = torch.autograd.grad(diff(u_, tt_).sum(), xy if tt_ is tv else wide, allow_unused=True)[0]
            if g_ is None or float(g_.abs().max()) == 0.0:
                bad.append(dict(case='non-contiguous (n, 1) coordinate', coordinate=nm, violated=['the derivative cannot be back-propagated to the tensor the coordinate is a view of']))
        # d^k t / dt^k for k >= 2 is zero (order exceeds the polynomial degree), through every entry point
        for k in (2, 3):
            for call, fn in (('diff', lambda: diff(tcol, tcol, order=k)), ('safe_diff', lambda: safe_diff(tcol, tcol, order=k)), ('unsafe_diff', lambda: unsafe_diff(tcol, tcol, order=k))):
                got = fn()
                if tuple(got.shape) != (3, 1) or float(got.detach().abs().max()) != 0.0:
                    bad.append(dict(case='derivative of a coordinate with respect to itself', order=k, entry_point=call, got=got.detach().reshape(-1).tolist(), want=[0.0] * 3,
                                    violated=['not zero although the order exceeds the degree']))
    except Exception as e:
        bad.append(dict(case='shape guards at higher orders / non-contiguous coordinates', violated=[f'{type(e).__name__}: {e}']))
    # same values when diff is called inside torch.no_grad() on an expression that was built with grad enabled
    try:
        x, t = col(0.5, -1.0, 2.0), col(0.3, 0.6, -0.9)
        u = torch.sin(x * t) + t ** 3 * x
        ref = [diff(u, t), diff(u, t, order=2), diff(u, t, order=3), diff(diff(u, t), x), diff(diff(u, x, order=2), t)]
        with torch.no_grad():
            got = [diff(u, t), diff(u, t, order=2), diff(u, t, order=3), diff(diff(u, t), x), diff(diff(u, x, order=2), t)]
        for nm, a, b in zip(['d/dt', 'd2/dt2', 'd3/dt3', 'd2/dxdt', 'd3/dtdx2'], got, ref):
            if not torch.allclose(a.detach(), b.detach(), rtol=0, atol=1e-12):
                bad.append(dict(case='diff called inside torch.no_grad() on an expression built with grad enabled', derivative=nm,
                                got=a.detach().reshape(-1).tolist(), want=b.detach().reshape(-1).tolist(), violated=['differs from the derivative']))
    except Exception as e:
        bad.append(dict(case='diff called inside torch.no_grad()', violated=[f'{type(e).__name__}: {e}']))
    return bad


def replay(path):
    d = json.load(open(path))
    inp = d.get('input', {})
    if 'program' in inp:
        p = inp['program']
        p['src'] = as_tuple(p['src'])
        p['diffs'] = [tuple(x) for x in p['diffs']]
        wg = p.get('with_grads', False)
        obs = real_run(p)
        truth = sympy_truth(p, wg)
        bad = property_failures(p, obs, truth, wg)
        print('program', ' '.join(toks(expand(p['src']))), 'diffs', p['diffs'], 'pts', p['pts'])
        print('real', obs['vals'], 'truth', truth[0], '->', bad or 'property holds')
        return 1 if bad else 0
    if 'shape_pair' in inp:
        s = inp['shape_pair']
        chk = 0 if s['entry'] == 'diff_nocheck' else 1
        real = real_shape_outcome(tuple(s['u']), tuple(s['t']), s['entry'])
        spec = shape_spec(tuple(s['u']), tuple(s['t']), chk)
        print('shapes', s, 'real', real, 'expected', spec)
        return 0 if real.split()[0] == spec else 1
    print('replay file names no input:', d.get('broken'))
    return 1
