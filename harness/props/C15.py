"""C15 — epoch and metric bookkeeping across any sequence of fits. Engine B: model NdeVerif.Model.Solver,
theorems NdeVerif.Proofs.C15, correspondence in the scripted world (shared campaign with C04/C05)."""
from ..runner import Report, kernel_phase
from ..solverprop import Campaign
from ..solverworld import metric_formula

PID = 'C15'
THEOREMS = ['fitLoop_eq_trace_last', 'series_lengths', 'lenInv_init', 'lenInv_epoch', 'epoch_counts', 'phases_counts',
            'trace_local_epoch', 'trace_stops_after_stop', 'fit_clears_stop', 'valid_metric_is_batch_mean',
            'train_metric_is_batch_mean_plain', 'closure_keeps_last_evaluation', 'trainEpoch_series', 'validEpoch_series']


def evaluate(camp):
    bad = []
    for lines, kw, fits, theta0, run in camp.observations():
        n_valid = int(lines[0].split()[4])
        n_metrics = int(lines[0].split()[5])
        total_epochs = 0
        valid_epochs = 0
        fit_sizes = [int(l.split()[1]) for l in lines if l.startswith('fit')]
        for call, (f, max_epochs) in enumerate(zip(fits, fit_sizes)):
            ctx = dict(script=lines, kw=kw, fit_call=call)
            stop_at = None
            for j, (d, evs) in enumerate(zip(f['epochs'], f['events'])):
                total_epochs += 1
                valid_epochs += n_valid > 0
                c = dict(ctx, epoch=j + 1)
                if d['local'] != j + 1 or d['local'] > max_epochs or d['max'] != max_epochs:
                    bad.append(dict(c, violated='local epoch bookkeeping', local=d['local'], max=d['max'], max_epochs=max_epochs))
                if len(d['train']) != total_epochs:
                    bad.append(dict(c, violated='global epoch / train-loss length != number of training epochs run', got=len(d['train']), want=total_epochs))
                if len(d['valid']) != valid_epochs:
                    bad.append(dict(c, violated='validation-loss length != number of epochs with validation', got=len(d['valid']), want=valid_epochs))
                if any(len(m) != len(d['train']) for m in d['tm']) or any(len(m) != len(d['valid']) for m in d['vm']) \
                        or len(d['tm']) != n_metrics or len(d['vm']) != n_metrics:
                    bad.append(dict(c, violated='metric series length', tm=[len(m) for m in d['tm']], vm=[len(m) for m in d['vm']]))
                if sum(e.startswith('C') for e in evs) != 1 or not evs[-1].startswith('C'):
                    bad.append(dict(c, violated='callbacks did not run exactly once, after both phases', events=evs))
                # metric entries = mean over the batches of the metric value (last closure evaluation per batch)
                for phase, key, t in (('train', 'tm', '1'), ('valid', 'vm', '0')):
                    last = {}
                    for e in evs:
                        if e.startswith('L'):
                            lid, th, tr, idx = e[1:].split(':')
                            if tr == t:
                                last[int(idx)] = int(th)
                    if not last:
                        continue
                    for m in range(n_metrics):
                        want_sum = sum(metric_formula(m, th, t == '1', idx) for idx, th in last.items())
                        got = d[key][m][-1]
                        if got * len(last) != want_sum:
                            bad.append(dict(c, violated=f'{phase} metric m{m} is not the mean over the epoch\'s batches',
                                            got=got, batch_values_sum=want_sum, n_batches=len(last)))
                if stop_at is not None:
                    bad.append(dict(c, violated='an epoch ran after a stop request in the same fit() call', stop_requested_in_epoch=stop_at))
                if d['stop']:
                    stop_at = j + 1
            if stop_at is None and len(f['epochs']) != max_epochs:
                bad.append(dict(ctx, violated='fit() ran a different number of epochs than max_epochs without a stop', ran=len(f['epochs']), max_epochs=max_epochs))
            if f['trailing']:
                bad.append(dict(ctx, violated='events after the last callback of the call', events=f['trailing']))
        # the 'live' metric returns a view of the trained parameter: its entry is the mean over the batches of the value AT THE TIME
        # the metric function was called (= theta of the batch's last loss evaluation), not what the tensor holds later
        if run is not None:
            want_t, want_v = [], []
            for f in fits:
                for evs in f['events']:
                    for t, acc in (('1', want_t), ('0', want_v)):
                        last = {}
                        for e in evs:
                            if e.startswith('L') and e[1:].split(':')[2] == t:
                                last[int(e[1:].split(':')[3])] = int(e[1:].split(':')[1])
                        if last:
                            acc.append(sum(last.values()) / len(last))
            if run.live_obs:
                got_t, got_v = run.live_obs[-1][2]
                for nm, got, want in (('train', got_t, want_t), ('valid', got_v, want_v)):
                    if len(got) != len(want) or any(abs(a - b) > 1e-9 for a, b in zip(got, want)):
                        bad.append(dict(script=lines, kw=kw, violated=f'{nm} series of a metric returning a live tensor is not the mean over the batches of '
                                        'the values the function returned when it was called', got=got[:8], want=want[:8]))
                        break
    return bad


def direct_checks():
    """observations on a real Solver1D that the integer-valued scripted world cannot carry (every run): metric values that are not
    finite, batch counts below zero, the deprecated monitor= way of passing a callback"""
    import math
    import warnings
    import torch
    from neurodiffeq import diff
    from neurodiffeq.solvers import Solver1D
    from neurodiffeq.conditions import IVP
    from neurodiffeq.networks import FCNN
    from neurodiffeq.generators import Generator1D
    bad = []

    def make(**kw):
        torch.manual_seed(1)
        return Solver1D(lambda u, t: [diff(u, t) + u], [IVP(0., 1.)], t_min=0., t_max=1., nets=[FCNN(1, 1, hidden_units=(3,))],
                        train_generator=Generator1D(4, 0., 1.), valid_generator=Generator1D(4, 0., 1.), **kw)
    with warnings.catch_warnings():
        warnings.simplefilter('ignore')
        # (a) "a custom metric's entry being the mean over that epoch's batches of the metric function's value": also when a value is nan / inf
        for special, nm in ((float('nan'), 'nan'), (float('inf'), 'inf'), (-float('inf'), '-inf')):
            calls = []

            def metric(u, t, special=special, calls=calls):
                calls.append(1)
                k = len(calls) % 6            # 3 training + 3 validation batches per epoch
                return torch.tensor(special) if k == 2 else torch.tensor(float(k))
            s = make(n_batches_train=3, n_batches_valid=3, metrics={'m': metric})
            s.fit(2, tqdm_file=None)
            vals = s.metrics_history['train__m']
            want = sum([1.0, special, 3.0]) / 3
            same = lambda a, b: (math.isnan(a) and math.isnan(b)) or a == b
            if len(vals) != 2 or not all(same(float(v), want) for v in vals) or len(s.metrics_history['valid__m']) != 2 \
                    or any(float(v) != (4.0 + 5.0 + 0.0) / 3 for v in s.metrics_history['valid__m']):
                bad.append(dict(case=f'metric function returns {nm} on one of three batches', violated='the entry is not the mean over the batches of the '
                                'values the function returned', train_series=[float(v) for v in vals], want=want,
                                valid_series=[float(v) for v in s.metrics_history['valid__m']]))
        # (b) a phase with a batch count below one does not run: no entry in any of its series
        for how in ('constructor', 'attribute'):
            s = make(n_batches_train=2, n_batches_valid=-1 if how == 'constructor' else 2, metrics={'m': lambda u, t: torch.tensor(1.0)})
            if how == 'attribute':
                s.fit(1, tqdm_file=None)
                s.n_batches['valid'] = -2
            before = {k: len(v) for k, v in s.metrics_history.items()}
            s.fit(3, tqdm_file=None)
            grown = {k: len(v) - before[k] for k, v in s.metrics_history.items()}
            if grown.get('valid_loss') or grown.get('valid__m') or grown.get('train_loss') != 3 or grown.get('train__m') != 3 \
                    or s.global_epoch != len(s.metrics_history['train_loss']):
                bad.append(dict(case=f'validation batch count below zero (set through the {how})', violated='a phase that ran no batch wrote history '
                                'entries (or the training series are off)', new_entries=grown, global_epoch=s.global_epoch))
        # (a') an epoch whose training LOSS is not finite is an epoch like any other: every series of its phase gets its entry
        for special in (float('inf'), float('nan')):
            calls = []

            def flagged(r, f, x, calls=calls, special=special):
                calls.append(1)
                base = sum((ri ** 2).mean() for ri in r)
                return base + (special if len(calls) in (3, 4) else 0.0)          # the two training batches of the second epoch
            s = make(n_batches_train=2, n_batches_valid=0, loss_fn=flagged, metrics={'m': lambda u, t: (u ** 2).mean()})
            s.fit(3, tqdm_file=None)
            lens = {k: len(v) for k, v in s.metrics_history.items() if k.startswith('train')}
            if set(lens.values()) != {3} or s.global_epoch != 3:
                bad.append(dict(case=f'second epoch has training loss {special}', violated='the series of the training phase do not all have one entry per epoch',
                                lengths=lens, global_epoch=s.global_epoch))
        # (b') a callback that itself calls fit() on the same solver (a nested refinement run): the outer call keeps counting its own epochs
        seen, inner_seen = [], []

        def nested(solver):
            seen.append((solver.local_epoch, solver._max_local_epoch))
            if solver.local_epoch == 2 and not inner_seen:
                inner_seen.append('start')
                solver.fit(3, callbacks=[lambda s_: inner_seen.append(s_.local_epoch)], tqdm_file=None)
        s = make(n_batches_train=1, n_batches_valid=1)
        try:
            s.fit(4, callbacks=[nested], tqdm_file=None)
            outer = [e for e, _ in seen]
            if inner_seen != ['start', 1, 2, 3] or len(s.metrics_history['train_loss']) != s.global_epoch or s.global_epoch != 7 \
                    or any(e > 4 for e in outer) or outer[:2] != [1, 2] or len(outer) != 4 or outer != sorted(set(outer)) or outer[-1] != 4:
                bad.append(dict(case='a callback calls fit(3) on the same solver during epoch 2 of fit(4)', violated='local epochs of the outer call are not 1..4 '
                                '(or the counters are off)', outer_local_epochs=outer, inner=inner_seen, global_epoch=s.global_epoch,
                                train_entries=len(s.metrics_history['train_loss'])))
        except Exception as e:
            bad.append(dict(case='a callback calls fit() on the same solver', error=f'{type(e).__name__}: {e}'))
        # (b'') a solver restored with an optimiser INSTANCE in the configuration starts its histories afresh - as two separate series:
        # after further training the global epoch is the number of training epochs and the length of the training-loss history
        import contextlib, io, os, tempfile
        import dill
        from neurodiffeq.solvers_utils import SolverConfig
        from ..fixtures import c18_eqs as E_
        path = tempfile.mktemp(prefix='verif-c15-')
        dill.settings['byref'] = True
        try:
            torch.manual_seed(2)
            nets0 = [FCNN(1, 1, hidden_units=(3,))]
            s0 = Solver1D(E_.ode, [IVP(0., 1.)], t_min=0., t_max=1., nets=nets0, optimizer=torch.optim.SGD(nets0[0].parameters(), lr=0.01), n_batches_valid=1,
                          train_generator=Generator1D(4, 0., 1.), valid_generator=Generator1D(4, 0., 1.))
            s0.fit(2, tqdm_file=None)
            s0.save(path=path)
            mine = [FCNN(1, 1, hidden_units=(3,))]
            cfg = SolverConfig()
            cfg.nets, cfg.optimizer = mine, torch.optim.SGD(mine[0].parameters(), lr=0.01)
            with contextlib.redirect_stdout(io.StringIO()):
                l = Solver1D.load(path=path, config=cfg)
            e0, n0, v0 = l.global_epoch, len(l.metrics_history['train_loss']), len(l.metrics_history['valid_loss'])
            l.fit(3, tqdm_file=None)
            grew_t, grew_v = len(l.metrics_history['train_loss']) - n0, len(l.metrics_history['valid_loss']) - v0
            if grew_t != 3 or grew_v != 3 or l.global_epoch - e0 != 3 or l.metrics_history['train_loss'] is l.metrics_history['valid_loss']:
                bad.append(dict(case='solver restored with an optimiser instance in the SolverConfig, then fit(3)', violated='the series do not grow by one entry per '
                                'epoch each (or the epoch counter is off)', new_train_entries=grew_t, new_valid_entries=grew_v, epochs_counted=l.global_epoch - e0))
        except Exception as e:
            bad.append(dict(case='solver restored with an optimiser instance in the SolverConfig', error=f'{type(e).__name__}: {e}'))
        finally:
            dill.settings['byref'] = False
            if os.path.exists(path):
                os.remove(path)
        # (c) callbacks run once per epoch in the given order - also when a monitor is passed the deprecated way
        log = []

        class Mon:
            def to_callback(self):
                return lambda solver: log.append(('monitor', solver.local_epoch))
        s = make(n_batches_train=1, n_batches_valid=1)
        cbs = (lambda solver: log.append(('a', solver.local_epoch)), lambda solver: log.append(('b', solver.local_epoch)))
        for form in (list(cbs), cbs, iter(cbs)):
            del log[:]
            try:
                s.fit(3, monitor=Mon(), callbacks=form, tqdm_file=None)
            except Exception as e:
                bad.append(dict(case='fit(max_epochs=3, monitor=..., callbacks=[a, b])', error=f'{type(e).__name__}: {e}', callbacks_given_as=type(form).__name__))
                continue
            want = [(n, ep) for ep in (1, 2, 3) for n in ('monitor', 'a', 'b')]
            if log != want:
                bad.append(dict(case='fit(max_epochs=3, monitor=..., callbacks=[a, b])', violated='callbacks did not run exactly once per epoch in the given order',
                                callbacks_given_as=type(form).__name__, got=log[:12], want=want))
    return bad


def check(tier, seed):
    rep = Report(PID, tier, seed)
    ok, hits = kernel_phase(rep, 'NdeVerif.Proofs.C15', 'NdeVerif.C15', THEOREMS)
    if hits:
        print('forbidden tokens:', hits)
        rep.finish()
        return 2
    broken = [] if ok else [dict(kind='proof', failed=rep.failed)]
    camp = Campaign(tier, seed + 1).run()
    if camp.mismatches:
        broken.append(dict(kind='correspondence', stream='real solver vs NdeVerif.Solver', count=len(camp.mismatches), first=camp.mismatches[:2]))
    bad = evaluate(camp) + direct_checks()
    from ..solverprop import manual_campaign
    okm, _ = kernel_phase(rep, 'NdeVerif.Proofs.AnyHistory', 'NdeVerif.AnyHistory', ['inv_any_history', 'series_lengths_any_history', 'any_history_from_init'], tag='C15any')
    if not okm:
        broken.append(dict(kind='proof', failed=rep.failed))
    man = manual_campaign(tier, seed + 1)
    if man['mismatches']:
        broken.append(dict(kind='correspondence', stream='hand-run epochs mixed with fit() vs NdeVerif.Solver', count=len(man['mismatches']), first=man['mismatches'][:2]))
    bad += [b for b in man['bad'] if 'metric series' in b['violated']]
    rep.coverage.update(camp.coverage())
    rep.coverage['hand_run_epoch_histories'] = dict(scripts=man['scripts'], manual_epochs=man['manual_epochs'], mismatches=len(man['mismatches']))
    rep.samples = [dict(script=l, solver=kw) for l, kw in camp.scripts[:3]]
    rep.assumptions = ['n_batches_train >= 1 in every epoch (the property\'s quantifier); with n_batches_train = 0 the real code records nothing for that epoch',
                       'metric value of a batch under a closure-based optimiser = value at the last closure evaluation (as for the loss)',
                       'after a zero-epoch fit() the local_epoch attribute keeps its previous value (the property speaks of the local epoch seen during a call)']
    for b in bad[:3]:
        rep.violation(dict(kind='failing-input', input=b, broken=broken))
    if broken and not bad:
        rep.violation(dict(kind='unproved', broken=broken), found_input=False, name='unproved')
    return rep.finish(checker_cmd='cd lean && lake build NdeVerif.Proofs.C15 && lake env lean --run drivers/Solver.lean < scripts')


def replay(path):
    from .C05 import replay as r
    return r(path)
