import NdeVerif.Calc.Ex
import NdeVerif.Calc.Real
import NdeVerif.Calc.Lemmas
