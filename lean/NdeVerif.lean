import NdeVerif.Calc.Ex
import NdeVerif.Calc.Real
import NdeVerif.Calc.Lemmas
import NdeVerif.Calc.Tactics
import NdeVerif.Gen.C01
