/-
  Model of `neurodiffeq.generators.BatchGenerator` (Mathlib-free, executable).

  The real object keeps one cached tensor per dimension (`cached_xs : list[Tensor]`), refills all of them
  from one underlying draw at a time (`zip`), slices the first `size` entries of every dimension and drops
  them.  The model keeps one `List Val` per dimension and mirrors exactly those steps.  The underlying
  generator is a function `src : Nat → List (List Val)` giving, for the k-th draw it is asked for, one list
  per dimension.  The `while` loop is modelled with fuel; `refill_enough` shows that `size` units of fuel
  suffice as soon as every draw is non-empty (the termination hypothesis, see DESIGN.md C14).
-/
namespace NdeVerif.Batch

abbrev Val := Int

structure BState where
  cached : List (List Val)   -- one list per dimension
  next : Nat                 -- number of draws taken from the underlying generator so far
  deriving Repr, BEq

/-- `__init__`: one draw is taken and cached -/
def init (src : Nat → List (List Val)) : BState := ⟨src 0, 1⟩

def firstLen (c : List (List Val)) : Nat := (c.headD []).length

/-- `while len(self.cached_xs[0]) < self.size: new = get_examples(); cached = [cat(x, n) for x, n in zip(cached, new)]` -/
def refill (src : Nat → List (List Val)) (bs : Nat) : Nat → BState → BState
  | 0, s => s
  | fuel+1, s =>
    if firstLen s.cached < bs then
      refill src bs fuel ⟨List.zipWith (· ++ ·) s.cached (src s.next), s.next + 1⟩
    else s

/-- `get_examples`: refill, slice, drop.  Returns the new state and the batch (one list per dimension). -/
def get (src : Nat → List (List Val)) (bs fuel : Nat) (s : BState) : BState × List (List Val) :=
  let s' := refill src bs fuel s
  (⟨s'.cached.map (·.drop bs), s'.next⟩, s'.cached.map (·.take bs))

/-- `k` consecutive calls; returns final state and the batches in call order -/
def calls (src : Nat → List (List Val)) (bs fuel : Nat) : Nat → BState → BState × List (List (List Val))
  | 0, s => (s, [])
  | k+1, s =>
    let (s1, b) := get src bs fuel s
    let (s2, bsx) := calls src bs fuel k s1
    (s2, b :: bsx)

end NdeVerif.Batch
