/-
  Model of the generator combinators of `neurodiffeq.generators` (Mathlib-free, executable):
  ConcatGenerator, EnsembleGenerator, MeshGenerator, TransformGenerator, FilterGenerator, ResampleGenerator,
  StaticGenerator, PredefinedGenerator, SamplerGenerator and the operator forms `+ * ^` of BaseGenerator.

  * `GenExpr`  — the *description* of a combinator expression (what the Python harness serialises).
  * `Obj`      — the *constructed object tree* with exactly the fields the real objects keep between calls:
                 every node its `.size` (computed once in `__init__` from the children's `.size`),
                 `FilterGenerator.size` (rewritten on each draw when `update_size`), `StaticGenerator.examples`
                 (drawn once in `__init__`), and the call/point counters of the spy leaves.  `Obj` is the state.
  * `build`    — the constructors, run in Python's evaluation order (arguments left to right, then the node's
                 `__init__`): Mesh splices the `.generators` of nested Mesh arguments, Static draws its child once,
                 Ensemble raises `ValueError` on unequal `.size`, Predefined on unequal lengths.
  * `run`      — one `get_examples()` call: returns the data (one list per dimension; the single-tensor / list /
                 tuple polymorphism of the return value is canonicalised to a list of columns), the new object
                 tree and the world.  Children are drawn in the order the code draws them.
  * `World`    — inputs recorded from the real run (the index tensors returned by `torch.randperm(n)` /
                 `torch.randint(n, (size,))`, in the order they were requested) and the first exception, if any.

  * `okRun`    — (specification side) the call raises no exception and every node's caller-preconditions hold;
    `shapeOf` / `SizeStable` — the node's `.size` is, by construction alone, the number of rows of every call.

  Data are `List (List Int)`: spy points are integers (exactly representable float64 in the real run).
  Outside the modelled domain (rejected by `build`): composites without sub-generators, SamplerGenerator below
  another combinator.
-/
namespace NdeVerif.GenComb

abbrev Val := Int
abbrev Data := List (List Val)

/-- `len(xs[0])` -/
def nrows (d : Data) : Nat := (d.headD []).length

/-! ### vocabulary of maps and masks -/

structure Aff where
  a : Int
  b : Int
  deriving Repr, DecidableEq

def Aff.app (f : Aff) (x : Val) : Val := f.a * x + f.b

/-- `None` in `transforms=[…]` is the identity -/
def appOpt : Option Aff → Val → Val
  | none, x => x
  | some f, x => f.app x

inductive Trans
  | perDim (ms : List (Option Aff))   -- TransformGenerator(g, transforms=[…])
  | rev                               -- TransformGenerator(g, transform=lambda *xs: tuple(reversed(xs)))
  | affAll (f : Aff)                  -- TransformGenerator(g, transform=lambda *xs: tuple(a*x+b for x in xs))
  deriving Repr

/-- `tuple(t(x) for t, x in zip(self.trans, xs))` (zip truncates) resp. `self.trans(*xs)` -/
def Trans.app : Trans → Data → Data
  | .perDim ms, d => List.zipWith (fun m c => c.map (appOpt m)) ms d
  | .rev, d => d.reverse
  | .affAll f, d => d.map (·.map f.app)

/-- filter masks, computed from dimension 0: `filter_fn = lambda xs: <test>(xs[0])` -/
inductive Pred
  | all                    -- torch.ones_like(xs[0], dtype=bool)
  | modEq (m r : Nat)      -- torch.remainder(xs[0], m) == r
  | lt (c : Int)           -- xs[0] < c
  deriving Repr

def Pred.test : Pred → Val → Bool
  | .all, _ => true
  | .modEq m r, x => decide (x % (m : Int) = (r : Int))
  | .lt c, x => decide (x < c)

/-- `x[mask]` -/
def keep : List Bool → List Val → List Val
  | b :: bs, x :: xs => if b then x :: keep bs xs else keep bs xs
  | _, _ => []

/-- `x[indices]` (out-of-range positions are reported through `World.err`, the value used is irrelevant) -/
def gather (ix : List Nat) (c : List Val) : List Val := ix.map (fun i => c.getD i 0)

/-! ### data operations of the composites -/

inductive Err
  | valueError      -- Ensemble: children's .size differ; Predefined: lengths differ
  | indexError      -- boolean mask / index does not fit a column
  | runtimeError    -- torch.randint(0, …); torch.cat of 0-dim tensors
  | typeError       -- torch.cat of a tensor and a list
  | badIndices      -- the recorded index tensor is not what randperm/randint can return (harness fault)
  | empty           -- composite without sub-generators (outside the modelled domain)
  | unsupported     -- SamplerGenerator below another combinator (outside the modelled domain)
  deriving Repr, DecidableEq


/-- ConcatGenerator: `[torch.cat(seg) for seg in zip(*all_examples)]` (zip truncates to the fewest dimensions) -/
def catCols : List Data → Data
  | [] => []
  | [d] => d
  | d :: ds => List.zipWith (· ++ ·) d (catCols ds)

/-- what `ConcatGenerator.get_examples` does with the children's return values.  One-dimensional data are bare tensors,
several dimensions a list/tuple.  `isinstance(all_examples[0], Tensor)` with a list among the others: `torch.cat` raises
TypeError; a list first and a bare tensor among the others: `zip(*…)` iterates the tensor's entries (0-dim tensors) and
`torch.cat` raises RuntimeError unless the zip is empty.  Otherwise the columns are concatenated. -/
def concatOutcome (ds : List Data) : Data × Option Err :=
  if ds.any (fun d => d.length == 1) && ds.any (fun d => d.length != 1) then
    if (ds.headD []).length == 1 then ([], some .typeError)
    else if ds.foldr (fun d acc => min (if d.length == 1 then nrows d else d.length) acc) (ds.headD []).length == 0
      then ([], none)
    else ([], some .runtimeError)
  else (catCols ds, none)

def prodLen : List (List Val) → Nat
  | [] => 1
  | c :: cs => c.length * prodLen cs

/-- `[r.flatten() for r in torch.meshgrid(cols, indexing='ij')]`: column 0 repeats each entry over the block of
the later columns, the later columns are the mesh of the rest tiled once per entry of column 0 -/
def meshgrid : List (List Val) → List (List Val)
  | [] => []
  | c :: cs => (c.flatMap (List.replicate (prodLen cs))) ::
               (meshgrid cs).map (fun col => (List.replicate c.length col).flatten)

/-! ### spy leaves -/

/-- coordinate `j` of the `p`-th point ever produced by leaf `id` -/
def val (id p j : Nat) : Val := 1000000 * (id : Int) + 10 * (p : Int) + (j : Int)

def leafData (id dims ctr n : Nat) : Data :=
  (List.range dims).map (fun j => (List.range n).map (fun i => val id (ctr + i) j))

/-- number of points of the `k`-th draw: the schedule is cycled -/
def sizeAt (sizes : List Nat) (k : Nat) : Nat := sizes.getD (k % sizes.length) 0

/-! ### expressions, objects, world -/

inductive GenExpr
  | leaf (id dims : Nat) (sizes : List Nat)
  | concat (gs : List GenExpr)
  | ensemble (gs : List GenExpr)
  | mesh (gs : List GenExpr)
  | opAdd (a b : GenExpr)             -- a + b
  | opMul (a b : GenExpr)             -- a * b
  | opXor (a b : GenExpr)             -- a ^ b
  | transform (g : GenExpr) (t : Trans)
  | filter (g : GenExpr) (p : Pred) (size : Option Nat) (update : Bool)
  | resample (g : GenExpr) (size : Option Nat) (repl : Bool)
  | static (g : GenExpr)
  | predefined (xs : Data)
  | sampler (g : GenExpr)

/-- constructed objects; the first `Nat` of every node is its `.size` attribute -/
inductive Obj
  | leaf (size id dims : Nat) (sizes : List Nat) (calls ctr : Nat)
  | concat (size : Nat) (gs : List Obj)
  | ensemble (size : Nat) (gs : List Obj)
  | mesh (size : Nat) (gs : List Obj)            -- `.generators`, nested meshes already spliced
  | transform (size : Nat) (g : Obj) (t : Trans)
  | filter (size : Nat) (g : Obj) (p : Pred) (update : Bool)
  | resample (size : Nat) (g : Obj) (repl : Bool)
  | static (size : Nat) (g : Obj) (examples : Data)
  | predefined (size : Nat) (xs : Data)
  | sampler (size : Nat) (g : Obj)

def Obj.size : Obj → Nat
  | .leaf s .. => s
  | .concat s _ => s
  | .ensemble s _ => s
  | .mesh s _ => s
  | .transform s .. => s
  | .filter s .. => s
  | .resample s .. => s
  | .static s .. => s
  | .predefined s _ => s
  | .sampler s _ => s

structure World where
  idx : List (List Nat)      -- recorded index tensors, in request order
  err : Option Err := none   -- first exception
  deriving Repr

def World.fail (w : World) (e : Err) : World := { w with err := w.err.orElse (fun _ => some e) }

/-! ### constructors (`__init__`) -/

def sumSizes (os : List Obj) : Nat := (os.map Obj.size).sum
def prodSizes (os : List Obj) : Nat := (os.map Obj.size).foldr (· * ·) 1

/-- `ConcatGenerator(*gens)`: `self.size = sum(gen.size for gen in generators)` -/
def mkConcat (os : List Obj) : Obj := .concat (sumSizes os) os

/-- `EnsembleGenerator(*gens)`: size of the first, `ValueError` unless all `.size` agree -/
def mkEnsemble (os : List Obj) : Except Err Obj :=
  let s := (os.headD (.predefined 0 [])).size
  if os.all (fun o => o.size == s) then .ok (.ensemble s os) else .error .valueError

/-- `for g in generators: if isinstance(g, MeshGenerator): extend with g.generators else append g` -/
def spliceMesh : List Obj → List Obj
  | [] => []
  | .mesh _ sub :: os => sub ++ spliceMesh os
  | o :: os => o :: spliceMesh os

/-- `MeshGenerator(*gens)`: `self.size = np.prod(tuple(g.size for g in self.generators))` after splicing -/
def mkMesh (os : List Obj) : Obj := .mesh (prodSizes (spliceMesh os)) (spliceMesh os)

def mkPredefined (xs : Data) : Except Err Obj :=
  if xs.all (fun c => c.length == nrows xs) then .ok (.predefined (nrows xs) xs) else .error .valueError

/-- the boolean mask computed from `xs[0]` fits every column (`x[mask]` raises IndexError otherwise) -/
def maskFits (d : Data) : Bool := !d.isEmpty && d.all (fun c => c.length == nrows d)

/-- what `torch.randint(n, (s,))` resp. `torch.randperm(n)` can return -/
def ixValid (rc : List Nat) (n s : Nat) (repl : Bool) : Bool :=
  rc.all (· < n) && (if repl then rc.length == s else (rc.length == n && decide rc.Nodup))

/-- the indices used: `torch.randint(n, (s,))` resp. `torch.randperm(n)[:s]` -/
def ixUsed (rc : List Nat) (s : Nat) (repl : Bool) : List Nat := if repl then rc else rc.take s

/-- every index is inside every column (`x[indices]` raises IndexError otherwise) -/
def ixFits (ix : List Nat) (d : Data) : Bool := d.all (fun c => ix.all (· < c.length))

/-! ### `get_examples()` -/

mutual
def run : Obj → World → Data × Obj × World
  | .leaf s id dims sizes calls ctr, w =>
    let n := sizeAt sizes calls
    (leafData id dims ctr n, .leaf s id dims sizes (calls + 1) (ctr + n), w)
  | .concat s gs, w =>
    let r := runList gs w
    let c := concatOutcome r.1
    (c.1, .concat s r.2.1, match c.2 with | some e => r.2.2.fail e | none => r.2.2)
  | .ensemble s gs, w =>
    let r := runList gs w
    (r.1.flatten, .ensemble s r.2.1, r.2.2)
  | .mesh s gs, w =>
    let r := runList gs w
    (meshgrid r.1.flatten, .mesh s r.2.1, r.2.2)
  | .transform s g t, w =>
    let r := run g w
    (t.app r.1, .transform s r.2.1 t, r.2.2)
  | .filter s g p upd, w =>
    let r := run g w
    let mask := (r.1.headD []).map p.test
    let out := r.1.map (keep mask)
    let w' := if maskFits r.1 then r.2.2 else r.2.2.fail .indexError
    (out, .filter (if upd then nrows out else s) r.2.1 p upd, w')
  | .resample s g repl, w =>
    let r := run g w
    let n := nrows r.1
    if repl && n == 0 then (r.1, .resample s r.2.1 repl, r.2.2.fail .runtimeError) else
    let rc := r.2.2.idx.headD []
    let ix := ixUsed rc s repl
    let w1 : World := { r.2.2 with idx := r.2.2.idx.tail }
    let w2 := if !ixValid rc n s repl then w1.fail .badIndices
              else if !ixFits ix r.1 then w1.fail .indexError else w1
    (r.1.map (gather ix), .resample s r.2.1 repl, w2)
  | .static s g ex, w => (ex, .static s g ex, w)
  | .predefined s xs, w => (xs, .predefined s xs, w)
  | .sampler s g, w =>
    let r := run g w
    (r.1, .sampler s r.2.1, r.2.2)
def runList : List Obj → World → List Data × List Obj × World
  | [], w => ([], [], w)
  | g :: gs, w =>
    let r := run g w
    let rs := runList gs r.2.2
    (r.1 :: rs.1, r.2.1 :: rs.2.1, rs.2.2)
end

/-- shapes of the returned tensors: SamplerGenerator reshapes every column to `(n, 1)` -/
def outShapes : Obj → Data → List (List Nat)
  | .sampler .., d => d.map (fun c => [c.length, 1])
  | _, d => d.map (fun c => [c.length])

/-! ### building an expression -/

def isSampler : Obj → Bool
  | .sampler .. => true
  | _ => false

mutual
def build : GenExpr → World → Except Err (Obj × World)
  | .leaf id dims sizes, w => .ok (.leaf (sizes.headD 0) id dims sizes 0 0, w)
  | .concat gs, w =>
    match buildList gs w with
    | .error e => .error e
    | .ok (os, w1) => if os.isEmpty then .error .empty else .ok (mkConcat os, w1)
  | .ensemble gs, w =>
    match buildList gs w with
    | .error e => .error e
    | .ok (os, w1) => if os.isEmpty then .error .empty else
      match mkEnsemble os with
      | .error e => .error e
      | .ok o => .ok (o, w1)
  | .mesh gs, w =>
    match buildList gs w with
    | .error e => .error e
    | .ok (os, w1) => if os.isEmpty then .error .empty else .ok (mkMesh os, w1)
  | .opAdd a b, w =>        -- `__add__`: check_generator(other); ConcatGenerator(self, other)
    match build a w with
    | .error e => .error e
    | .ok (oa, w1) =>
      match build b w1 with
      | .error e => .error e
      | .ok (ob, w2) => .ok (mkConcat [oa, ob], w2)
  | .opMul a b, w =>        -- `__mul__`: EnsembleGenerator(self, other)
    match build a w with
    | .error e => .error e
    | .ok (oa, w1) =>
      match build b w1 with
      | .error e => .error e
      | .ok (ob, w2) =>
        match mkEnsemble [oa, ob] with
        | .error e => .error e
        | .ok o => .ok (o, w2)
  | .opXor a b, w =>        -- `__xor__`: MeshGenerator(self, other)
    match build a w with
    | .error e => .error e
    | .ok (oa, w1) =>
      match build b w1 with
      | .error e => .error e
      | .ok (ob, w2) => .ok (mkMesh [oa, ob], w2)
  | .transform g t, w =>
    match build g w with
    | .error e => .error e
    | .ok (o, w1) => .ok (.transform o.size o t, w1)
  | .filter g p size upd, w =>
    match build g w with
    | .error e => .error e
    | .ok (o, w1) => .ok (.filter (size.getD o.size) o p upd, w1)
  | .resample g size repl, w =>
    match build g w with
    | .error e => .error e
    | .ok (o, w1) => .ok (.resample (size.getD o.size) o repl, w1)
  | .static g, w =>         -- `self.size = generator.size; self.examples = generator.get_examples()`
    match build g w with
    | .error e => .error e
    | .ok (o, w1) =>
      let r := run o w1
      match r.2.2.err with          -- an exception of the constructor-time draw leaves the constructor
      | some e => .error e
      | none => .ok (.static o.size r.2.1 r.1, r.2.2)
  | .predefined xs, w =>
    match mkPredefined xs with
    | .error e => .error e
    | .ok o => .ok (o, w)
  | .sampler g, w =>
    match build g w with
    | .error e => .error e
    | .ok (o, w1) => .ok (.sampler o.size o, w1)
def buildList : List GenExpr → World → Except Err (List Obj × World)
  | [], w => .ok ([], w)
  | g :: gs, w =>
    match build g w with
    | .error e => .error e
    | .ok (o, w1) =>
      match buildList gs w1 with
      | .error e => .error e
      | .ok (os, w2) => .ok (o :: os, w2)
end

/- SamplerGenerator is modelled at the root only (that is where the solvers put it) -/
mutual
def noSampler : GenExpr → Bool
  | .leaf .. => true
  | .concat gs => noSamplerList gs
  | .ensemble gs => noSamplerList gs
  | .mesh gs => noSamplerList gs
  | .opAdd a b => noSampler a && noSampler b
  | .opMul a b => noSampler a && noSampler b
  | .opXor a b => noSampler a && noSampler b
  | .transform g _ => noSampler g
  | .filter g .. => noSampler g
  | .resample g .. => noSampler g
  | .static g => noSampler g
  | .predefined _ => true
  | .sampler _ => false
def noSamplerList : List GenExpr → Bool
  | [] => true
  | g :: gs => noSampler g && noSamplerList gs
end

def buildTop (e : GenExpr) (w : World) : Except Err (Obj × World) :=
  match e with
  | .sampler g => if noSampler g then build e w else .error .unsupported
  | e => if noSampler e then build e w else .error .unsupported

/-- `k` consecutive `get_examples()` calls; stops at the first exception.  Returns per call the data, the
tensor shapes and the root's `.size` after the call. -/
def calls : Nat → Obj → World → List (Data × List (List Nat) × Nat) × Obj × World
  | 0, o, w => ([], o, w)
  | k + 1, o, w =>
    let r := run o w
    if r.2.2.err.isSome then ([], r.2.1, r.2.2) else
    let rest := calls k r.2.1 r.2.2
    ((r.1, outShapes o r.1, r.2.1.size) :: rest.1, rest.2.1, rest.2.2)

/-! ### run-time preconditions and static shape information (used by the theorems and printed by the driver) -/

def sameLen {α} (l : List (List α)) : Bool := l.all (fun c => c.length == (l.headD []).length)

mutual
/-- the call raises no exception and at every node the caller's preconditions hold: Concat children return the
same number of dimensions, Ensemble children equally many rows, Mesh children one dimension each -/
def okRun : Obj → World → Bool
  | .leaf .., _ => true
  | .concat _ gs, w => okRunList gs w && sameLen (runList gs w).1
  | .ensemble _ gs, w => okRunList gs w && sameLen ((runList gs w).1.map (fun d => d.headD []))
  | .mesh _ gs, w => okRunList gs w && (runList gs w).1.all (fun d => d.length == 1)
  | .transform _ g _, w => okRun g w
  | .filter _ g _ _, w => okRun g w && maskFits (run g w).1
  | .resample s g repl, w =>
    let r := run g w
    okRun g w && !(repl && nrows r.1 == 0) && ixValid (r.2.2.idx.headD []) (nrows r.1) s repl
      && ixFits (ixUsed (r.2.2.idx.headD []) s repl) r.1
  | .static .., _ => true
  | .predefined .., _ => true
  | .sampler _ g, w => okRun g w
def okRunList : List Obj → World → Bool
  | [], _ => true
  | g :: gs, w => okRun g w && okRunList gs (run g w).2.2
end

def isRect (n d : Nat) (x : Data) : Bool := x.length == d && x.all (fun c => c.length == n)

mutual
/-- `some (n, d)`: by its construction alone the node returns `d ≥ 1` dimensions of exactly `n = .size` rows on
every call, forever (`SizeStable`).  `none` as soon as a FilterGenerator with a real mask, a leaf with a varying
schedule, a resample asking for more distinct rows than exist, a multi-dimensional Mesh child, or a `.size`
field that is not what the constructor computes from such children sits at or below the node. -/
def shapeOf : Obj → Option (Nat × Nat)
  | .leaf s _ dims sizes _ _ =>
    if 1 ≤ dims && !sizes.isEmpty && sizes.all (· == s) then some (s, dims) else none
  | .concat s gs =>
    match shapesOf gs with
    | some ((n, d) :: rest) =>
      if rest.all (fun x => x.2 == d) && s == n + (rest.map (·.1)).sum then some (s, d) else none
    | _ => none
  | .ensemble s gs =>
    match shapesOf gs with
    | some ((n, d) :: rest) =>
      if rest.all (fun x => x.1 == n) && s == n then some (s, d + (rest.map (·.2)).sum) else none
    | _ => none
  | .mesh s gs =>
    match shapesOf gs with
    | some ((n, d) :: rest) =>
      if d == 1 && rest.all (fun x => x.2 == 1) && s == n * (rest.map (·.1)).foldr (· * ·) 1
      then some (s, rest.length + 1) else none
    | _ => none
  | .transform s g t =>
    match shapeOf g with
    | some (n, d) =>
      if s == n then
        match t with
        | .perDim ms => if 1 ≤ min ms.length d then some (s, min ms.length d) else none
        | _ => some (s, d)
      else none
    | none => none
  | .filter s g p _ =>
    match shapeOf g, p with
    | some (n, d), .all => if s == n then some (s, d) else none
    | _, _ => none
  | .resample s g repl =>
    match shapeOf g with
    | some (n, d) => if (if repl then 1 ≤ n else s ≤ n) then some (s, d) else none
    | none => none
  | .static s _ ex => if 1 ≤ ex.length && isRect s ex.length ex then some (s, ex.length) else none
  | .predefined s xs => if 1 ≤ xs.length && isRect s xs.length xs then some (s, xs.length) else none
  | .sampler s g =>
    match shapeOf g with
    | some (n, d) => if s == n then some (s, d) else none
    | none => none
def shapesOf : List Obj → Option (List (Nat × Nat))
  | [] => some []
  | g :: gs =>
    match shapeOf g, shapesOf gs with
    | some x, some xs => some (x :: xs)
    | _, _ => none
end

def SizeStable (o : Obj) : Prop := (shapeOf o).isSome
instance (o : Obj) : Decidable (SizeStable o) := inferInstanceAs (Decidable ((shapeOf o).isSome = true))

/-! ### all `.size` attributes of the object tree, pre-order (compared with the real objects after every call) -/
mutual
def allSizes : Obj → List Nat
  | .leaf s .. => [s]
  | .concat s gs => s :: allSizesList gs
  | .ensemble s gs => s :: allSizesList gs
  | .mesh s gs => s :: allSizesList gs
  | .transform s g _ => s :: allSizes g
  | .filter s g _ _ => s :: allSizes g
  | .resample s g _ => s :: allSizes g
  | .static s g _ => s :: allSizes g
  | .predefined s _ => [s]
  | .sampler s g => s :: allSizes g
def allSizesList : List Obj → List Nat
  | [] => []
  | g :: gs => allSizes g ++ allSizesList gs
end

end NdeVerif.GenComb
