/-
  Model of the training loop of `neurodiffeq.solvers.BaseSolver` (`fit`, `_run_epoch`, closure handling,
  `_update_best`, history/metric bookkeeping) — Mathlib-free and executable.

  What is abstract:
  * parameters of all networks together are one integer `θ` (in the scripted world of the correspondence check the
    parameters really are integers: the scripted optimisers add integers to every weight);
  * the loss of a batch is an oracle `loss lossId θ isTrain drawIndex` (user's equations + loss_fn + additional
    loss, as a function of the current parameters and of WHICH batch was drawn), likewise metrics;
  * an optimiser step is an oracle: the k-th plain step adds `plainStep k`; the k-th closure-based step evaluates
    the closure once per entry of `closureShifts k` and moves the parameters by that entry after the evaluation
    (this covers LBFGS: several evaluations at different parameters, the last update possibly after the last
    evaluation).
  Everything else (order of side effects, accumulators, guards, call-site ordering) mirrors the code.
-/
namespace NdeVerif.Solver

abbrev Val := Int

inductive OptKind | plain | closure
  deriving DecidableEq, Repr, Inhabited

/-- the oracles of one run (fixed; the state never changes them) -/
structure Cfg where
  /-- `loss_fn(residuals, funcs, coords)` of the batch: (loss id, θ, train?, draw index) -/
  userLoss : Nat → Int → Bool → Nat → Val
  metric : Nat → Int → Bool → Nat → Val
  nMetrics : Nat
  plainStep : Nat → Int
  closureShifts : Nat → List Int
  /-- `additional_loss(residuals, funcs, coords)` of the batch (a method of the solver: independent of `loss_fn`) -/
  addl : Int → Bool → Nat → Val := fun _ _ _ => 0
  /-- what `loss.backward()` of the batch adds to the `.grad` of the parameters -/
  gradOf : Nat → Int → Bool → Nat → Int := fun _ _ _ _ => 0

/-- the quantity the closure computes, back-propagates (training) and records:
`loss = self.loss_fn(residuals, funcs, batch) + self.additional_loss(residuals, funcs, batch)`, in both phases -/
def Cfg.loss (c : Cfg) (lossId : Nat) (θ : Int) (train : Bool) (idx : Nat) : Val :=
  c.userLoss lossId θ train idx + c.addl θ train idx

inductive Event
  | zeroGrad
  | draw (train : Bool) (idx : Nat)
  | evalLoss (lossId : Nat) (θ : Int) (train : Bool) (idx : Nat)
  | step (kind : OptKind) (k : Nat) (θ' : Int)
  | record (train : Bool) (v : Val)
  | recordMetric (train : Bool) (m : Nat) (v : Val)
  | snapshot (θ : Int) (v : Val)
  | callbacks (call epoch : Nat)
  deriving DecidableEq, Repr

/-- actions a callback may take on the solver (what the shipped action callbacks do) -/
inductive Action
  | stop
  | setTrainBatches (n : Nat)
  | setOpt (k : OptKind)
  | setLoss (id : Nat)
  deriving DecidableEq, Repr

structure State where
  θ : Int
  optKind : OptKind
  lossId : Nat
  nTrain : Nat
  nValid : Nat
  trainLoss : List Val          -- oldest first
  validLoss : List Val
  trainMetric : List (List Val) -- one series per metric
  validMetric : List (List Val)
  lowest : Option Val
  best : Option Int             -- deepcopy of the networks = a value
  localEpoch : Nat
  maxLocal : Nat
  stop : Bool
  trainDraws : Nat              -- batches drawn so far from the training generator
  validDraws : Nat
  steps : Nat                   -- optimiser steps taken so far (index into the oracles)
  log : List Event              -- newest first (ghost)
  cand : List Int               -- ghost: the parameters at every `_update_best` call, oldest first
  deriving Repr

def init (θ0 : Int) (opt : OptKind) (nTrain nValid nMetrics : Nat) : State :=
  { θ := θ0, optKind := opt, lossId := 0, nTrain := nTrain, nValid := nValid,
    trainLoss := [], validLoss := [],
    trainMetric := List.replicate nMetrics [], validMetric := List.replicate nMetrics [],
    lowest := none, best := none, localEpoch := 0, maxLocal := 0, stop := false,
    trainDraws := 0, validDraws := 0, steps := 0, log := [], cand := [] }

def globalEpoch (s : State) : Nat := s.trainLoss.length

/-- `_update_best(key)`: strict `<` against `lowest_loss`, then `deepcopy(self.nets)` -/
def updateBest (s : State) (current : Val) : State :=
  let s := { s with cand := s.cand ++ [s.θ] }
  match s.lowest with
  | none => { s with lowest := some current, best := some s.θ, log := .snapshot s.θ current :: s.log }
  | some l =>
    if current < l then { s with lowest := some current, best := some s.θ, log := .snapshot s.θ current :: s.log }
    else s

def pushMetrics (hist : List (List Val)) (vals : List Val) : List (List Val) :=
  List.zipWith (fun h v => h ++ [v]) hist vals

def metricIds (c : Cfg) : List Nat := List.range c.nMetrics

/-- accumulators of one epoch -/
structure Acc where
  epochLoss : Val
  metricSums : List Val

def acc0 (c : Cfg) : Acc := ⟨0, (metricIds c).map (fun _ => 0)⟩

/-- one training batch with a plain optimiser: draw, one closure evaluation (no zero_grad, no step) -/
def trainBatchPlain (c : Cfg) (p : State × Acc) : State × Acc :=
  let s := p.1
  let idx := s.trainDraws
  ({ s with trainDraws := idx + 1, log := .evalLoss s.lossId s.θ true idx :: .draw true idx :: s.log },
   { epochLoss := p.2.epochLoss + c.loss s.lossId s.θ true idx,
     metricSums := List.zipWith (· + ·) p.2.metricSums ((metricIds c).map (fun m => c.metric m s.θ true idx)) })

/-- the closure evaluations of one closure-based optimiser step: returns the final parameters, the loss and the
metric values of the LAST evaluation, and the log -/
def closureEvals (c : Cfg) (lossId : Nat) (idx : Nat) :
    List Int → Int → Val → List Val → List Event → Int × Val × List Val × List Event
  | [], θ, l, ms, log => (θ, l, ms, log)
  | sh :: rest, θ, _, _, log =>
    closureEvals c lossId idx rest (θ + sh) (c.loss lossId θ true idx)
      ((metricIds c).map (fun m => c.metric m θ true idx)) (.evalLoss lossId θ true idx :: .zeroGrad :: log)

/-- one training batch with a closure-based optimiser: draw, `optimizer.step(closure)` -/
def trainBatchClosure (c : Cfg) (p : State × Acc) : State × Acc :=
  let s := p.1
  let idx := s.trainDraws
  let r := closureEvals c s.lossId idx (c.closureShifts s.steps) s.θ 0
    ((metricIds c).map (fun _ => 0)) (.draw true idx :: s.log)
  ({ s with θ := r.1, trainDraws := idx + 1, steps := s.steps + 1, log := .step .closure s.steps r.1 :: r.2.2.2 },
   { epochLoss := p.2.epochLoss + r.2.1, metricSums := List.zipWith (· + ·) p.2.metricSums r.2.2.1 })

def iterate {α : Type} (f : α → α) : Nat → α → α
  | 0, x => x
  | n+1, x => iterate f n (f x)

def divMetrics (sums : List Val) (n : Nat) : List Val := sums.map (· / (n : Int))

def logZeroGrad (s : State) : State := { s with log := .zeroGrad :: s.log }

/-- `self._update_history(epoch_loss / n, 'loss', 'train')` -/
def recordTrain (s : State) (v : Val) : State :=
  { s with trainLoss := s.trainLoss ++ [v], log := .record true v :: s.log }

def recordValid (s : State) (v : Val) : State :=
  { s with validLoss := s.validLoss ++ [v], log := .record false v :: s.log }

/-- call site in the training epoch: `if key == 'valid' or self.n_batches['valid'] == 0: self._update_best(key)` -/
def maybeUpdateBestTrain (s : State) (v : Val) : State := if s.nValid = 0 then updateBest s v else s

/-- `self._do_optimizer_step()` for optimisers that take no closure -/
def plainOptStep (c : Cfg) (s : State) : State :=
  { s with θ := s.θ + c.plainStep s.steps, steps := s.steps + 1,
           log := .step .plain s.steps (s.θ + c.plainStep s.steps) :: s.log }

def recordTrainMetrics (s : State) (ms : List Val) : State := { s with trainMetric := pushMetrics s.trainMetric ms }
def recordValidMetrics (s : State) (ms : List Val) : State := { s with validMetric := pushMetrics s.validMetric ms }

/-- `_run_epoch('train')` -/
def trainEpoch (c : Cfg) (s : State) : State :=
  if s.nTrain = 0 then s else
  match s.optKind with
  | .plain =>
    let p := iterate (trainBatchPlain c) s.nTrain (logZeroGrad s, acc0 c)
    let v := p.2.epochLoss / (s.nTrain : Int)
    recordTrainMetrics (plainOptStep c (maybeUpdateBestTrain (recordTrain p.1 v) v)) (divMetrics p.2.metricSums s.nTrain)
  | .closure =>
    let p := iterate (trainBatchClosure c) s.nTrain (s, acc0 c)
    let v := p.2.epochLoss / (s.nTrain : Int)
    recordTrainMetrics (maybeUpdateBestTrain (recordTrain p.1 v) v) (divMetrics p.2.metricSums s.nTrain)

def validBatch (c : Cfg) (p : State × Acc) : State × Acc :=
  let s := p.1
  let idx := s.validDraws
  ({ s with validDraws := idx + 1, log := .evalLoss s.lossId s.θ false idx :: .draw false idx :: s.log },
   { epochLoss := p.2.epochLoss + c.loss s.lossId s.θ false idx,
     metricSums := List.zipWith (· + ·) p.2.metricSums ((metricIds c).map (fun m => c.metric m s.θ false idx)) })

/-- `_run_epoch('valid')` -/
def validEpoch (c : Cfg) (s : State) : State :=
  if s.nValid = 0 then s else
  let p := iterate (validBatch c) s.nValid (s, acc0 c)
  let v := p.2.epochLoss / (s.nValid : Int)
  recordValidMetrics (updateBest (recordValid p.1 v) v) (divMetrics p.2.metricSums s.nValid)

def applyAction (s : State) : Action → State
  | .stop => { s with stop := true }
  | .setTrainBatches n => { s with nTrain := n }
  | .setOpt k => { s with optKind := k }
  | .setLoss id => { s with lossId := id }

/-- the callbacks of one epoch: what they do is given by a schedule (fit-call index, local epoch) ↦ actions -/
def runCallbacks (sched : Nat → Nat → List Action) (call : Nat) (s : State) : State :=
  let s' := (sched call s.localEpoch).foldl applyAction s
  { s' with log := .callbacks call s.localEpoch :: s'.log }

/-- one iteration of the `for local_epoch in range(max_epochs)` loop (after the stop check) -/
def epoch (c : Cfg) (sched : Nat → Nat → List Action) (call : Nat) (i : Nat) (s : State) : State :=
  let s1 := { s with localEpoch := i + 1 }
  runCallbacks sched call (validEpoch c (trainEpoch c s1))

/-- the loop body with the `if self._stop_training: break` check: once stopped, the rest of the range is skipped -/
def fitLoop (c : Cfg) (sched : Nat → Nat → List Action) (call : Nat) : Nat → Nat → State → State
  | 0, _, s => s
  | k+1, i, s => if s.stop then s else fitLoop c sched call k (i+1) (epoch c sched call i s)

/-- `fit(max_epochs, callbacks)` -/
def fit (c : Cfg) (sched : Nat → Nat → List Action) (call : Nat) (maxEpochs : Nat) (s : State) : State :=
  fitLoop c sched call maxEpochs 0 { s with stop := false, maxLocal := maxEpochs }

/-- a sequence of `fit` calls (call index = position) -/
def fits (c : Cfg) (sched : Nat → Nat → List Action) : Nat → List Nat → State → State
  | _, [], s => s
  | call, m :: rest, s => fits c sched (call + 1) rest (fit c sched call m s)

/-! ### gradient bookkeeping, as a function of the event log

`optimizer.zero_grad()` clears `.grad`; every *training* closure evaluation calls `loss.backward()`, which ADDS the
batch gradient; validation never back-propagates; `optimizer.step` sees whatever has accumulated.  The log is
newest-first, so the chronological fold is a structural recursion on the list. -/

/-- (current `.grad`, gradients seen by the optimiser steps so far, oldest first) -/
def gradStep (c : Cfg) (acc : Int × List Int) : Event → Int × List Int
  | .zeroGrad => (0, acc.2)
  | .evalLoss l θ true idx => (acc.1 + c.gradOf l θ true idx, acc.2)
  | .step _ _ _ => (acc.1, acc.2 ++ [acc.1])
  | _ => acc

def gradTrace (c : Cfg) : List Event → Int × List Int
  | [] => (0, [])
  | e :: log => gradStep c (gradTrace c log) e

end NdeVerif.Solver
