/-
  Small routing models used by C04 (Mathlib-free, executable):
  * `BundleSolver1D._diff_eqs_wrapper`: which of the variables `(funcs…, t, θ₀, θ₁, …)` reach the user's equations;
  * `SolverSpherical._auto_enforce`: truncation of the coordinates to the arity the condition accepts;
  * `BaseSolver._set_loss_fn`: dispatch on the kind of the `loss_fn` argument.
-/
namespace NdeVerif.Routing

/-- `eq_param_index = tuple(N_FUNCTIONS + N_COORDS + idx for idx in eq_param_index)` with `N_COORDS = 1`;
`funcs_and_coords = variables[:N_FUNCTIONS + 1]`; `eq_params = tuple(variables[idx] for idx in eq_param_index)`;
the user's equations receive `funcs_and_coords ++ eq_params`.  `none` models Python's IndexError. -/
def bundleArgs {α : Type} (nFuncs : Nat) (eqParamIndex : List Nat) (variables : List α) : Option (List α) :=
  let shifted := eqParamIndex.map (fun i => nFuncs + 1 + i)
  (shifted.mapM (fun i => variables[i]?)).map (fun ps => variables.take (nFuncs + 1) ++ ps)

/-- `coordinates[:n_params - 1]` where `n_params` counts the parameters of `parameterize` (output + inputs) or of an
overriding `enforce` (net + inputs) -/
def autoEnforceCoords {α : Type} (nParams : Nat) (coords : List α) : List α := coords.take (nParams - 1)

inductive LossArg | none | name (s : String) | lossObject | callable | other
  deriving DecidableEq, Repr

inductive LossFn | defaultMse | wrappedObject | named (s : String) | user | typeError | keyError
  deriving DecidableEq, Repr

def knownLossNames : List String := ["l1", "l2", "infinity", "h1", "h1 semi"]

/-- `_set_loss_fn`: None → mean squared residual; `_Loss` instance → wrapped against zeros; str → table lookup of the
lower-cased name (KeyError if absent); other callable → itself; anything else → TypeError.  The order of the tests is
the code's (an `_Loss` instance is also callable, a str is not). -/
def setLossFn : LossArg → LossFn
  | .none => .defaultMse
  | .lossObject => .wrappedObject
  | .name s => if s.toLower ∈ knownLossNames then .named s.toLower else .keyError
  | .callable => .user
  | .other => .typeError

end NdeVerif.Routing
