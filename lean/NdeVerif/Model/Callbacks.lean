/-
  Model of `neurodiffeq.callbacks` (condition callbacks, their Boolean combinators, the action callbacks
  Stop / SetLossFn / SetOptimizer / Eve) and of the part of `BaseSolver.fit` that drives them
  (Mathlib-free, executable).

  Conventions
  * Histories (`metrics_history['train_loss']`, `['valid_loss']`) are kept NEWEST FIRST: `history[-1]` is the
    head, `history[-2]` the second entry, `append` is `cons`.  `global_epoch = len(train_loss)`.
  * Metric values are integers (the correspondence scripts loss values that are exactly representable); the
    Eve rule reads a value as `history[-1] / den` for a fixed denominator `den`.
  * Stateful objects carry their state inside the term: `Cond.repeated … soFar` (`self.so_far`),
    `Action.setLossFn … called`, `Action.setOptimizer … called` (`self.called`).  Evaluating returns the
    updated term.
  * `&`, `|`, `^` build `AndCallback([a, b])`, `OrCallback([a, b])`, `XorCallback([a, b])`; an n-ary list
    `[c1, c2, c3]` behaves exactly like the right-nested binary term `c1 ∘ (c2 ∘ c3)` (same evaluation order,
    same short-circuit points, same parity), which is how the driver reads n-ary lists.
-/
namespace NdeVerif.Callbacks

/-! ### condition callbacks -/

/-- what a condition callback may look at: `solver.local_epoch`, `solver.global_epoch`,
`solver._max_local_epoch`, `solver.metrics_history[...]` -/
structure Ctx where
  loc : Nat
  glob : Nat
  maxLoc : Nat
  train : List Int
  valid : List Int
  deriving Repr

inductive Kind | up | down | converge | diverge | below | above
  deriving Repr, BEq, DecidableEq

/-- `_last_satisfied(last, second2last)` of the six `_RepeatedMetricChange` subclasses.  `param` is
`at_least_by` / `epsilon` / `gap` / `threshold`; Converge and Diverge store `abs(param)`. -/
def Kind.step (k : Kind) (param last prev : Int) : Bool :=
  match k with
  | .up => decide (prev + param ≤ last)
  | .down => decide (last ≤ prev - param)
  | .converge => decide ((last - prev).natAbs < param.natAbs)
  | .diverge => decide (param.natAbs < (last - prev).natAbs)
  | .below => decide (last < param)
  | .above => decide (param < last)

inductive Cond where
  | tt | ff
  | onFirstLocal | onFirstGlobal | onLastLocal
  | periodLocal (p : Nat) (off : Int)
  | periodGlobal (p : Nat) (off : Int)
  | intervalLocal (lo hi : Option Int)      -- `None` = −∞ / +∞
  | intervalGlobal (lo hi : Option Int)
  | repeated (k : Kind) (param : Int) (useTrain : Bool) (rep : Nat) (soFar : Nat)
  | and (a b : Cond) | or (a b : Cond) | not (a : Cond) | xor (a b : Cond)
  deriving Repr, BEq

/-- `self.min <= e <= self.max` with `-inf` / `inf` defaults -/
def inInterval (lo hi : Option Int) (e : Nat) : Bool :=
  (match lo with | none => true | some l => decide (l ≤ (e : Int))) &&
  (match hi with | none => true | some h => decide ((e : Int) ≤ h))

/-- `e % period == offset % period` (Python `%` on ints with a positive modulus is `Int.emod`) -/
def periodHit (p : Nat) (off : Int) (e : Nat) : Bool :=
  decide ((e : Int) % (p : Int) = off % (p : Int))

/-- new value of `so_far`:  `if len(history) >= 2 and _last_satisfied(history[-1], history[-2]): so_far += 1
else: so_far = 0` -/
def soFarNext (k : Kind) (param : Int) (hist : List Int) (soFar : Nat) : Nat :=
  match hist with
  | last :: prev :: _ => if k.step param last prev then soFar + 1 else 0
  | _ => 0

/-- `cond.condition(solver)`: the result and the callback after the call (state updated) -/
def Cond.eval (x : Ctx) : Cond → Bool × Cond
  | .tt => (true, .tt)
  | .ff => (false, .ff)
  | .onFirstLocal => (x.loc == 1, .onFirstLocal)
  | .onFirstGlobal => (x.glob == 1, .onFirstGlobal)
  | .onLastLocal => (x.loc == x.maxLoc, .onLastLocal)
  | .periodLocal p off => (periodHit p off x.loc, .periodLocal p off)
  | .periodGlobal p off => (periodHit p off x.glob, .periodGlobal p off)
  | .intervalLocal lo hi => (inInterval lo hi x.loc, .intervalLocal lo hi)
  | .intervalGlobal lo hi => (inInterval lo hi x.glob, .intervalGlobal lo hi)
  | .repeated k param ut rep soFar =>
    let so' := soFarNext k param (if ut then x.train else x.valid) soFar
    (decide (rep ≤ so'), .repeated k param ut rep so')
  | .and a b =>
    -- `for c in [a, b]: if not c.condition(solver): return False` — `b` is not evaluated when `a` is false
    let ra := a.eval x
    if ra.1 then
      let rb := b.eval x
      (rb.1, .and ra.2 rb.2)
    else (false, .and ra.2 b)
  | .or a b =>
    let ra := a.eval x
    if ra.1 then (true, .or ra.2 b)
    else
      let rb := b.eval x
      (rb.1, .or ra.2 rb.2)
  | .not a =>
    let ra := a.eval x
    (!ra.1, .not ra.2)
  | .xor a b =>
    -- `sum(1 for c in [a, b] if c.condition(solver)) % 2 == 1` — both are always evaluated
    let ra := a.eval x
    let rb := b.eval x
    (ra.1 != rb.1, .xor ra.2 rb.2)

/-- `BaseMonitor.to_callback`: `check_every = check_every or 100`; `OnLastLocal() | PeriodLocal(check_every)` -/
def monitorCond (checkEvery : Option Nat) : Cond :=
  let ce := match checkEvery with | none => 100 | some 0 => 100 | some n => n
  .or .onLastLocal (.periodLocal ce 0)

/-- the `so_far` counters of a term, in pre-order (observed on the real objects by the correspondence) -/
def Cond.counters : Cond → List Nat
  | .repeated _ _ _ _ s => [s]
  | .and a b => a.counters ++ b.counters
  | .or a b => a.counters ++ b.counters
  | .xor a b => a.counters ++ b.counters
  | .not a => a.counters
  | _ => []

/-! ### the Eve rule on exact rationals -/

/-- `max(0, ⌊log_p x⌋)` for `x = xn/xd > 0`, `p = pn/pd ∈ (0,1)`, computed without logarithms:
`⌊log_p x⌋ ≥ k ↔ x ≤ p^k`, so count upwards while `x ≤ p^(k+1)`. -/
def eveK (pn pd xn xd : Nat) : Nat → Nat → Nat
  | 0, k => k
  | fuel + 1, k => if xn * pd ^ (k + 1) ≤ pn ^ (k + 1) * xd then eveK pn pd xn xd fuel (k + 1) else k

/-- the same for any base `p ≠ 1`: for `p > 1`, `log_p x = log_{1/p} (1/x)`, so numerators and denominators swap -/
def eveKAny (pn pd xn xd fuel : Nat) : Nat :=
  if pn < pd then eveK pn pd xn xd fuel 0 else eveK pd pn xd xn fuel 0

/-- `double_times = max(double_times, 0); n_batches['train'] = min(n_0 * 2 ** double_times, n_max)` with
`n_max = n_max or inf` -/
def eveBatches (n0 : Nat) (nmax : Option Nat) (dt : Int) : Nat :=
  let n := n0 * 2 ^ (max dt 0).toNat
  match nmax with
  | none => n
  | some 0 => n
  | some m => min n m

structure EveCfg where
  v0n : Nat          -- base_value = v0n / v0d
  v0d : Nat
  pn : Nat           -- double_at = pn / pd
  pd : Nat
  den : Nat          -- metric value = history[-1] / den
  n0 : Nat
  nmax : Option Nat
  useTrain : Bool
  deriving Repr, BEq

def eveFuel : Nat := 200

/-! ### solver state, actions, callbacks -/

/-- one run of an action callback's `__call__`: (index in the callbacks list, fit() call number, local epoch,
global epoch) -/
structure Event where
  cb : Nat
  fit : Nat
  loc : Nat
  glob : Nat
  deriving Repr, BEq, DecidableEq

structure Solver where
  loc : Nat := 0             -- `local_epoch`
  maxLoc : Nat := 0          -- `_max_local_epoch`
  stop : Bool := false       -- `_stop_training`
  train : List Int := []     -- `metrics_history['train_loss']`, newest first
  valid : List Int := []
  nTrain : Nat := 1          -- `n_batches['train']`
  nValid : Nat := 1
  lossFn : Nat := 0          -- identity of `solver.loss_fn` (0 = the one given to the constructor)
  lossSets : Nat := 0        -- number of `_set_loss_fn` calls made by callbacks
  opt : Nat := 0             -- identity of `solver.optimizer` (0 = constructor's; ≥ 100 = created by SetOptimizer(class))
  optSets : Nat := 0         -- number of assignments to `solver.optimizer` made by callbacks
  created : Nat := 0         -- optimizers created so far by SetOptimizer(class)
  optParams : List Nat := [] -- parameter ids registered in the current optimizer (group order)
  nets : List Nat := [0]     -- net id of every unknown (`solver.nets`); a repeated id = a shared network
  perNet : Nat := 4          -- parameter tensors per network; net `n` owns ids `n*perNet … n*perNet+perNet-1`
  fitIdx : Nat := 0          -- ghost: number of fit() calls started
  log : List Event := []     -- ghost: action runs, newest first
  deriving Repr

def Solver.ctx (s : Solver) : Ctx := ⟨s.loc, s.train.length, s.maxLoc, s.train, s.valid⟩

def netParams (perNet n : Nat) : List Nat := (List.range perNet).map (n * perNet + ·)

/-- `OrderedSet(iterable)`: first occurrences, in order -/
def dedup : List Nat → List Nat
  | [] => []
  | x :: xs => x :: (dedup xs).filter (· != x)

/-- `OrderedSet(chain.from_iterable(net.parameters() for net in solver.nets))` -/
def Solver.distinctParams (s : Solver) : List Nat := dedup (s.nets.flatMap (netParams s.perNet))

inductive OptSrc
  | inst (id : Nat) (params : List Nat)   -- an optimizer instance built by the caller over `params`
  | cls                                   -- an optimizer class
  deriving Repr, BEq

inductive Action
  | spy
  | stop
  | setLossFn (id : Nat) (reset called : Bool)
  | setOptimizer (src : OptSrc) (reset called : Bool)
  | eve (cfg : EveCfg)
  deriving Repr, BEq

def Solver.logged (s : Solver) (idx : Nat) : Solver :=
  { s with log := ⟨idx, s.fitIdx, s.loc, s.train.length⟩ :: s.log }

/-- `action(solver)` -/
def Action.run (idx : Nat) (s : Solver) : Action → Solver × Action
  | .spy => (s.logged idx, .spy)
  | .stop => ({ s.logged idx with stop := true }, .stop)
  | .setLossFn id reset called =>
    if reset || !called then
      ({ s.logged idx with lossFn := id, lossSets := s.lossSets + 1 }, .setLossFn id reset true)
    else (s.logged idx, .setLossFn id reset called)
  | .setOptimizer src reset called =>
    if reset || !called then
      match src with
      | .inst id params =>
        ({ s.logged idx with opt := id, optSets := s.optSets + 1, optParams := params }, .setOptimizer src reset true)
      | .cls =>
        ({ s.logged idx with opt := 100 + s.created, created := s.created + 1, optSets := s.optSets + 1,
                             optParams := s.distinctParams }, .setOptimizer src reset true)
    else (s.logged idx, .setOptimizer src reset called)
  | .eve c =>
    let hist := if c.useTrain then s.train else s.valid
    match hist with
    | v :: _ =>
      -- v ≤ 0 raises in the code (log of a non-positive number); outside the property's quantifier
      if v ≤ 0 then (s.logged idx, .eve c)
      else
        let k := eveKAny c.pn c.pd (v.toNat * c.v0d) (c.den * c.v0n) eveFuel
        ({ s.logged idx with nTrain := eveBatches c.n0 c.nmax k }, .eve c)
    | [] => (s.logged idx, .eve c)

inductive Callback
  | bare (a : Action)                       -- an ActionCallback put directly in the callbacks list
  | cond (c : Cond) (a : Option Action)     -- `action.conditioned_on(c)` / `c.set_action_callback(action)`
  deriving Repr, BEq

/-- `cb(solver)`; for a condition callback: `if self.condition(solver): if self.action_callback: action(solver)` -/
def Callback.run (idx : Nat) (s : Solver) : Callback → Solver × Callback
  | .bare a =>
    let r := a.run idx s
    (r.1, .bare r.2)
  | .cond c a =>
    let rc := c.eval s.ctx
    if rc.1 then
      match a with
      | some act =>
        let r := act.run idx s
        (r.1, .cond rc.2 (some r.2))
      | none => (s, .cond rc.2 none)
    else (s, .cond rc.2 a)

/-- `for cb in callbacks: cb(self)` -/
def runCallbacks : Nat → Solver → List Callback → Solver × List Callback
  | _, s, [] => (s, [])
  | j, s, cb :: rest =>
    let r1 := cb.run j s
    let r2 := runCallbacks (j + 1) r1.1 rest
    (r2.1, r1.2 :: r2.2)

/-! ### the fit loop -/

/-- scripted loss: the value the loss function returns in the epoch whose index (number of completed epochs
of that phase) is `k`; loss function `id` adds `lossOffset * id` so that a switch is visible in the history -/
structure Src where
  train : Nat → Int
  valid : Nat → Int

def lossOffset : Int := 1000

/-- `_run_epoch('train')`: nothing at all when `n_batches['train'] <= 0`, else one value appended -/
def trainEpoch (src : Src) (s : Solver) : Solver :=
  if s.nTrain = 0 then s else { s with train := (src.train s.train.length + lossOffset * s.lossFn) :: s.train }

def validEpoch (src : Src) (s : Solver) : Solver :=
  if s.nValid = 0 then s else { s with valid := (src.valid s.valid.length + lossOffset * s.lossFn) :: s.valid }

/-- one iteration of the loop body for loop index `i`:
`self.local_epoch = i + 1; run_train_epoch(); run_valid_epoch(); for cb in callbacks: cb(self)` -/
def epochStep (src : Src) (i : Nat) (s : Solver) (cbs : List Callback) : Solver × List Callback :=
  runCallbacks 0 (validEpoch src (trainEpoch src { s with loc := i + 1 })) cbs

/-- `for local_epoch in range(max_epochs)` from index `i` with `n` iterations left:
`if self._stop_training: break; <loop body>`.  Returns the final state and one snapshot per epoch that ran. -/
def loop (src : Src) : Nat → Nat → Solver → List Callback → Solver × List Callback × List (Solver × List Callback)
  | _, 0, s, cbs => (s, cbs, [])
  | i, n + 1, s, cbs =>
    if s.stop then (s, cbs, [])
    else
      let r := epochStep src i s cbs
      let rest := loop src (i + 1) n r.1 r.2
      (rest.1, rest.2.1, r :: rest.2.2)

/-- `fit(max_epochs, callbacks)`: `_stop_training = False; _max_local_epoch = max_epochs; loop` -/
def fit (src : Src) (maxEpochs : Nat) (s : Solver) (cbs : List Callback) :
    Solver × List Callback × List (Solver × List Callback) :=
  loop src 0 maxEpochs { s with stop := false, maxLoc := maxEpochs, fitIdx := s.fitIdx + 1 } cbs

/-- a sequence of fit() calls with the same callback objects -/
def fits (src : Src) : List Nat → Solver → List Callback →
    Solver × List Callback × List (List (Solver × List Callback) × Solver)
  | [], s, cbs => (s, cbs, [])
  | m :: ms, s, cbs =>
    let r := fit src m s cbs
    let rest := fits src ms r.1 r.2.1
    (rest.1, rest.2.1, (r.2.2, r.1) :: rest.2.2)

/-! ### enumeration of all expression trees up to a depth over a leaf pool (for the truth-table campaign) -/

def treeCount (L : Nat) : Nat → Nat
  | 0 => L
  | d + 1 => L + treeCount L d + 3 * (treeCount L d) * (treeCount L d)

/-- the `i`-th tree of depth ≤ `d`: leaves first, then `~t`, then `a & b`, `a | b`, `a ^ b` (lexicographic) -/
def treeAt (leaves : Array Cond) : Nat → Nat → Cond
  | 0, i => leaves.getD i .ff
  | d + 1, i =>
    let L := leaves.size
    let t := treeCount L d
    if i < L then leaves.getD i .ff
    else if i < L + t then .not (treeAt leaves d (i - L))
    else
      let j := i - L - t
      let op := j / (t * t)
      let a := treeAt leaves d ((j / t) % t)
      let b := treeAt leaves d (j % t)
      if op == 0 then .and a b else if op == 1 then .or a b else .xor a b

end NdeVerif.Callbacks
