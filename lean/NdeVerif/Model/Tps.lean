/-
  Model of the thin-plate-spline machinery behind `pde.CustomBoundaryCondition` (irregular domains, Dirichlet control
  points only).  Generic in the scalar type through a small operations record so that the SAME definitions run on
  `Float` in the driver and are reasoned about on `ℝ` in `Proofs/C02.lean` (Mathlib-free here).

    ri_sq(p, q)      = Σ_d (p_d - q_d)² + stiffness²                      (`_ri_sq_thin_plate_spline_*`)
    interp(c, P, x)  = Σ_i c_i · ri_sq(P_i, x) · log ri_sq(P_i, x) + c_M + c_{M+1} x + c_{M+2} y
    row_k(P)         = [ri_sq(P_k, P_i) log ri_sq(P_k, P_i)]_i ++ [1, P_k.x, P_k.y]   (k-th equation of the linear system)
    enforce(x)       = A_D(x) + L_D(x) · N(x),   L_D = radius² - Σ_dim interp(c_dim, P, x)²
-/
namespace NdeVerif.Tps

structure Ops (α : Type) where
  add : α → α → α
  sub : α → α → α
  mul : α → α → α
  log : α → α
  zero : α
  one : α

variable {α : Type} (o : Ops α)

def riSq (s : α) (p q : α × α) : α :=
  o.add (o.add (o.mul (o.sub p.1 q.1) (o.sub p.1 q.1)) (o.mul (o.sub p.2 q.2) (o.sub p.2 q.2))) (o.mul s s)

def basis (s : α) (p q : α × α) : α := o.mul (riSq o s p q) (o.log (riSq o s p q))

def sum (l : List α) : α := l.foldr o.add o.zero

def dot (a b : List α) : α := sum o (List.zipWith o.mul a b)

/-- the k-th row of the linear system solved by `_solve_thin_plate_spline` (first M equations) -/
def row (s : α) (pts : List (α × α)) (pk : α × α) : List α :=
  pts.map (fun q => basis o s pk q) ++ [o.one, pk.1, pk.2]

/-- `_interpolate_by_thin_plate_spline(coefs, control_points, (x, y))` -/
def interp (s : α) (pts : List (α × α)) (coefs : List α) (x : α × α) (dflt : α) : α :=
  let m := pts.length
  o.add (o.add (o.add (sum o (List.zipWith (fun c p => o.mul c (basis o s p x)) coefs pts)) (coefs.getD m dflt))
    (o.mul (coefs.getD (m + 1) dflt) x.1)) (o.mul (coefs.getD (m + 2) dflt) x.2)

/-- `LengthFactorInterpolator.interpolate`: radius² − Σ_dim (mapped coordinate)² -/
def lengthFactor (s radius : α) (pts : List (α × α)) (cx cy : List α) (x : α × α) (dflt : α) : α :=
  o.sub (o.mul radius radius)
    (o.add (o.mul (interp o s pts cx x dflt) (interp o s pts cx x dflt)) (o.mul (interp o s pts cy x dflt) (interp o s pts cy x dflt)))

/-- `CustomBoundaryCondition.enforce` without Neumann points: A_D + 0 + L_D · N -/
def enforce (s radius : α) (pts : List (α × α)) (ca cx cy : List α) (x : α × α) (n : α) (dflt : α) : α :=
  o.add (interp o s pts ca x dflt) (o.mul (lengthFactor o s radius pts cx cy x dflt) n)

def floatOps : Ops Float := ⟨(· + ·), (· - ·), (· * ·), Float.log, 0.0, 1.0⟩

end NdeVerif.Tps
