/-
  Model of `PretrainedSolver.save` / `PretrainedSolver.load` on the observables of `NdeVerif.Solver.State`
  (Mathlib-free).  `save` pickles a dictionary and must leave the solver untouched; `load` builds a NEW solver with
  the class defaults (`n_batches_train = 1`, `n_batches_valid = 4`, empty metric series, local epoch 0) and then
  overwrites: networks, best networks together with `lowest_loss` (only when best networks were saved), the two loss
  histories, the optimiser (same class, re-linked to the loaded networks), the loss function and the generators
  (pickled objects: their internal counters travel with them).
-/
import NdeVerif.Model.Solver

namespace NdeVerif.Persist
open NdeVerif.Solver

structure File where
  θ : Int
  best : Option Int
  lowest : Option Val
  trainLoss : List Val
  validLoss : List Val
  optKind : OptKind
  lossId : Nat
  trainDraws : Nat
  validDraws : Nat
  steps : Nat
  cand : List Int        -- ghost
  deriving Repr

def file (s : State) : File :=
  ⟨s.θ, s.best, s.lowest, s.trainLoss, s.validLoss, s.optKind, s.lossId, s.trainDraws, s.validDraws, s.steps, s.cand⟩

/-- `save`: returns the solver and, when pickling succeeds, the file.  The only thing `save` does to the solver is to
ask the training generator for `sampleDraws` batches while it builds the descriptive "sample solution" (1 for
Solver2D, 0 for the 1-D solvers): the generator's position advances, nothing else changes. -/
def save (pickles : Bool) (sampleDraws : Nat) (s : State) : State × Option File :=
  let s' := { s with trainDraws := s.trainDraws + sampleDraws }
  (s', if pickles then some (file s') else none)

/-- `load` with the constructor defaults `nT = 1`, `nV = 4` of the solver classes -/
def load (f : File) (nT nV nMetrics : Nat) : State :=
  { init f.θ f.optKind nT nV nMetrics with
    lossId := f.lossId, trainLoss := f.trainLoss, validLoss := f.validLoss,
    best := f.best, lowest := if f.best.isSome then f.lowest else none,
    trainDraws := f.trainDraws, validDraws := f.validDraws, steps := f.steps, cand := f.cand }

/-- the behaviour before the repair d9a8dc6 (kept as a regression witness): `lowest_loss` was not restored -/
def loadOld (f : File) (nT nV nMetrics : Nat) : State := { load f nT nV nMetrics with lowest := none }

end NdeVerif.Persist
