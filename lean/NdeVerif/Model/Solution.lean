/-
  Model of `get_solution(copy, best)` aliasing and of `BaseSolution.__call__` shape handling (Mathlib-free).

  Networks are values in `NdeVerif.Solver` (`θ`), so aliasing is modelled explicitly: a solution either refers to the
  solver's LIVE networks (it sees later training) or holds a FROZEN value.  In the code:
    nets = self.best_nets if best else self.nets ;  if copy: nets = deepcopy(nets)
  `best_nets` is only ever REBOUND to a fresh deepcopy by `_update_best` and never trained, so a non-copied handle on
  it behaves like a frozen value too; `best_nets is None` (no epoch recorded yet) makes the Solution constructor raise.
-/
import NdeVerif.Model.Solver

namespace NdeVerif.Solution
open NdeVerif.Solver

inductive Sol
  | live
  | frozen (θ : Int)
  deriving DecidableEq, Repr

/-- `get_solution(copy, best)`; `none` = RuntimeError("The nets cannot be None …") -/
def getSolution (copy best : Bool) (s : State) : Option Sol :=
  if best then s.best.map Sol.frozen
  else if copy then some (.frozen s.θ) else some .live

/-- the parameters a solution evaluates with, when called while the solver is in state `s` -/
def evalθ (s : State) : Sol → Int
  | .live => s.θ
  | .frozen θ => θ

/-! ### shapes of `BaseSolution.__call__(*coords, to_numpy, no_reshape)` -/

inductive Out
  | single (shape : List Nat) (numpy : Bool)
  | many (n : Nat) (shape : List Nat) (numpy : Bool)
  deriving DecidableEq, Repr

def numel (shape : List Nat) : Nat := shape.foldl (· * ·) 1

/-- coords are reshaped to (-1, 1); every unknown is computed on (N, 1) columns and reshaped back to the shape of
the FIRST coordinate unless `no_reshape`; a single array iff there is one network -/
def callShape (nNets : Nat) (firstShape : List Nat) (toNumpy noReshape : Bool) : Out :=
  let sh := if noReshape then [numel firstShape, 1] else firstShape
  if nNets > 1 then .many nNets sh toNumpy else .single sh toNumpy

end NdeVerif.Solution
