/-
  Model of the atomic generators of `neurodiffeq.generators` (Mathlib-free, executable):
  `Generator1D`, `Generator2D`, `Generator3D`, `GeneratorND`, `GeneratorSpherical`.

  ONE source for both uses.  Every formula is written once, over an arbitrary scalar type `α` that offers
  the arithmetic and the elementary functions the Python code calls (`Fn α`).  The driver instantiates it
  with `Float` (correspondence with the real code), `NdeVerif.Proofs.C07` instantiates it with `ℝ`
  (theorems); there is no second, hand-copied set of "real-valued" formulas that could drift.

  Randomness is made explicit: a generator's output is a function of its configuration and of the values
  the RNG primitives returned, in call order -- `ctor` = draws consumed by the constructor, `call` = draws
  consumed by this `get_examples()` call:
    `Draw.f xs`  = a `torch.rand(n)` result (uniform variates) or the standard-normal variates `z` behind a
                   `torch.normal(mean, std)` result (`= z * std + mean`, exactly how torch forms it),
    `Draw.n xs`  = a `torch.randperm(n)` / `torch.randint(0, 2, (n,))` result.
  The model has no other state, so "deterministic" = "independent of `call`", "fresh" = "depends on `call`".

  Transcription map (generators.py line numbers of the current tree):
    linNode/linspace   torch.linspace(a, b, n)            (n = 1 gives [a], as torch defines it)
    cheb1Node          _chebyshev_first      l.8-12
    cheb2Node          _chebyshev_second     l.15-19
    cheb2NoisyNode     _chebyshev_second_noisy l.21-25
    lhs                _latin_hypercube      l.28-34
    logNode            torch.logspace(log10 a, log10 b, n) with _compute_log_negative l.37-48
    expNode            GeneratorND 'exp-spaced' l.524-529 (noise scale `|noise_rstd * x|`, the repaired form)
    mesh               torch.meshgrid(..., indexing='ij') followed by .flatten() on every component
    gen1d/gen2d/gen3d/genNd/genSph   the five classes' constructor + getter
-/
namespace NdeVerif.AtomicGen

/-- the elementary functions the generators call (torch / numpy names in comments) -/
class Fn (α : Type) where
  cos : α → α        -- torch.cos
  acos : α → α       -- torch.acos
  atan2 : α → α → α  -- torch.atan2 y x
  sqrt : α → α       -- torch.sqrt
  pow : α → α → α    -- base ** exponent (python float pow; torch.logspace)
  log : α → α        -- torch.log / np.log
  log10 : α → α      -- np.log10
  abs : α → α        -- torch.abs
  pi : α             -- np.pi

/-- one RNG primitive result -/
inductive Draw (α : Type) where
  | f (xs : List α)
  | n (xs : List Nat)
  deriving Repr

def Draw.fl {α} : Draw α → List α
  | .f xs => xs
  | .n _ => []
def Draw.nat {α} : Draw α → List Nat
  | .f _ => []
  | .n xs => xs

/-- kinds of RNG primitive, for the per-call consumption tables -/
inductive Kind where
  | rand | normal | perm | int2
  deriving Repr, BEq, DecidableEq

def Kind.name : Kind → String
  | .rand => "rand" | .normal => "normal" | .perm => "perm" | .int2 => "int2"

section generic
variable {α : Type} [Add α] [Sub α] [Mul α] [Div α] [Neg α] [NatCast α] [OfScientific α] [Min α] [Max α] [Fn α]

/-- k-th float / integer draw of a call -/
def dF (ds : List (Draw α)) (k : Nat) : List α := (ds.getD k (.n [])).fl
def dN (ds : List (Draw α)) (k : Nat) : List Nat := (ds.getD k (.f [])).nat

def nth (xs : List α) (i : Nat) : α := xs.getD i ((0 : Nat) : α)

/-! ### 1-D node formulas -/

/-- `torch.linspace(a, b, n)[i]` -/
def linNode (a b : α) (n i : Nat) : α :=
  if n = 1 then a else a + (b - a) / ((n - 1 : Nat) : α) * (i : α)

def linspace (a b : α) (n : Nat) : List α := (List.range n).map (linNode a b n)

/-- `((a + b) + (b - a) * c) / 2` -/
def affCos (a b c : α) : α := ((a + b) + (b - a) * c) / ((2 : Nat) : α)

/-- `_chebyshev_first(a, b, n)[i]`: `cos(((i + 0.5) / n) * pi)` mapped to the interval -/
def cheb1Node (a b : α) (n i : Nat) : α :=
  affCos a b (Fn.cos ((((i : α) + 0.5) / (n : α)) * Fn.pi))

/-- `_chebyshev_second(a, b, n)[i]`: `cos(i / float(n - 1) * pi)` mapped to the interval -/
def cheb2Node (a b : α) (n i : Nat) : α :=
  affCos a b (Fn.cos ((i : α) / ((n - 1 : Nat) : α) * Fn.pi))

/-- `_chebyshev_second_noisy(a, b, n)[i]` with `u = torch.rand(n)[i]`: `cos((i + (u * 2 - 1)) / float(n - 1) * pi)` -/
def cheb2NoisyNode (a b : α) (n i : Nat) (u : α) : α :=
  affCos a b (Fn.cos (((i : α) + (u * ((2 : Nat) : α) - ((1 : Nat) : α))) / ((n - 1 : Nat) : α) * Fn.pi))

/-- `torch.logspace(np.log10(a), np.log10(b), n)[i]` -/
def logNode (a b : α) (n i : Nat) : α :=
  Fn.pow ((10 : Nat) : α) (linNode (Fn.log10 a) (Fn.log10 b) n i)

/-- GeneratorND 'exp-spaced': `torch.log(torch.linspace(base ** a, base ** b, n)) / np.log(base)` -/
def expNode (base a b : α) (n i : Nat) : α :=
  Fn.log (linNode (Fn.pow base a) (Fn.pow base b) n i) / Fn.log base

/-- the point `_latin_hypercube` puts in stratum `i` before shuffling:
    `rand[i] * (intervals[1] - intervals[0]) + intervals[i]`, `intervals = linspace(a, b, n + 1)` -/
def lhsPoint (a b : α) (n : Nat) (u : α) (i : Nat) : α :=
  u * (linNode a b (n + 1) 1 - linNode a b (n + 1) 0) + linNode a b (n + 1) i

/-- `_latin_hypercube(a, b, n)` with `us = torch.rand(n)`, `perm = torch.randperm(n)`: `points[perm]` -/
def lhs (a b : α) (n : Nat) (us : List α) (perm : List Nat) : List α :=
  perm.map (fun p => lhsPoint a b n (nth us p) p)

def cheb1 (a b : α) (n : Nat) : List α := (List.range n).map (cheb1Node a b n)
def cheb2 (a b : α) (n : Nat) : List α := (List.range n).map (cheb2Node a b n)
def cheb2Noisy (a b : α) (n : Nat) (us : List α) : List α :=
  (List.range n).map (fun i => cheb2NoisyNode a b n i (nth us i))
def logspace (a b : α) (n : Nat) : List α := (List.range n).map (logNode a b n)
def expspace (base a b : α) (n : Nat) : List α := (List.range n).map (expNode base a b n)

/-- `zeros(n) + torch.rand(n) * (b - a) + a` -/
def uniformNode (a b u : α) : α := ((0 : Nat) : α) + u * (b - a) + a
def uniform (a b : α) (n : Nat) (us : List α) : List α :=
  (List.range n).map (fun i => uniformNode a b (nth us i))

/-- `torch.normal(mean=<tensor>, std=<float>)`: `z * std + mean` -/
def noisyS (mean : List α) (s : α) (z : List α) : List α :=
  mean.mapIdx (fun i m => nth z i * s + m)

/-- `torch.normal(mean=<tensor>, std=<tensor>)`: `z * std + mean`, elementwise -/
def noisyT (mean std z : List α) : List α :=
  mean.mapIdx (fun i m => nth z i * nth std i + m)

/-- default noise scale `((b - a) / n) / 4.0` -/
def defaultStd (a b : α) (n : Nat) : α := ((b - a) / (n : α)) / ((4 : Nat) : α)

/-! ### `torch.meshgrid(*axes, indexing='ij')` + `.flatten()` of every component -/

def prodLen {β : Type} : List (List β) → Nat
  | [] => 1
  | x :: rest => x.length * prodLen rest

/-- component `0` repeats each node of the first axis over the whole remaining block; the other components
    tile the mesh of the remaining axes once per node of the first axis (row-major order) -/
def mesh {β : Type} : List (List β) → List (List β)
  | [] => []
  | x :: rest =>
    (x.flatMap (fun v => List.replicate (prodLen rest) v)) ::
      (mesh rest).map (fun col => (List.replicate x.length col).flatten)

/-! ### Generator1D -/

inductive M1 where
  | uniform | eq | eqNoisy | log | logNoisy | cheb1 | cheb2 | cheb2Noisy | lhs
  deriving Repr, BEq, DecidableEq

/-- the `if method == …` chain of `Generator1D.__init__` (anything else: `ValueError`) -/
def M1.parse : String → Option M1
  | "uniform" => some .uniform
  | "equally-spaced" => some .eq
  | "equally-spaced-noisy" => some .eqNoisy
  | "log-spaced" => some .log
  | "log-spaced-noisy" => some .logNoisy
  | "chebyshev" => some .cheb1
  | "chebyshev1" => some .cheb1
  | "chebyshev2" => some .cheb2
  | "chebyshev2-noisy" => some .cheb2Noisy
  | "latin-hypercube" => some .lhs
  | _ => none

structure Cfg1 (α : Type) where
  m : M1
  n : Nat
  a : α
  b : α
  noise : Option α   -- `noise_std` (None / falsy = default)

def Cfg1.std (c : Cfg1 α) : α :=
  match c.noise with
  | some s => s
  | none => defaultStd c.a c.b c.n

def gen1d (c : Cfg1 α) (call : List (Draw α)) : List (List α) :=
  match c.m with
  | .uniform => [uniform c.a c.b c.n (dF call 0)]
  | .eq => [linspace c.a c.b c.n]
  | .eqNoisy => [noisyS (linspace c.a c.b c.n) c.std (dF call 0)]
  | .log => [logspace c.a c.b c.n]
  | .logNoisy => [noisyS (logspace c.a c.b c.n) c.std (dF call 0)]
  | .cheb1 => [cheb1 c.a c.b c.n]
  | .cheb2 => [cheb2 c.a c.b c.n]
  | .cheb2Noisy => [cheb2Noisy c.a c.b c.n (dF call 0)]
  | .lhs => [lhs c.a c.b c.n (dF call 0) (dN call 1)]

def Cfg1.callShape (c : Cfg1 α) : List (Kind × Nat) :=
  match c.m with
  | .uniform => [(.rand, c.n)]
  | .eqNoisy | .logNoisy => [(.normal, c.n)]
  | .cheb2Noisy => [(.rand, c.n)]
  | .lhs => [(.rand, c.n), (.perm, c.n)]
  | _ => []

/-! ### Generator2D -/

inductive M2 where
  | eq | eqNoisy | cheb1 | cheb2 | cheb2Noisy | lhs
  deriving Repr, BEq, DecidableEq

def M2.parse : String → Option M2
  | "equally-spaced" => some .eq
  | "equally-spaced-noisy" => some .eqNoisy
  | "chebyshev1" => some .cheb1
  | "chebyshev" => some .cheb1
  | "chebyshev2" => some .cheb2
  | "chebyshev2-noisy" => some .cheb2Noisy
  | "latin-hypercube" => some .lhs
  | _ => none

structure Cfg2 (α : Type) where
  m : M2
  n0 : Nat
  n1 : Nat
  a0 : α
  a1 : α
  b0 : α
  b1 : α
  noise : Option (α × α)   -- `xy_noise_std`

def Cfg2.stdX (c : Cfg2 α) : α :=
  match c.noise with
  | some s => s.1
  | none => defaultStd c.a0 c.b0 c.n0
def Cfg2.stdY (c : Cfg2 α) : α :=
  match c.noise with
  | some s => s.2
  | none => defaultStd c.a1 c.b1 c.n1

/-- the two 1-D node lists the constructor (or, for 'chebyshev2-noisy', the getter) puts on the axes -/
def Cfg2.axes (c : Cfg2 α) (ctor call : List (Draw α)) : List (List α) :=
  match c.m with
  | .eq | .eqNoisy => [linspace c.a0 c.b0 c.n0, linspace c.a1 c.b1 c.n1]
  | .cheb1 => [cheb1 c.a0 c.b0 c.n0, cheb1 c.a1 c.b1 c.n1]
  | .cheb2 => [cheb2 c.a0 c.b0 c.n0, cheb2 c.a1 c.b1 c.n1]
  | .cheb2Noisy => [cheb2Noisy c.a0 c.b0 c.n0 (dF call 0), cheb2Noisy c.a1 c.b1 c.n1 (dF call 1)]
  | .lhs => [lhs c.a0 c.b0 c.n0 (dF ctor 0) (dN ctor 1), lhs c.a1 c.b1 c.n1 (dF ctor 2) (dN ctor 3)]

def gen2d (c : Cfg2 α) (ctor call : List (Draw α)) : List (List α) :=
  let g := mesh (c.axes ctor call)
  match c.m with
  | .eqNoisy => [noisyS (g.getD 0 []) c.stdX (dF call 0), noisyS (g.getD 1 []) c.stdY (dF call 1)]
  | _ => g

def Cfg2.ctorShape (c : Cfg2 α) : List (Kind × Nat) :=
  match c.m with
  | .lhs => [(.rand, c.n0), (.perm, c.n0), (.rand, c.n1), (.perm, c.n1)]
  | _ => []
def Cfg2.callShape (c : Cfg2 α) : List (Kind × Nat) :=
  match c.m with
  | .eqNoisy => [(.normal, c.n0 * c.n1), (.normal, c.n0 * c.n1)]
  | .cheb2Noisy => [(.rand, c.n0), (.rand, c.n1)]
  | _ => []

/-! ### Generator3D -/

inductive M3 where
  | eq | eqNoisy | cheb1 | cheb2 | lhs
  deriving Repr, BEq, DecidableEq

/-- note: 'chebyshev2-noisy' is *not* accepted by `Generator3D.__init__` -/
def M3.parse : String → Option M3
  | "equally-spaced" => some .eq
  | "equally-spaced-noisy" => some .eqNoisy
  | "chebyshev" => some .cheb1
  | "chebyshev1" => some .cheb1
  | "chebyshev2" => some .cheb2
  | "latin-hypercube" => some .lhs
  | _ => none

structure Cfg3 (α : Type) where
  m : M3
  n0 : Nat
  n1 : Nat
  n2 : Nat
  a0 : α
  a1 : α
  a2 : α
  b0 : α
  b1 : α
  b2 : α

def Cfg3.axes (c : Cfg3 α) (ctor : List (Draw α)) : List (List α) :=
  match c.m with
  | .eq | .eqNoisy => [linspace c.a0 c.b0 c.n0, linspace c.a1 c.b1 c.n1, linspace c.a2 c.b2 c.n2]
  | .cheb1 => [cheb1 c.a0 c.b0 c.n0, cheb1 c.a1 c.b1 c.n1, cheb1 c.a2 c.b2 c.n2]
  | .cheb2 => [cheb2 c.a0 c.b0 c.n0, cheb2 c.a1 c.b1 c.n1, cheb2 c.a2 c.b2 c.n2]
  | .lhs => [lhs c.a0 c.b0 c.n0 (dF ctor 0) (dN ctor 1), lhs c.a1 c.b1 c.n1 (dF ctor 2) (dN ctor 3),
             lhs c.a2 c.b2 c.n2 (dF ctor 4) (dN ctor 5)]

/-- `torch.ones(size) * ((max - min) / grid) / 4.0` -/
def std3 (a b : α) (n : Nat) : α := ((1 : Nat) : α) * ((b - a) / (n : α)) / ((4 : Nat) : α)

/-- `grid + torch.normal(mean=zeros, std=<tensor>)` = `g + (z * std + 0)` -/
def noisy3 (grid : List α) (s : α) (z : List α) : List α :=
  grid.mapIdx (fun i g => g + (nth z i * s + ((0 : Nat) : α)))

def gen3d (c : Cfg3 α) (ctor call : List (Draw α)) : List (List α) :=
  let g := mesh (c.axes ctor)
  match c.m with
  | .eqNoisy => [noisy3 (g.getD 0 []) (std3 c.a0 c.b0 c.n0) (dF call 0),
                 noisy3 (g.getD 1 []) (std3 c.a1 c.b1 c.n1) (dF call 1),
                 noisy3 (g.getD 2 []) (std3 c.a2 c.b2 c.n2) (dF call 2)]
  | _ => g

def Cfg3.ctorShape (c : Cfg3 α) : List (Kind × Nat) :=
  match c.m with
  | .lhs => [(.rand, c.n0), (.perm, c.n0), (.rand, c.n1), (.perm, c.n1), (.rand, c.n2), (.perm, c.n2)]
  | _ => []
def Cfg3.callShape (c : Cfg3 α) : List (Kind × Nat) :=
  match c.m with
  | .eqNoisy => List.replicate 3 (.normal, c.n0 * c.n1 * c.n2)
  | _ => []

/-! ### GeneratorND  (options `cut`, `abs_value` at their defaults; `base` per axis) -/

inductive MN where
  | eq | uniform | log | exp | cheb1 | cheb2
  deriving Repr, BEq, DecidableEq

def MN.parse : String → Option MN
  | "equally-spaced" => some .eq
  | "uniform" => some .uniform
  | "log-spaced" => some .log
  | "exp-spaced" => some .exp
  | "chebyshev" => some .cheb1
  | "chebyshev1" => some .cheb1
  | "chebyshev2" => some .cheb2
  | _ => none

structure Axis (α : Type) where
  m : MN
  n : Nat
  a : α
  b : α
  base : α
  noise : Option α   -- `r_noise_std[i]` (None = default)

def Axis.std (ax : Axis α) : α :=
  match ax.noise with
  | some s => s
  | none => defaultStd ax.a ax.b ax.n

/-- one pass of the constructor loop: the axis nodes `x` and the per-node noise scale; `u` = the
    `torch.rand(n)` the 'uniform' branch consumes (unused by the others) -/
def Axis.nodes (ax : Axis α) (u : List α) : List α × List α :=
  match ax.m with
  | .eq => let x := linspace ax.a ax.b ax.n; (x, x.map (fun _ => ax.std * ((1 : Nat) : α)))
  | .uniform => let x := uniform ax.a ax.b ax.n u; (x, x.map (fun _ => ((0 : Nat) : α)))
  | .log => let x := logspace ax.a ax.b ax.n; (x, x.map (fun v => ax.std * v))
  | .exp => let x := expspace ax.base ax.a ax.b ax.n; (x, x.map (fun v => Fn.abs (ax.std * v)))
  | .cheb1 => let x := cheb1 ax.a ax.b ax.n; (x, x.map (fun _ => ax.std * ((1 : Nat) : α)))
  | .cheb2 => let x := cheb2 ax.a ax.b ax.n; (x, x.map (fun _ => ax.std * ((1 : Nat) : α)))

/-- the constructor loop; a 'uniform' axis consumes the next constructor draw -/
def ndAxes : List (Axis α) → List (Draw α) → List (List α × List α)
  | [], _ => []
  | ax :: rest, ds =>
    match ax.m with
    | .uniform => ax.nodes (dF ds 0) :: ndAxes rest (ds.drop 1)
    | _ => ax.nodes [] :: ndAxes rest ds

structure CfgN (α : Type) where
  axes : List (Axis α)
  noisy : Bool

def CfgN.gridR (c : CfgN α) (ctor : List (Draw α)) : List (List α) := mesh ((ndAxes c.axes ctor).map (·.1))
def CfgN.gridStd (c : CfgN α) (ctor : List (Draw α)) : List (List α) := mesh ((ndAxes c.axes ctor).map (·.2))

def genNd (c : CfgN α) (ctor call : List (Draw α)) : List (List α) :=
  if c.noisy then
    (c.gridR ctor).mapIdx (fun k mean => noisyT mean ((c.gridStd ctor).getD k []) (dF call k))
  else c.gridR ctor

def CfgN.size (c : CfgN α) : Nat := (c.axes.map (·.n)).foldr (· * ·) 1

def CfgN.ctorShape (c : CfgN α) : List (Kind × Nat) :=
  (c.axes.filter (fun ax => ax.m == .uniform)).map (fun ax => (.rand, ax.n))
def CfgN.callShape (c : CfgN α) : List (Kind × Nat) :=
  if c.noisy then List.replicate c.axes.length (.normal, c.size) else []

/-! ### GeneratorSpherical -/

inductive MS where
  | spaced | radius
  deriving Repr, BEq, DecidableEq

def MS.parse : String → Option MS
  | "equally-spaced-noisy" => some .spaced
  | "equally-radius-noisy" => some .radius
  | _ => none

structure CfgS (α : Type) where
  m : MS
  n : Nat
  rmin : α
  rmax : α

/-- `sign = torch.randint(0, 2) * 2 - 1` -/
def sgn (k : Nat) : α := (k : α) * ((2 : Nat) : α) - ((1 : Nat) : α)

/-- `(torch.sqrt(w / (a + b + c)) + 1e-6) * sign` -/
def sphCart (a b c w : α) (k : Nat) : α := (Fn.sqrt (w / (a + b + c)) + 1e-6) * sgn k

/-- `torch.clamp(z, -1.0, 1.0)` -/
def clamp1 (z : α) : α := min (max z (-((1 : Nat) : α))) ((1 : Nat) : α)

def sphTheta (a b c : α) (kz : Nat) : α := Fn.acos (clamp1 (sphCart a b c c kz))
def sphPhi (a b c : α) (kx ky : Nat) : α := -(Fn.atan2 (sphCart a b c b ky) (sphCart a b c a kx)) + Fn.pi

/-- `get_r`: `sqrt(rng * u + lower)` with squared bounds, or `rng * u + lower` -/
def sphR (c : CfgS α) (u : α) : α :=
  match c.m with
  | .spaced => Fn.sqrt ((c.rmax * c.rmax - c.rmin * c.rmin) * u + c.rmin * c.rmin)
  | .radius => (c.rmax - c.rmin) * u + c.rmin

def genSph (c : CfgS α) (call : List (Draw α)) : List (List α) :=
  let A := dF call 0; let B := dF call 1; let C := dF call 2
  let SX := dN call 3; let SY := dN call 4; let SZ := dN call 5
  let U := dF call 6
  let idx := List.range c.n
  [ idx.map (fun i => sphR c (nth U i)),
    idx.map (fun i => sphTheta (nth A i) (nth B i) (nth C i) (SZ.getD i 0)),
    idx.map (fun i => sphPhi (nth A i) (nth B i) (nth C i) (SX.getD i 0) (SY.getD i 0)) ]

def CfgS.callShape (c : CfgS α) : List (Kind × Nat) :=
  [(.rand, c.n), (.rand, c.n), (.rand, c.n), (.int2, c.n), (.int2, c.n), (.int2, c.n), (.rand, c.n)]

/-! ### all five classes behind one interface -/

inductive Cfg (α : Type) where
  | g1 (c : Cfg1 α)
  | g2 (c : Cfg2 α)
  | g3 (c : Cfg3 α)
  | nd (c : CfgN α)
  | sph (c : CfgS α)

/-- `generator.size` -/
def Cfg.size : Cfg α → Nat
  | .g1 c => c.n
  | .g2 c => c.n0 * c.n1
  | .g3 c => c.n0 * c.n1 * c.n2
  | .nd c => c.size
  | .sph c => c.n

/-- number of tensors `get_examples()` returns -/
def Cfg.dims : Cfg α → Nat
  | .g1 _ => 1
  | .g2 _ => 2
  | .g3 _ => 3
  | .nd c => c.axes.length
  | .sph _ => 3

def Cfg.ctorShape : Cfg α → List (Kind × Nat)
  | .g1 _ => []
  | .g2 c => c.ctorShape
  | .g3 c => c.ctorShape
  | .nd c => c.ctorShape
  | .sph _ => []

def Cfg.callShape : Cfg α → List (Kind × Nat)
  | .g1 c => c.callShape
  | .g2 c => c.callShape
  | .g3 c => c.callShape
  | .nd c => c.callShape
  | .sph c => c.callShape

/-- `get_examples()` of a generator built with constructor draws `ctor`, for a call that draws `call` -/
def run : Cfg α → List (Draw α) → List (Draw α) → List (List α)
  | .g1 c, _, call => gen1d c call
  | .g2 c, ctor, call => gen2d c ctor call
  | .g3 c, ctor, call => gen3d c ctor call
  | .nd c, ctor, call => genNd c ctor call
  | .sph c, _, call => genSph c call

/-- every path ends in a leaf created with `requires_grad=True`, in `requires_grad_(True)`, or in
    `torch.normal` of a mean that requires grad; the flag is compared with the real tensors on every run -/
def Cfg.requiresGrad : Cfg α → Bool
  | _ => true

end generic

/-! ### guards that raise (need an order on the scalars) -/
section guards
variable {α : Type} [NatCast α] [Mul α] [LE α] [LT α] [DecidableLE α] [DecidableLT α]

/-- `_compute_log_negative`: `t_min <= 0 or t_max <= 0` raises `ValueError` (Generator1D log methods only) -/
def Cfg1.ctorOk (c : Cfg1 α) : Bool :=
  match c.m with
  | .log | .logNoisy => !(decide (c.a ≤ ((0 : Nat) : α)) || decide (c.b ≤ ((0 : Nat) : α)))
  | _ => true

/-- `GeneratorSpherical.__init__`: `r_min < 0 or r_max < r_min` raises `ValueError` -/
def CfgS.ctorOk (c : CfgS α) : Bool :=
  !(decide (c.rmin < ((0 : Nat) : α)) || decide (c.rmax < c.rmin))

/-- `torch.normal(mean, std)` raises `RuntimeError` unless all `std >= 0` -/
def stdOk (stds : List (List α)) : Bool :=
  stds.all (fun col => col.all (fun s => decide (((0 : Nat) : α) ≤ s)))

end guards

/-! ### `Float` instance (used by the driver only) -/

instance : Fn Float where
  cos := Float.cos
  acos := Float.acos
  atan2 := Float.atan2
  sqrt := Float.sqrt
  pow := Float.pow
  log := Float.log
  log10 := Float.log10
  abs := Float.abs
  pi := 3.141592653589793

instance floatNatCast : NatCast Float := ⟨Float.ofNat⟩

end NdeVerif.AtomicGen
