/-
  Model of `neurodiffeq/neurodiffeq.py` (`unsafe_diff`, `safe_diff`, `diff`).  Mathlib-free, executable.

  * `DiffLoop.unsafeDiff grad u t order` mirrors the control flow of `unsafe_diff` over an abstract gradient
    oracle `grad : Ex → Nat → Option Ex` (`none` = `autograd.grad(..., allow_unused=True)` returned `None`
    because `t` is not reachable from the output):

        der, = autograd.grad(u, t, ...)                      -- always executed, whatever `order` is
        if der is None: return zeros_like(t)
        for i in range(1, order):                            -- max (order-1) 0 iterations
            der, = autograd.grad(der, t, ...)
            if der is None: return zeros_like(t)
        return der

    `order` is a Python `int`: for `order ≤ 1` (including 0 and negative numbers) the loop body never runs
    and the FIRST derivative is returned (`unsafeDiff_order_le_one`).
  * `DiffLoop.autograd` is the oracle used by the tracer (harness/sym.py `sym_grad`): `None` iff the
    variable does not occur, `Ex.D` otherwise.
  * `Shapes` mirrors the two guards of `safe_diff` on shapes (`List Nat`) and `diff`'s dispatch on `shape_check`.
  * `Ex.evalF` is an executable `Float` evaluator for closed-form expressions (used by the C03 correspondence
    against real torch autograd).
-/
import NdeVerif.Calc.Ex

namespace NdeVerif
namespace DiffLoop
open Ex

/-- gradient oracle: `grad u t = none` models `autograd.grad(u, t, allow_unused=True) == (None,)` -/
abbrev Grad := Ex → Nat → Option Ex

/-- `torch.zeros_like(t, requires_grad=True)`: a fresh leaf of value 0 -/
def zerosLike : Ex := .nat 0

/-- the body of `for i in range(1, order)`, `n` iterations remaining, current value of the local `der` -/
def loop (grad : Grad) (t : Nat) : Nat → Ex → Ex
  | 0, der => der
  | n+1, der =>
    match grad der t with
    | none => zerosLike
    | some d => loop grad t n d

/-- number of iterations of `range(1, order)` -/
def iterations (order : Int) : Nat := (order - 1).toNat

/-- `unsafe_diff(u, t, order)` -/
def unsafeDiff (grad : Grad) (u : Ex) (t : Nat) (order : Int) : Ex :=
  match grad u t with
  | none => zerosLike
  | some der => loop grad t (iterations order) der

/-- index (1-based) of the `autograd.grad` call that returned `None`, 0 if none did (coverage bookkeeping
for the correspondence; same recursion as `loop`) -/
def loopNoneStep (grad : Grad) (t : Nat) : Nat → Nat → Ex → Nat
  | 0, _, _ => 0
  | n+1, j, der =>
    match grad der t with
    | none => j
    | some d => loopNoneStep grad t n (j+1) d

def noneStep (grad : Grad) (u : Ex) (t : Nat) (order : Int) : Nat :=
  match grad u t with
  | none => 1
  | some der => loopNoneStep grad t (iterations order) 2 der

/-- the tracer's model of `torch.autograd.grad(u, x, ones_like(u), create_graph=True, allow_unused=True)` -/
def autograd : Grad := fun u x => if u.hasVar x then some (u.D x) else none

/-- `unsafe_diff` with the tracer's autograd model, natural-number order -/
def diffLoop (u : Ex) (x : Nat) (k : Nat) : Ex := unsafeDiff autograd u x (k : Int)

end DiffLoop

namespace Shapes
open DiffLoop

abbrev Shape := List Nat

/-- outcome of the two `if`s at the top of `safe_diff` -/
inductive Guard
  | pass
  | notColumn     -- first `raise ValueError("Input shapes must both be (n_samples, 1) ...")`
  | mismatch      -- second `raise ValueError("Input shapes must be the same shape ...")`
  deriving DecidableEq, Repr, Inhabited

/-- `if len(u.shape) != 2 or len(t.shape) != 2 or u.shape[1] != 1 or t.shape[1] != 1: raise …`
    `if u.shape != t.shape: raise …`   (`or` short-circuits, so `shape[1]` is only read on rank-2 shapes;
    `getD` supplies a value in the unreachable other case) -/
def safeDiffGuard (u t : Shape) : Guard :=
  if u.length != 2 || t.length != 2 || u.getD 1 0 != 1 || t.getD 1 0 != 1 then .notColumn
  else if u != t then .mismatch
  else .pass

def accepts (u t : Shape) : Bool := safeDiffGuard u t == .pass

inductive Outcome
  | raised (g : Guard)      -- ValueError from one of the guards
  | returned (e : Ex)
  deriving Inhabited

/-- `safe_diff(u, t, order)` for operands of shapes `su`, `st` -/
def safeDiff (grad : Grad) (su st : Shape) (u : Ex) (t : Nat) (order : Int) : Outcome :=
  match safeDiffGuard su st with
  | .pass => .returned (unsafeDiff grad u t order)
  | g => .raised g

/-- `diff(u, t, order, shape_check)` -/
def diff (grad : Grad) (su st : Shape) (u : Ex) (t : Nat) (order : Int) (shapeCheck : Bool) : Outcome :=
  if shapeCheck then safeDiff grad su st u t order
  else .returned (unsafeDiff grad u t order)

end Shapes

/-! executable float semantics (closed-form expressions) -/

def UF.evalF : UF → Float → Float
  | .exp => Float.exp | .sin => Float.sin | .cos => Float.cos | .tanh => Float.tanh
  | .log => Float.log | .sqrt => Float.sqrt | .abs => Float.abs

/-- integer power by repeated multiplication (exact on small integers) -/
def powF (a : Float) : Nat → Float
  | 0 => 1.0
  | n+1 => powF a n * a

/-- `Float` evaluation; opaque symbols (`app`) have no closed form and evaluate to NaN (rejected) -/
def Ex.evalF : Ex → (Nat → Float) → Float
  | .var i, ρ => ρ i
  | .nat n, _ => n.toFloat
  | .rat p q, _ => Float.ofInt p / q.toFloat
  | .pi, _ => 3.141592653589793
  | .add a b, ρ => a.evalF ρ + b.evalF ρ
  | .mul a b, ρ => a.evalF ρ * b.evalF ρ
  | .neg a, ρ => - a.evalF ρ
  | .inv a, ρ => 1.0 / a.evalF ρ
  | .pow a n, ρ => powF (a.evalF ρ) n
  | .un f a, ρ => f.evalF (a.evalF ρ)
  | .atan2 a b, ρ => Float.atan2 (a.evalF ρ) (b.evalF ρ)
  | .app _ _ _ _, _ => 0.0 / 0.0

/-- number of constructors (for the size statistics of the correspondence) -/
def Ex.size : Ex → Nat
  | .add a b | .mul a b | .atan2 a b => a.size + b.size + 1
  | .neg a | .inv a | .pow a _ | .un _ a => a.size + 1
  | .app _ n _ args => (List.finRange n).foldl (fun s i => s + (args i).size) 1
  | _ => 1

end NdeVerif
