/-
  Model of the legacy space-time API of `neurodiffeq.temporal` (Mathlib-free, executable):

  * the point samplers `generator_1dspatial`, `generator_temporal`, `generator_2dspatial_segment`,
    `generator_2dspatial_rectangle` as state machines.  The state is the frame of the Python generator
    object (the local variables that live between two `next()` calls); one step takes the numbers that
    `torch.rand(size)` returned during that `next()` and rebinds exactly the locals the Python code rebinds.
    The arithmetic is generic in the number type `α`: the driver instantiates it with `Float`
    (float64, as the correspondence run does), the proofs with `ℝ` — one definition, two readings.
  * the mini-batch loop shared (textually) by `_train_1dspatial_temporal`, `_train_2dspatial`,
    `_train_2dspatial_temporal`: `batches n bs idx`.
  * the history bookkeeping of `_solve_spatial_temporal` (a Python `dict` of lists).
-/
namespace NdeVerif.Temporal

/-- the two literals the samplers need besides `+ - * /`: `float(int)` and `0.5` -/
structure Lit (α : Type) where
  ofNat : Nat → α
  half : α

def LF : Lit Float := ⟨Float.ofNat, 0.5⟩

section samplers
variable {α : Type} [Add α] [Sub α] [Mul α] [Div α] [Neg α]

/-- `torch.linspace(lo, hi, n)` (ATen CPU kernel: one step size, first half counted up from `lo`, second half
counted down from `hi`; a single point is `lo`) -/
def linspace (L : Lit α) (lo hi : α) (n : Nat) : List α :=
  if n = 1 then [lo] else
    let step := (hi - lo) / L.ofNat (n - 1)
    (List.range n).map fun i =>
      if i < n / 2 then lo + step * L.ofNat i else hi - step * L.ofNat (n - 1 - i)

/-! ### `generator_1dspatial(size, x_min, x_max, random)` -/

/-- frame of a running `generator_1dspatial` -/
structure Gen1D (α : Type) where
  size : Nat
  random : Bool
  segLen : α            -- seg_len = (x_max - x_min) / size
  center : List α       -- center = torch.linspace(x_min + seg_len*0.5, x_max - seg_len*0.5, size)
  noiseLo : α           -- noise_lo = -seg_len*0.5
  noise : List α        -- noise (unbound until the first random draw: [])
  deriving Repr

def gen1dInit (L : Lit α) (size : Nat) (xMin xMax : α) (random : Bool) : Gen1D α :=
  let segLen := (xMax - xMin) / L.ofNat size
  let linspaceLo := xMin + segLen * L.half
  let linspaceHi := xMax - segLen * L.half
  { size := size, random := random, segLen := segLen, center := linspace L linspaceLo linspaceHi size,
    noiseLo := (-segLen) * L.half, noise := [] }

/-- one `next()`: `if random: noise = seg_len*torch.rand(size) + noise_lo; yield center + noise  else: yield center`.
`rand` = what `torch.rand(size)` returned (ignored when `random` is off).  Only `noise` is rebound. -/
def gen1dNext (g : Gen1D α) (rand : List α) : Gen1D α × List α :=
  if g.random then
    let noise := rand.map fun r => g.segLen * r + g.noiseLo
    ({ g with noise := noise }, List.zipWith (· + ·) g.center noise)
  else (g, g.center)

/-- consecutive draws from the same generator object; the k-th output belongs to the k-th recorded `rand` -/
def run1d (g : Gen1D α) : List (List α) → List (List α)
  | [] => []
  | r :: rs => (gen1dNext g r).2 :: run1d (gen1dNext g r).1 rs

/-! ### `generator_temporal(size, t_min, t_max, random)` — a separate function in the code with its own body -/

structure GenT (α : Type) where
  size : Nat
  random : Bool
  segLen : α
  center : List α
  noiseLo : α
  noise : List α
  deriving Repr

def genTInit (L : Lit α) (size : Nat) (tMin tMax : α) (random : Bool) : GenT α :=
  let segLen := (tMax - tMin) / L.ofNat size
  let linspaceLo := tMin + segLen * L.half
  let linspaceHi := tMax - segLen * L.half
  { size := size, random := random, segLen := segLen, center := linspace L linspaceLo linspaceHi size,
    noiseLo := (-segLen) * L.half, noise := [] }

def genTNext (g : GenT α) (rand : List α) : GenT α × List α :=
  if g.random then
    let noise := rand.map fun r => g.segLen * r + g.noiseLo
    ({ g with noise := noise }, List.zipWith (· + ·) g.center noise)
  else (g, g.center)

def runT (g : GenT α) : List (List α) → List (List α)
  | [] => []
  | r :: rs => (genTNext g r).2 :: runT (genTNext g r).1 rs

/-! ### `generator_2dspatial_segment(size, start, end, random)` -/

structure GenSeg (α : Type) where
  size : Nat
  random : Bool
  x1 : α
  y1 : α
  x2 : α
  y2 : α
  step : α              -- step = 1./size
  center : List α       -- center = torch.linspace(0. + 0.5*step, 1. - 0.5*step, size)
  noiseLo : α           -- noise_lo = -step*0.5
  noise : List α
  pos : List α          -- pos (unbound before the first draw: [])
  deriving Repr

def genSegInit (L : Lit α) (size : Nat) (x1 y1 x2 y2 : α) (random : Bool) : GenSeg α :=
  let step := L.ofNat 1 / L.ofNat size
  { size := size, random := random, x1 := x1, y1 := y1, x2 := x2, y2 := y2, step := step,
    center := linspace L (L.ofNat 0 + L.half * step) (L.ofNat 1 - L.half * step) size,
    noiseLo := (-step) * L.half, noise := [], pos := [] }

/-- one `next()`: `if random: noise = step*torch.rand(size) + noise_lo; pos = center + noise  else: pos = center;
yield x1 + (x2-x1)*pos, y1 + (y2-y1)*pos`.  `noise` and `pos` are rebound, `center` is not. -/
def genSegNext (g : GenSeg α) (rand : List α) : GenSeg α × (List α × List α) :=
  let g' : GenSeg α :=
    if g.random then
      let noise := rand.map fun r => g.step * r + g.noiseLo
      { g with noise := noise, pos := List.zipWith (· + ·) g.center noise }
    else { g with pos := g.center }
  (g', (g'.pos.map fun p => g.x1 + (g.x2 - g.x1) * p, g'.pos.map fun p => g.y1 + (g.y2 - g.y1) * p))

def runSeg (g : GenSeg α) : List (List α) → List (List α × List α)
  | [] => []
  | r :: rs => (genSegNext g r).2 :: runSeg (genSegNext g r).1 rs

/-! ### `generator_2dspatial_rectangle(size=(x_size, y_size), x_min, x_max, y_min, y_max, random)` -/

/-- `xy = torch.cartesian_prod(x, y); xx = xy[:, 0]; yy = xy[:, 1]` — `x` is the slow index -/
def cartesianProd (x y : List α) : List α × List α :=
  (x.flatMap fun a => y.map fun _ => a, x.flatMap fun _ => y)

/-- frame: the two sub-generators (`x_generator`, `y_generator`) -/
structure GenRect (α : Type) where
  xGen : Gen1D α
  yGen : Gen1D α
  deriving Repr

def genRectInit (L : Lit α) (xSize ySize : Nat) (xMin xMax yMin yMax : α) (random : Bool) : GenRect α :=
  ⟨gen1dInit L xSize xMin xMax random, gen1dInit L ySize yMin yMax random⟩

/-- one `next()`: `x = next(x_generator); y = next(y_generator); cartesian_prod`; `rand.1` / `rand.2` are the
two `torch.rand` results of this `next()`, in call order -/
def genRectNext (g : GenRect α) (rand : List α × List α) : GenRect α × (List α × List α) :=
  let rx := gen1dNext g.xGen rand.1
  let ry := gen1dNext g.yGen rand.2
  (⟨rx.1, ry.1⟩, cartesianProd rx.2 ry.2)

def runRect (g : GenRect α) : List (List α × List α) → List (List α × List α)
  | [] => []
  | r :: rs => (genRectNext g r).2 :: runRect (genRectNext g r).1 rs

end samplers

/-! ### the mini-batch loop of `_train_1dspatial_temporal` / `_train_2dspatial` / `_train_2dspatial_temporal`

```
idx = torch.randperm(n) if shuffle else torch.arange(n)
batch_start, batch_end = 0, batch_size
while batch_start < n:
    if batch_end > n: batch_end = n
    batch_idx = idx[batch_start:batch_end]; ... calculate_loss(batch) ...
    batch_start += batch_size; batch_end += batch_size
epoch_loss = calculate_loss(whole set)
```
-/

/-- the `while` loop with fuel; `bStart`, `bEnd` are `batch_start`, `batch_end` at the loop test -/
def batchLoop (n bs : Nat) (idx : List Nat) : Nat → Nat → Nat → List (List Nat)
  | 0, _, _ => []
  | fuel+1, bStart, bEnd =>
    if bStart < n then
      let bEnd' := if bEnd > n then n else bEnd
      ((idx.drop bStart).take (bEnd' - bStart)) :: batchLoop n bs idx fuel (bStart + bs) (bEnd' + bs)
    else []

/-- index sets of the mini-batches of one epoch, in order (`n + 1` units of fuel: enough for every `bs ≥ 1`) -/
def batches (n bs : Nat) (idx : List Nat) : List (List Nat) := batchLoop n bs idx (n + 1) 0 bs

/-- `idx` of an epoch: the recorded `torch.randperm(n)` or `torch.arange(n)` -/
def epochIdx (shuffle : Bool) (n : Nat) (perm : List Nat) : List Nat := if shuffle then perm else List.range n

/-- every `calculate_loss` call of one `_train_*` call: the mini-batches, then the whole set for `epoch_loss` -/
def trainCalls (shuffle : Bool) (n bs : Nat) (perm : List Nat) : List (List Nat) :=
  batches n bs (epochIdx shuffle n perm) ++ [List.range n]

/-! ### the history dictionary of `_solve_spatial_temporal`

`history` is a `dict` name → list.  The model keeps insertion order and Python's assignment semantics
(`history[k] = []` replaces an existing key).  Values are the epoch numbers that produced the entry. -/

abbrev History := List (String × List Nat)

/-- `history[k] = []` -/
def hset (k : String) (h : History) : History :=
  if h.any (fun e => e.1 == k) then h.map (fun e => if e.1 == k then (e.1, []) else e) else h ++ [(k, [])]

/-- `history[k].append(v)` -/
def happend (v : Nat) (h : History) (k : String) : History :=
  h.map fun e => if e.1 == k then (e.1, e.2 ++ [v]) else e

/-- `history = {'train_loss': [], 'valid_loss': []}; for m in metrics: history['train_'+m] = []; history['valid_'+m] = []` -/
def initHistory (metrics : List String) : History :=
  metrics.foldl (fun h m => hset ("valid_" ++ m) (hset ("train_" ++ m) h)) [("train_loss", []), ("valid_loss", [])]

/-- the keys appended to during one epoch, in order: train loss, train metrics, valid loss, valid metrics -/
def epochKeys (metrics : List String) : List String :=
  ("train_loss" :: metrics.map ("train_" ++ ·)) ++ ("valid_loss" :: metrics.map ("valid_" ++ ·))

/-- the history after `epochs` iterations of `for epoch in range(max_epochs)` -/
def solveLoop (metrics : List String) : Nat → History
  | 0 => initHistory metrics
  | e+1 => (epochKeys metrics).foldl (happend e) (solveLoop metrics e)

end NdeVerif.Temporal
